# -*- coding: utf-8 -*-
"""Spec strategies for the binary protocol families (TLS/SSL, SSH, DNS records, opportunistic-TLS applications).

Every strategy yields a json-able construction spec (see vf.gen.spec).  Values are taken from the *wire grammar*:
unsigned ints of the field width with boundary bias, opaque bytes with constructed sizes, every member of every
enum table, unknown / GREASE code points only where the container declares a fallback class.
"""
import functools

from hypothesis import strategies as st

from vf.core import lib

TLS = 'cryptoparser.tls.'
SSH = 'cryptoparser.ssh.'
DNS = 'cryptoparser.dnsrec.record:'
CDH = 'cryptodatahub.'

MAX_EPOCH_S = (1 << 32) - 2
MAX_SCT_MS = 253402300799999          # 9999-12-31T23:59:59.999Z, the last instant datetime can hold


# ---------------------------------------------------------------------------------------------------
# combinators
# ---------------------------------------------------------------------------------------------------

class _Opt(object):
    def __init__(self, strategy, probability=0.6):
        self.strategy = strategy
        self.probability = probability


def OPT(strategy):  # pylint: disable=invalid-name
    """keyword argument that is omitted in some cases (exercises the default)"""
    return _Opt(strategy)


@st.composite
def obj(draw, ref, *args, **kwargs):
    spec = {'c': ref}
    if args:
        spec['a'] = [draw(arg) for arg in args]
    keywords = {}
    for name in sorted(kwargs):
        value = kwargs[name]
        if isinstance(value, _Opt):
            if not draw(st.booleans()):
                continue
            value = value.strategy
        keywords[name] = draw(value)
    if keywords:
        spec['k'] = keywords
    return spec


def enum_(ref, names=None, exclude=()):
    members = [m.name for m in lib.resolve(ref)] if names is None else list(names)
    members = [m for m in members if m not in exclude]
    return st.sampled_from(members).map(lambda name: {'e': ref, 'n': name})


def uint(bits):
    top = (1 << bits) - 1
    candidates = {0, 1, 2, 127, 128, 255, 256, 32767, 32768, 65535, 65536, top - 1, top, top >> 1, (top >> 1) + 1}
    boundary = sorted(value for value in candidates if 0 <= value <= top)
    return st.one_of(st.sampled_from(boundary), st.integers(0, top))


def sizes(lo, hi, big_cap=300):
    """Constructed sizes: both bounds, their neighbours, small values; large ceilings are reached explicitly."""
    hi_small = min(hi, big_cap)
    points = sorted({lo, min(lo + 1, hi), min(lo + 2, hi), hi_small, max(lo, hi_small - 1)})
    parts = [st.sampled_from(points), st.integers(lo, min(hi, lo + 12)), st.integers(lo, hi_small)]
    return st.one_of(*parts)


def sizes_with_ceiling(lo, hi, big_cap=300):
    """Like sizes() but sometimes exactly hi / hi-1 even when hi is large (ceiling touched)."""
    if hi <= big_cap:
        return sizes(lo, hi, big_cap)
    return st.integers(0, 39).flatmap(
        lambda roll: st.sampled_from([hi, hi - 1]) if roll == 37 else sizes(lo, hi, big_cap))


@st.composite
def blob(draw, lo=0, hi=64, kind='b', size_strategy=None):
    size = draw(size_strategy if size_strategy is not None else sizes(lo, hi))
    if size <= 48:
        data = draw(st.binary(min_size=size, max_size=size))
    else:
        head = draw(st.binary(min_size=8, max_size=8))
        fill = draw(st.sampled_from([0x00, 0xff, 0x41, 0x80]))
        data = (head + bytes([fill]) * size)[:size]
    return {kind: data.hex()}


def byte_list(lo, hi):
    """list of ints 0..255 (items of an Opaque / one-byte Vector), compact for large sizes"""
    @st.composite
    def _draw(draw):
        size = draw(sizes_with_ceiling(lo, hi))
        if size <= 40:
            return draw(st.lists(st.integers(0, 255), min_size=size, max_size=size))
        return {'cycle': draw(st.lists(st.integers(0, 255), min_size=1, max_size=7)), 'n': size}
    return _draw()


def item_list(item, lo, hi, fast=None):
    """list of item specs with a constructed length; long lists are described as a cycle of a few items.
    `fast`: item used alone for ceiling-sized lists (the library decodes enum codes by linear search, so a list of
    32767 arbitrary members costs seconds; the first member of the table is found at once)"""
    @st.composite
    def _draw(draw):
        size = draw(sizes_with_ceiling(lo, hi, 40))
        if size <= 12:
            return draw(st.lists(item, min_size=size, max_size=size))
        if size > 2000 and fast is not None:
            return {'cycle': [fast], 'n': size}
        return {'cycle': draw(st.lists(item, min_size=1, max_size=5)), 'n': size}
    return _draw()


def first_member(ref):
    return {'e': ref, 'n': next(iter(lib.resolve(ref))).name}


def datetime_ms(lo_ms=0, hi_ms=MAX_EPOCH_S * 1000, tz='utc', step=1):
    boundary = [lo_ms, lo_ms + step, hi_ms - (hi_ms % step), 1000 * 0x7fffffff, 1000 * 0x80000000, 1340000000000,
                # past the 32-bit second counter (where a float of milliseconds stops being exact)
                1000 * (1 << 32) + 1, 1000 * (1 << 33) + 1, 1000 * (1 << 33) + 999, 1000 * (1 << 35) + 7, 1000 * (1 << 37) + 501]
    boundary = [b - (b % step) for b in boundary if lo_ms <= b <= hi_ms]
    return st.one_of(st.sampled_from(boundary), st.integers(lo_ms // step, hi_ms // step).map(lambda v: v * step)).map(
        lambda ms: {'dt': ms, 'tz': tz})


ASCII_TOKEN = st.text(alphabet='abcdefghijklmnopqrstuvwxyzABCDEFGHIJKLMNOPQRSTUVWXYZ0123456789-_.@+', min_size=1, max_size=24)
ASCII_PRINTABLE = st.text(alphabet=[chr(c) for c in range(0x20, 0x7f)], min_size=0, max_size=40)


def unknown_code(enum_ref, bits, grease_ref=None):
    """A code point that no member of the enum carries (GREASE values included when a table is given)."""
    known = {m.value.code for m in lib.resolve(enum_ref)}
    if enum_ref.endswith(':TlsCipherSuite'):
        # the signalling suites live in their own table; inside a hello they are flags, not list items
        known |= {m.value.code for m in lib.resolve(CDH + 'tls.algorithm:TlsCipherSuiteExtension')}
    top = (1 << bits) - 1
    candidates = [c for c in (0, 1, 0x7f, 0x80, 0xfe, top, top - 1, 0x1234 & top, 0x7e7e & top, 0xabcd & top) if c not in known]
    grease = [m.value.code for m in lib.resolve(grease_ref)] if grease_ref else []
    strategies = [st.integers(0, top).filter(lambda c: c not in known)]
    if candidates:
        strategies.append(st.sampled_from(sorted(set(candidates))))
    if grease:
        strategies.append(st.sampled_from(grease))
    return st.one_of(*strategies)


def invalid_two(enum_ref):
    return obj(TLS + 'grease:TlsInvalidTypeTwoByte', unknown_code(enum_ref, 16, CDH + 'tls.algorithm:TlsGreaseTwoByte'))


def invalid_one(enum_ref):
    return obj(TLS + 'grease:TlsInvalidTypeOneByte', unknown_code(enum_ref, 8, CDH + 'tls.algorithm:TlsGreaseOneByte'))


def coded_items(enum_ref, bits, weight_unknown=1):
    unknown = invalid_two(enum_ref) if bits == 16 else invalid_one(enum_ref)
    return st.one_of(*([enum_(enum_ref)] * 3 + [unknown] * weight_unknown))


# ---------------------------------------------------------------------------------------------------
# registry
# ---------------------------------------------------------------------------------------------------

_REGISTRY = {}


def register(ref):
    def decorator(func):
        _REGISTRY[ref] = func
        return func
    return decorator


def strategy_for(ref):
    """Spec strategy of a class reference (cached; lazily built because strategies reference each other)."""
    return st.deferred(lambda: _build_strategy(ref))


@functools.lru_cache(maxsize=None)
def _build_strategy(ref):
    return _REGISTRY[ref]()


def registered():
    return sorted(_REGISTRY)


S = strategy_for  # pylint: disable=invalid-name

ALG = CDH + 'tls.algorithm:'
EXT = TLS + 'extension:'
SUB = TLS + 'subprotocol:'


# ------------------------------------------------------------------ TLS basic values --------------

@register(TLS + 'version:TlsProtocolVersion')
def _tls_protocol_version():
    return obj(TLS + 'version:TlsProtocolVersion', enum_(CDH + 'tls.version:TlsVersion'))


@register(TLS + 'grease:TlsInvalidTypeOneByte')
def _invalid_one():
    return obj(TLS + 'grease:TlsInvalidTypeOneByte', uint(8))


@register(TLS + 'grease:TlsInvalidTypeTwoByte')
def _invalid_two():
    return obj(TLS + 'grease:TlsInvalidTypeTwoByte', uint(16))


def _vector(ref, items):
    return obj(ref, items)


@register(SUB + 'TlsCipherSuiteVector')
def _cipher_suite_vector():
    return _vector(SUB + 'TlsCipherSuiteVector', item_list(coded_items(ALG + 'TlsCipherSuite', 16), 1, 32767, first_member(ALG + 'TlsCipherSuite')))


def cipher_suite_items():
    return item_list(coded_items(ALG + 'TlsCipherSuite', 16), 1, 32767, first_member(ALG + 'TlsCipherSuite'))


@register(SUB + 'TlsCompressionMethodVector')
def _compression_vector():
    return _vector(SUB + 'TlsCompressionMethodVector', item_list(coded_items(ALG + 'TlsCompressionMethod', 8), 1, 255))


@register(SUB + 'TlsSessionIdVector')
def _session_id():
    return _vector(SUB + 'TlsSessionIdVector', byte_list(0, 32))


@register(SUB + 'TlsHandshakeHelloRandomBytes')
def _random_bytes():
    return _vector(SUB + 'TlsHandshakeHelloRandomBytes', byte_list(28, 28))


@register(SUB + 'TlsHandshakeHelloRandom')
def _hello_random():
    return obj(SUB + 'TlsHandshakeHelloRandom', datetime_ms(0, ((1 << 32) - 1) * 1000, 'naive', 1000), S(SUB + 'TlsHandshakeHelloRandomBytes'))


@register(EXT + 'TlsECPointFormatVector')
def _point_formats():
    return _vector(EXT + 'TlsECPointFormatVector', item_list(coded_items(ALG + 'TlsECPointFormat', 8), 1, 255))


@register(EXT + 'TlsEllipticCurveVector')
def _curves():
    return _vector(EXT + 'TlsEllipticCurveVector', item_list(coded_items(ALG + 'TlsNamedCurve', 16), 1, 32767, first_member(ALG + 'TlsNamedCurve')))


@register(EXT + 'TlsSupportedVersionVector')
def _supported_versions():
    item = st.one_of(S(TLS + 'version:TlsProtocolVersion'), S(TLS + 'version:TlsProtocolVersion'),
                     invalid_two(CDH + 'tls.version:TlsVersion'))
    return _vector(EXT + 'TlsSupportedVersionVector', item_list(item, 1, 127))


@register(EXT + 'TlsSignatureAndHashAlgorithmVector')
def _sigalgs():
    return _vector(EXT + 'TlsSignatureAndHashAlgorithmVector',
                   item_list(coded_items(ALG + 'TlsSignatureAndHashAlgorithm', 16), 1, 32767, first_member(ALG + 'TlsSignatureAndHashAlgorithm')))


@register(EXT + 'TlsKeyExchangeVector')
def _key_exchange():
    return _vector(EXT + 'TlsKeyExchangeVector', byte_list(1, 65535))


@register(EXT + 'TlsKeyShareEntry')
def _key_share_entry():
    return obj(EXT + 'TlsKeyShareEntry', enum_(ALG + 'TlsNamedCurve'), byte_list(1, 600))


@register(EXT + 'TlsKeyShareEntryInvalidType')
def _key_share_entry_invalid():
    return obj(EXT + 'TlsKeyShareEntryInvalidType', invalid_two(ALG + 'TlsNamedCurve'), blob(0, 80))


@register(EXT + 'TlsKeyShareEntryVector')
def _key_share_entries():
    item = st.one_of(S(EXT + 'TlsKeyShareEntry'), S(EXT + 'TlsKeyShareEntry'), S(EXT + 'TlsKeyShareEntryInvalidType'))
    return _vector(EXT + 'TlsKeyShareEntryVector', st.lists(item, max_size=5))


@register(EXT + 'TlsCertificateStatusRequestExtensions')
def _sr_extensions():
    return _vector(EXT + 'TlsCertificateStatusRequestExtensions', byte_list(0, 65535))


@register(EXT + 'TlsCertificateStatusRequestResponderId')
def _sr_responder():
    return _vector(EXT + 'TlsCertificateStatusRequestResponderId', byte_list(1, 300))


@register(EXT + 'TlsCertificateStatusRequestResponderIdList')
def _sr_responder_list():
    return _vector(EXT + 'TlsCertificateStatusRequestResponderIdList', st.lists(S(EXT + 'TlsCertificateStatusRequestResponderId'), max_size=4))


@register(EXT + 'TlsRenegotiatedConnection')
def _reneg():
    return _vector(EXT + 'TlsRenegotiatedConnection', byte_list(0, 255))


@register(EXT + 'TlsServerName')
def _server_name_vector():
    return _vector(EXT + 'TlsServerName', byte_list(1, 300))


@register(EXT + 'TlsProtocolNameList')
def _alpn_list():
    return _vector(EXT + 'TlsProtocolNameList', item_list(enum_(ALG + 'TlsProtocolName'), 1, 40))


@register(EXT + 'TlsNextProtocolNameList')
def _npn_list():
    return _vector(EXT + 'TlsNextProtocolNameList', item_list(enum_(ALG + 'TlsNextProtocolName'), 1, 40))


@register(EXT + 'TlsTokenBindingParamaterVector')
def _token_params():
    return _vector(EXT + 'TlsTokenBindingParamaterVector', item_list(coded_items(ALG + 'TlsTokenBindingParamater', 8), 1, 255))


@register(EXT + 'TlsTokenBindingProtocolVersion')
def _token_version():
    return obj(EXT + 'TlsTokenBindingProtocolVersion', uint(8), uint(8))


@register('cryptoparser.common.base:ProtocolVersionMajorMinorBase')
def _major_minor():
    return obj('cryptoparser.common.base:ProtocolVersionMajorMinorBase', uint(8), uint(8))


@register(EXT + 'TlsPskKeyExchangeModeVector')
def _psk_modes():
    return _vector(EXT + 'TlsPskKeyExchangeModeVector', item_list(coded_items(ALG + 'TlsPskKeyExchangeMode', 8), 1, 255))


@register(EXT + 'TlsCertificateCompressionAlgorithmVector')
def _cert_compression():
    return _vector(EXT + 'TlsCertificateCompressionAlgorithmVector',
                   item_list(coded_items(ALG + 'TlsCertificateCompressionAlgorithm', 16), 1, 127))


# ------------------------------------------------------------------ x509 / SCT -------------------

X509 = 'cryptoparser.common.x509:'


@register(X509 + 'CtExtensions')
def _ct_extensions():
    return _vector(X509 + 'CtExtensions', byte_list(0, 300))


@register(X509 + 'CtSignature')
def _ct_signature():
    return _vector(X509 + 'CtSignature', byte_list(0, 600))


def _ct_log_ids():
    logs = lib.resolve(CDH + 'common.stores:CertificateTransparencyLog')
    known = [bytes(member.value.log_id.value).hex() for member in list(logs)[:40]]
    return st.one_of(st.sampled_from(known), st.binary(min_size=32, max_size=32).map(bytes.hex)).map(lambda h: {'b': h})


@register(X509 + 'SignedCertificateTimestamp')
def _sct():
    return obj(X509 + 'SignedCertificateTimestamp',
               version=enum_(X509 + 'CtVersion'), log=_ct_log_ids(),
               timestamp=st.one_of(datetime_ms(0, MAX_EPOCH_S * 1000, 'dateutil'),
                                   datetime_ms(0, MAX_SCT_MS, 'dateutil')),      # 64-bit milliseconds: up to year 9999
               extensions=obj(X509 + 'CtExtensions', st.just([])),
               signature_algorithm=enum_(ALG + 'TlsSignatureAndHashAlgorithm'),
               signature=byte_list(0, 600))


@register(X509 + 'SignedCertificateTimestampList')
def _sct_list():
    return _vector(X509 + 'SignedCertificateTimestampList', st.lists(S(X509 + 'SignedCertificateTimestamp'), max_size=4))


# ------------------------------------------------------------------ TLS extensions ---------------

def _unused(name):
    ref = EXT + name

    @register(ref)
    def _strategy():
        return obj(ref)
    return _strategy


for _name in ('TlsExtensionCertificateStatusRequestServer', 'TlsExtensionChannelId', 'TlsExtensionEncryptThenMAC',
              'TlsExtensionExtendedMasterSecret', 'TlsExtensionNextProtocolNegotiationClient',
              'TlsExtensionServerNameServer', 'TlsExtensionShortRecordHeader',
              'TlsExtensionSignedCertificateTimestampClient'):
    _unused(_name)

HOST_LABEL = st.text(alphabet='abcdefghijklmnopqrstuvwxyz0123456789', min_size=1, max_size=20)
HOST_LABEL_MIXED = st.one_of(
    HOST_LABEL, HOST_LABEL,
    st.tuples(HOST_LABEL, HOST_LABEL).map(lambda t: t[0] + '-' + t[1]),
    st.sampled_from(['bücher', 'münchen', 'a' * 63, 'test-1']))
HOST_NAME = st.lists(HOST_LABEL_MIXED, min_size=1, max_size=5).map('.'.join)


@register(EXT + 'TlsExtensionServerNameClient')
def _sni():
    return obj(EXT + 'TlsExtensionServerNameClient', HOST_NAME, name_type=OPT(enum_(EXT + 'TlsServerNameType')))


def _single(ref, *args, **kwargs):
    @register(ref)
    def _strategy():
        return obj(ref, *[a() if callable(a) else a for a in args], **{k: (v() if callable(v) else v) for k, v in kwargs.items()})
    return _strategy


def _items_of(ref):
    """the list strategy inside a registered vector strategy (for converter arguments)"""
    return S(ref).map(lambda spec: spec['a'][0])


_single(EXT + 'TlsExtensionECPointFormats', lambda: st.one_of(_items_of(EXT + 'TlsECPointFormatVector'), S(EXT + 'TlsECPointFormatVector')))
_single(EXT + 'TlsExtensionEllipticCurves', lambda: st.one_of(_items_of(EXT + 'TlsEllipticCurveVector'), S(EXT + 'TlsEllipticCurveVector')))
_single(EXT + 'TlsExtensionSupportedVersionsClient', lambda: _items_of(EXT + 'TlsSupportedVersionVector'))
_single(EXT + 'TlsExtensionSupportedVersionsServer', lambda: S(TLS + 'version:TlsProtocolVersion'))
_single(EXT + 'TlsExtensionSignatureAlgorithms', lambda: _items_of(EXT + 'TlsSignatureAndHashAlgorithmVector'))
_single(EXT + 'TlsExtensionSignatureAlgorithmsCert', lambda: _items_of(EXT + 'TlsSignatureAndHashAlgorithmVector'))
_single(EXT + 'TlsExtensionDelegatedCredentials', lambda: _items_of(EXT + 'TlsSignatureAndHashAlgorithmVector'))
_single(EXT + 'TlsExtensionKeyShareServer', lambda: S(EXT + 'TlsKeyShareEntry'))
_single(EXT + 'TlsExtensionKeyShareClientHelloRetry', lambda: enum_(ALG + 'TlsNamedCurve'))
_single(EXT + 'TlsExtensionKeyShareClient', lambda: _items_of(EXT + 'TlsKeyShareEntryVector'))
_single(EXT + 'TlsExtensionKeyShareReservedClient', lambda: _items_of(EXT + 'TlsKeyShareEntryVector'))
_single(EXT + 'TlsExtensionRenegotiationInfo', renegotiated_connection=lambda: OPT(S(EXT + 'TlsRenegotiatedConnection')))
_single(EXT + 'TlsExtensionSessionTicket', session_ticket=lambda: OPT(blob(0, 400, 'ba')))
_single(EXT + 'TlsExtensionApplicationLayerProtocolNegotiation', lambda: _items_of(EXT + 'TlsProtocolNameList'))
_single(EXT + 'TlsExtensionApplicationLayerProtocolSettings', lambda: _items_of(EXT + 'TlsProtocolNameList'))
_single(EXT + 'TlsExtensionNextProtocolNegotiationServer', lambda: _items_of(EXT + 'TlsNextProtocolNameList'))
_single(EXT + 'TlsExtensionTokenBinding', lambda: S(EXT + 'TlsTokenBindingProtocolVersion'), lambda: _items_of(EXT + 'TlsTokenBindingParamaterVector'))
_single(EXT + 'TlsExtensionPskKeyExchangeModes', lambda: _items_of(EXT + 'TlsPskKeyExchangeModeVector'))
_single(EXT + 'TlsExtensionRecordSizeLimit', lambda: uint(16))
_single(EXT + 'TlsExtensionSignedCertificateTimestampServer', lambda: _items_of(X509 + 'SignedCertificateTimestampList'))
_single(EXT + 'TlsExtensionCompressCertificate', lambda: _items_of(EXT + 'TlsCertificateCompressionAlgorithmVector'))
_single(EXT + 'TlsExtensionPadding', lambda: sizes_with_ceiling(0, 65535))
_single(EXT + 'TlsExtensionCertificateStatusRequestClient',
        responder_id_list=lambda: OPT(_items_of(EXT + 'TlsCertificateStatusRequestResponderIdList')),
        extensions=lambda: OPT(byte_list(0, 300)))


def _parsed_extension_types(side):
    variant = lib.resolve(EXT + ('TlsExtensionVariantClient' if side == 'client' else 'TlsExtensionVariantServer'))
    return {member.name for member in variant.get_parsed_extensions()}


def unparsed_extension(side):
    """TlsExtensionUnparsed with a type the given side has no parser for, or an unknown / GREASE code point."""
    parsed = _parsed_extension_types(side)
    known_unparsed = [m.name for m in lib.resolve(ALG + 'TlsExtensionType') if m.name not in parsed]
    type_strategy = st.one_of(enum_(ALG + 'TlsExtensionType', known_unparsed), invalid_two(ALG + 'TlsExtensionType'))
    return obj(EXT + 'TlsExtensionUnparsed', type_strategy, blob(0, 120, 'ba'))


def unparsed_extension_with_member():
    """TlsExtensionUnparsed built with a TlsExtensionType *member* (the constructor accepts it)"""
    return obj(EXT + 'TlsExtensionUnparsed', enum_(ALG + 'TlsExtensionType'), blob(0, 40, 'ba'))


@register(EXT + 'TlsExtensionUnparsed')
def _unparsed():
    return st.one_of(unparsed_extension('client'), unparsed_extension('server'))


def _extension_classes(side):
    variant = lib.resolve(EXT + ('TlsExtensionVariantClient' if side == 'client' else 'TlsExtensionVariantServer'))
    refs = []
    for classes in variant.get_parsed_extensions().values():
        for cls in classes:
            refs.append(lib.ref_of(cls))
    return refs


# The classes each side's extension list dispatches to, written down here (pinned tree) rather than read from the
# dispatch table alone: a generator that asks the code under test what to generate follows it into its mistakes.
_SIDE_CLASSES = {
    'client': (
        'TlsExtensionApplicationLayerProtocolNegotiation', 'TlsExtensionApplicationLayerProtocolSettings',
        'TlsExtensionChannelId', 'TlsExtensionCompressCertificate', 'TlsExtensionEncryptThenMAC',
        'TlsExtensionExtendedMasterSecret', 'TlsExtensionRenegotiationInfo', 'TlsExtensionNextProtocolNegotiationClient',
        'TlsExtensionPadding', 'TlsExtensionServerNameClient', 'TlsExtensionSessionTicket',
        'TlsExtensionCertificateStatusRequestClient', 'TlsExtensionEllipticCurves', 'TlsExtensionDelegatedCredentials',
        'TlsExtensionECPointFormats', 'TlsExtensionKeyShareClient', 'TlsExtensionKeyShareReservedClient',
        'TlsExtensionPskKeyExchangeModes', 'TlsExtensionRecordSizeLimit', 'TlsExtensionShortRecordHeader',
        'TlsExtensionSignatureAlgorithms', 'TlsExtensionSignatureAlgorithmsCert',
        'TlsExtensionSignedCertificateTimestampClient', 'TlsExtensionSupportedVersionsClient', 'TlsExtensionTokenBinding'),
    'server': (
        'TlsExtensionApplicationLayerProtocolNegotiation', 'TlsExtensionChannelId', 'TlsExtensionECPointFormats',
        'TlsExtensionEncryptThenMAC', 'TlsExtensionExtendedMasterSecret', 'TlsExtensionKeyShareClientHelloRetry',
        'TlsExtensionKeyShareServer', 'TlsExtensionNextProtocolNegotiationServer', 'TlsExtensionRecordSizeLimit',
        'TlsExtensionRenegotiationInfo', 'TlsExtensionServerNameServer', 'TlsExtensionSessionTicket',
        'TlsExtensionSignedCertificateTimestampServer', 'TlsExtensionCertificateStatusRequestServer',
        'TlsExtensionSupportedVersionsServer'),
}


def extension_item(side):
    refs = [EXT + name for name in _SIDE_CLASSES[side] if EXT + name in _REGISTRY]
    refs += [ref for ref in _extension_classes(side) if ref in _REGISTRY and ref not in refs]
    return st.one_of(st.sampled_from(refs).flatmap(S), st.sampled_from(refs).flatmap(S), unparsed_extension(side))


def extension_list(side, max_size=8):
    """extensions with distinct types (a hello carries each extension type at most once)"""
    return st.lists(extension_item(side), max_size=max_size, unique_by=_extension_identity)


def _extension_identity(spec):
    if spec['c'].endswith('TlsExtensionUnparsed'):
        return repr(spec['a'][0])
    return lib.resolve(spec['c']).get_extension_type().name


@register(EXT + 'TlsExtensionsClient')
def _extensions_client():
    return _vector(EXT + 'TlsExtensionsClient', extension_list('client'))


@register(EXT + 'TlsExtensionsServer')
def _extensions_server():
    return _vector(EXT + 'TlsExtensionsServer', extension_list('server'))


# ------------------------------------------------------------------ TLS messages -----------------

@register(SUB + 'TlsAlertMessage')
def _alert():
    return obj(SUB + 'TlsAlertMessage', enum_(SUB + 'TlsAlertLevel'), enum_(SUB + 'TlsAlertDescription'))


@register(SUB + 'TlsChangeCipherSpecMessage')
def _ccs():
    return obj(SUB + 'TlsChangeCipherSpecMessage')


@register(SUB + 'TlsApplicationDataMessage')
def _appdata():
    return obj(SUB + 'TlsApplicationDataMessage', blob(0, 300, 'ba'))


@register(SUB + 'TlsHandshakeClientHello')
def _client_hello():
    return obj(SUB + 'TlsHandshakeClientHello',
               cipher_suites=cipher_suite_items(),
               protocol_version=OPT(S(TLS + 'version:TlsProtocolVersion')),
               random=S(SUB + 'TlsHandshakeHelloRandom'),
               session_id=OPT(byte_list(0, 32)),
               compression_methods=OPT(_items_of(SUB + 'TlsCompressionMethodVector')),
               extensions=OPT(extension_list('client')),
               fallback_scsv=OPT(st.booleans()),
               empty_renegotiation_info_scsv=OPT(st.booleans()))


@register(SUB + 'TlsHandshakeServerHello')
def _server_hello():
    return obj(SUB + 'TlsHandshakeServerHello',
               protocol_version=OPT(S(TLS + 'version:TlsProtocolVersion')),
               random=S(SUB + 'TlsHandshakeHelloRandom'),
               session_id=byte_list(0, 32),
               compression_method=OPT(enum_(ALG + 'TlsCompressionMethod')),
               cipher_suite=enum_(ALG + 'TlsCipherSuite'),
               extensions=OPT(extension_list('server')))


@register(SUB + 'TlsHandshakeHelloRetryRequest')
def _hello_retry():
    return obj(SUB + 'TlsHandshakeHelloRetryRequest',
               cipher_suite=enum_(ALG + 'TlsCipherSuite'),
               protocol_version=OPT(S(TLS + 'version:TlsProtocolVersion')),
               random_bytes=OPT(S(SUB + 'TlsHandshakeHelloRandom')),
               session_id=byte_list(0, 32),
               compression_method=OPT(enum_(ALG + 'TlsCompressionMethod')),
               extensions=OPT(extension_list('server')))


@register(SUB + 'TlsCertificate')
def _certificate():
    return obj(SUB + 'TlsCertificate', blob(0, 2000))


@register(SUB + 'TlsCertificates')
def _certificates():
    return _vector(SUB + 'TlsCertificates', st.lists(S(SUB + 'TlsCertificate'), min_size=1, max_size=4))


_single(SUB + 'TlsHandshakeCertificate', lambda: S(SUB + 'TlsCertificates'))
_single(SUB + 'TlsHandshakeCertificateStatus', lambda: enum_(EXT + 'TlsCertificateStatusType'), lambda: blob(0, 600, 'ba'))
_single(SUB + 'TlsHandshakeServerHelloDone')
_single(SUB + 'TlsHandshakeServerKeyExchange', lambda: blob(0, 600))


@register(SUB + 'TlsClientCertificateTypeVector')
def _cert_types():
    return _vector(SUB + 'TlsClientCertificateTypeVector', item_list(enum_(SUB + 'TlsClientCertificateType'), 1, 255))


@register(SUB + 'TlsDistinguishedName')
def _dn():
    return _vector(SUB + 'TlsDistinguishedName', byte_list(1, 300))


@register(SUB + 'TlsDistinguishedNameVector')
def _dn_vector():
    return _vector(SUB + 'TlsDistinguishedNameVector', st.lists(S(SUB + 'TlsDistinguishedName'), max_size=4))


@register(SUB + 'TlsHandshakeCertificateRequest')
def _cert_request():
    return obj(SUB + 'TlsHandshakeCertificateRequest',
               certificate_types=_items_of(SUB + 'TlsClientCertificateTypeVector'),
               certificate_authorities=_items_of(SUB + 'TlsDistinguishedNameVector'),
               supported_signature_algorithms=OPT(st.one_of(st.none(), _items_of(EXT + 'TlsSignatureAndHashAlgorithmVector'))))


@register(SUB + 'SslErrorMessage')
def _ssl_error():
    return obj(SUB + 'SslErrorMessage', enum_(SUB + 'SslErrorType'))


@register(SUB + 'SslHandshakeClientHello')
def _ssl_client_hello():
    return obj(SUB + 'SslHandshakeClientHello', cipher_kinds=st.lists(enum_(ALG + 'SslCipherKind'), max_size=14),
               session_id=OPT(st.one_of(blob(0, 0), blob(16, 16))), challenge=OPT(blob(16, 32)))


@register(SUB + 'SslHandshakeServerHello')
def _ssl_server_hello():
    # record bodies beyond 2^14 bytes need the full 15-bit length of the 2-byte SSL 2.0 record header
    certificate_sizes = st.integers(0, 9).flatmap(
        lambda roll: st.sampled_from([16370, 16384, 16400, 32000]) if roll == 9 else sizes(0, 600))
    return obj(SUB + 'SslHandshakeServerHello', certificate=blob(0, 32000, 'b', certificate_sizes),
               cipher_kinds=st.lists(enum_(ALG + 'SslCipherKind'), max_size=14),
               connection_id=OPT(blob(0, 32)), session_id_hit=OPT(st.booleans()))


REC = TLS + 'record:'


@register(REC + 'TlsRecord')
def _tls_record():
    # around the plaintext limit 2^14 and the ciphertext allowances of TLS 1.3 (+256) and TLS 1.2 (+2048)
    limits = st.sampled_from([2 ** 14 - 1, 2 ** 14, 2 ** 14 + 1, 2 ** 14 + 24, 2 ** 14 + 256, 2 ** 14 + 257, 2 ** 14 + 2048,
                              2 ** 14 + 2049])
    return obj(REC + 'TlsRecord', fragment=blob(0, 65535, 'ba', st.integers(0, 5).flatmap(
        lambda roll: limits if roll == 5 else sizes_with_ceiling(0, 65535))),
               protocol_version=OPT(S(TLS + 'version:TlsProtocolVersion')),
               content_type=OPT(enum_(SUB + 'TlsContentType')))


@register(REC + 'SslRecord')
def _ssl_record():
    return obj(REC + 'SslRecord', st.one_of(S(SUB + 'SslErrorMessage'), S(SUB + 'SslHandshakeClientHello'),
                                            S(SUB + 'SslHandshakeServerHello')))


# ------------------------------------------------------------------ opportunistic TLS ------------

MYSQL = TLS + 'mysql:'
RDP = TLS + 'rdp:'
OVPN = TLS + 'openvpn:'


def flag_subset(ref, predicate=None):
    members = [m for m in lib.resolve(ref) if int(m) and (predicate is None or predicate(m))]
    names = [m.name for m in members]
    return st.one_of(
        st.just([]), st.just(names), st.sampled_from(names).map(lambda n: [n]) if names else st.just([]),
        st.lists(st.sampled_from(names), unique=True) if names else st.just([])
    ).map(lambda chosen: {'set': [{'e': ref, 'n': n} for n in chosen]})


@register(MYSQL + 'MySQLRecord')
def _mysql_record():
    return obj(MYSQL + 'MySQLRecord', uint(8), blob(0, 400, 'ba'))


@st.composite
def _mysql_handshake(draw):
    ref = MYSQL + 'MySQLHandshakeV10'
    capabilities = draw(flag_subset(MYSQL + 'MySQLCapability'))
    plugin_auth = any(item['n'] == 'CLIENT_PLUGIN_AUTH' for item in capabilities['set'])
    keywords = {
        'protocol_version': draw(enum_(MYSQL + 'MySQLVersion')),
        'server_version': draw(st.text(alphabet='0123456789.-abcMariaDBubuntu~+', min_size=0, max_size=30)),
        'connection_id': draw(uint(32)),
        'auth_plugin_data': draw(blob(8, 8, 'ba')),
        'capabilities': capabilities,
    }
    if draw(st.booleans()):
        keywords['character_set'] = draw(enum_(MYSQL + 'MySQLCharacterSet'))
    if draw(st.booleans()):
        keywords['states'] = draw(flag_subset(MYSQL + 'MySQLStatusFlag'))
    if plugin_auth:
        keywords['auth_plugin_data_2'] = draw(blob(1, 40, 'ba'))
        keywords['auth_plugin_name'] = draw(st.sampled_from(['mysql_native_password', 'caching_sha2_password', 'x', '']))
    return {'c': ref, 'k': keywords}


register(MYSQL + 'MySQLHandshakeV10')(_mysql_handshake)


@st.composite
def _mysql_ssl_request(draw):
    ref = MYSQL + 'MySQLHandshakeSslRequest'
    protocol_41 = draw(st.booleans())
    if protocol_41:
        capabilities = draw(flag_subset(MYSQL + 'MySQLCapability'))
        if not any(item['n'] == 'CLIENT_PROTOCOL_41' for item in capabilities['set']):
            capabilities['set'].append({'e': MYSQL + 'MySQLCapability', 'n': 'CLIENT_PROTOCOL_41'})
        keywords = {'capabilities': capabilities}
        if draw(st.booleans()):
            keywords['max_packet_size'] = draw(uint(32))
        if draw(st.booleans()):
            keywords['character_set'] = draw(enum_(MYSQL + 'MySQLCharacterSet'))
    else:
        capabilities = draw(flag_subset(MYSQL + 'MySQLCapability', lambda m: int(m) < (1 << 16) and m.name != 'CLIENT_PROTOCOL_41'))
        keywords = {'capabilities': capabilities}
        if draw(st.booleans()):
            keywords['max_packet_size'] = draw(uint(24))
    return {'c': ref, 'k': keywords}


register(MYSQL + 'MySQLHandshakeSslRequest')(_mysql_ssl_request)


@register(RDP + 'TPKT')
def _tpkt():
    return obj(RDP + 'TPKT', st.just(3), blob(0, 65531, 'ba', sizes_with_ceiling(0, 65531)))


def _cotp(ref):
    @register(ref)
    def _strategy():
        return obj(ref, src_ref=uint(16), user_data=blob(0, 248, 'ba', sizes(0, 248)), dst_ref=OPT(uint(16)), class_option=OPT(st.just(0)))
    return _strategy


_cotp(RDP + 'COTPConnectionRequest')
_cotp(RDP + 'COTPConnectionConfirm')


@register(RDP + 'RDPNegotiationRequest')
def _rdp_request():
    return obj(RDP + 'RDPNegotiationRequest', flag_subset(RDP + 'RDPNegotiationRequestFlags'), flag_subset(RDP + 'RDPProtocol'))


@register(RDP + 'RDPNegotiationResponse')
def _rdp_response():
    return obj(RDP + 'RDPNegotiationResponse', flag_subset(RDP + 'RDPNegotiationResponseFlags'), flag_subset(RDP + 'RDPProtocol'))


@st.composite
def _openvpn_common(draw):
    acks = draw(st.one_of(st.just([]), st.lists(uint(32), min_size=1, max_size=6),
                          st.sampled_from([1, 2, 255]).map(lambda n: {'cycle': [1, 0xffffffff, 7], 'n': n})))
    empty = acks == []
    remote = None if empty else draw(uint(64))
    return draw(uint(64)), acks, remote


@st.composite
def _openvpn_control(draw):
    session, acks, remote = draw(_openvpn_common())
    return {'c': OVPN + 'OpenVpnPacketControlV1', 'a': [session, acks, remote, draw(uint(32)), draw(blob(0, 300, 'ba'))]}


@st.composite
def _openvpn_ack(draw):
    session, acks, remote = draw(_openvpn_common())
    return {'c': OVPN + 'OpenVpnPacketAckV1', 'a': [session, remote, acks]}


@st.composite
def _openvpn_reset_client(draw):
    return {'c': OVPN + 'OpenVpnPacketHardResetClientV2', 'a': [draw(uint(64)), draw(uint(32))]}


@st.composite
def _openvpn_reset_server(draw):
    session, acks, remote = draw(_openvpn_common())
    return {'c': OVPN + 'OpenVpnPacketHardResetServerV2', 'a': [session, remote, acks, draw(uint(32))]}


register(OVPN + 'OpenVpnPacketControlV1')(_openvpn_control)
register(OVPN + 'OpenVpnPacketAckV1')(_openvpn_ack)
register(OVPN + 'OpenVpnPacketHardResetClientV2')(_openvpn_reset_client)
register(OVPN + 'OpenVpnPacketHardResetServerV2')(_openvpn_reset_server)
_single(OVPN + 'OpenVpnPacketWrapperTcp', lambda: blob(0, 65535, 'ba', sizes_with_ceiling(0, 65535)))
_single(TLS + 'postgresql:SslRequest')
_single(TLS + 'postgresql:Sync')
_single(TLS + 'ldap:LDAPExtendedRequestStartTLS')
_single(TLS + 'ldap:LDAPExtendedResponseStartTLS', lambda: enum_(TLS + 'ldap:LDAPResultCode'))


# ------------------------------------------------------------------ DNS ---------------------------

def bigint(max_bits):
    @st.composite
    def _draw(draw):
        bits = draw(st.one_of(st.sampled_from([1, 7, 8, 9, 15, 16, 17, 63, 64, 65, 255, 256, 257, 511, 512, 1023, 1024, 2047, 2048]),
                              st.integers(1, max_bits)))
        bits = min(bits, max_bits)
        kind = draw(st.integers(0, 3))
        if kind == 0:
            return 1 << (bits - 1)
        if kind == 1:
            return (1 << bits) - 1
        return (1 << (bits - 1)) | draw(st.integers(0, (1 << (bits - 1)) - 1 if bits > 1 else 0))
    return _draw()


KEY = CDH + 'common.key:'


def public_key(params_spec):
    return {'call': KEY + 'PublicKey.from_params', 'a': [params_spec]}


@st.composite
def rsa_key(draw, byte_aligned_modulus=False):
    if byte_aligned_modulus:
        size = draw(st.sampled_from([64, 65, 128, 256, 257, 512]))
        modulus = (1 << (8 * size - 1)) | draw(st.integers(0, (1 << (8 * size - 1)) - 1))
    else:
        modulus = draw(bigint(4096))
    exponent = draw(st.one_of(st.sampled_from([1, 3, 17, 65537, 255, 256, 65535, 65536, (1 << 32) + 1]), bigint(64)))
    return public_key({'c': KEY + 'PublicKeyParamsRsa', 'k': {'modulus': modulus, 'public_exponent': exponent}})


@st.composite
def dsa_key(draw, dnssec=False):
    if dnssec:
        t = draw(st.integers(0, 8))
        size = 64 + 8 * t
        prime = (1 << (8 * size - 1)) | draw(st.integers(0, (1 << (8 * size - 1)) - 1))
        generator = draw(st.integers(1, prime - 1))
        public = draw(st.integers(1, prime - 1))
        order = draw(st.integers(1, (1 << 160) - 1))
    else:
        prime, generator, public = draw(bigint(2048)), draw(bigint(2048)), draw(bigint(2048))
        order = draw(bigint(256))
    return public_key({'c': KEY + 'PublicKeyParamsDsa', 'k': {
        'prime': prime, 'generator': generator, 'order': order, 'public_key_value': public}})


def coordinate(size):
    """curve coordinate 1 .. 2^size-1, with leading zero bytes in a realistic share of cases (1 in 256 real keys)"""
    return st.one_of(st.integers(1, (1 << size) - 1), st.integers(1 << (size - 1), (1 << size) - 1),
                     st.integers(1 << (size - 16), (1 << (size - 8)) - 1), st.just((1 << size) - 1))


def ecdsa_key(group_names):
    @st.composite
    def _draw(draw):
        group = draw(st.sampled_from(group_names))
        size = lib.resolve(CDH + 'common.algorithm:NamedGroup')[group].value.size
        x = draw(coordinate(size))
        y = draw(coordinate(size))
        return public_key({'c': KEY + 'PublicKeyParamsEcdsa', 'k': {
            'named_group': {'e': CDH + 'common.algorithm:NamedGroup', 'n': group}, 'point_x': x, 'point_y': y}})
    return _draw()


def eddsa_key(curve, size):
    return blob(size, size).map(lambda data: public_key({'c': KEY + 'PublicKeyParamsEddsa', 'k': {
        'curve_type': {'e': CDH + 'common.algorithm:NamedGroup', 'n': curve}, 'key_data': data}}))


DNS_LABEL = st.one_of(HOST_LABEL, HOST_LABEL, st.sampled_from(['a' * 63, 'bücher', '_dmarc', '_mta-sts', 'a-b', '0']))


@register(DNS + 'DnsNameUncompressed')
def _dns_name():
    return obj(DNS + 'DnsNameUncompressed', st.lists(DNS_LABEL, max_size=6))


@register(DNS + 'DnsRrTypePrivate')
def _rr_private():
    return obj(DNS + 'DnsRrTypePrivate', st.one_of(st.sampled_from([0xff00, 0xff01, 0xfffd, 0xfffe]), st.integers(0xff00, 0xfffe)))


@st.composite
def _dnskey(draw):
    ALGO = CDH + 'dnsrec.algorithm:DnsSecAlgorithm'
    family = draw(st.sampled_from(['rsa', 'rsa', 'dsa', 'ecdsa256', 'ecdsa384', 'gost', 'ed25519', 'ed448']))
    if family == 'rsa':
        algorithm = draw(st.sampled_from(['RSAMD5', 'RSASHA1', 'RSASHA1-NSEC3-SHA1', 'RSASHA256', 'RSASHA512']))
        key = draw(rsa_key(byte_aligned_modulus=True))
    elif family == 'dsa':
        algorithm = draw(st.sampled_from(['DSA', 'DSA-NSEC3-SHA1']))
        key = draw(dsa_key(dnssec=True))
    elif family == 'ecdsa256':
        algorithm, key = 'ECDSAP256SHA256', draw(ecdsa_key(['SECP256K1']))
    elif family == 'ecdsa384':
        algorithm, key = 'ECDSAP384SHA384', draw(ecdsa_key(['SECP384R1']))
    elif family == 'gost':
        algorithm, key = 'ECCGOST', draw(ecdsa_key(['GC256B']))
    elif family == 'ed25519':
        algorithm, key = 'ED25519', draw(eddsa_key('CURVE25519', 32))
    else:
        algorithm, key = 'ED448', draw(eddsa_key('CURVE448', 56))
    flags = draw(flag_subset(DNS + 'DnsSecFlag'))
    return {'c': DNS + 'DnsRecordDnskey', 'k': {
        'flags': flags, 'algorithm': {'e': ALGO, 'n': algorithm}, 'key': key,
        'protocol': {'e': DNS + 'DnsSecProtocol', 'n': 'V3'}}}


register(DNS + 'DnsRecordDnskey')(_dnskey)


@register(DNS + 'DnsRecordDs')
def _ds():
    return obj(DNS + 'DnsRecordDs', key_tag=uint(16), algorithm=enum_(CDH + 'dnsrec.algorithm:DnsSecAlgorithm'),
               digest_type=enum_(CDH + 'dnsrec.algorithm:DnsSecDigestType'), digest=blob(0, 64, 'ba'))


@register(DNS + 'DnsRecordRrsig')
def _rrsig():
    return obj(DNS + 'DnsRecordRrsig',
               type_covered=st.one_of(enum_(CDH + 'dnsrec.algorithm:DnsRrType'), S(DNS + 'DnsRrTypePrivate')),
               algorithm=enum_(CDH + 'dnsrec.algorithm:DnsSecAlgorithm'), labels=uint(8), original_ttl=uint(32),
               signature_expiration=datetime_ms(0, ((1 << 32) - 1) * 1000, 'dateutil', 1000),
               signature_inception=datetime_ms(0, ((1 << 32) - 1) * 1000, 'dateutil', 1000),
               key_tag=uint(16), signers_name=S(DNS + 'DnsNameUncompressed'), signature=blob(0, 300, 'ba'))


@register(DNS + 'DnsRecordMx')
def _mx():
    # the exchange as a name object, or as text the way zone files spell it (absolute notation, trailing dot)
    absolute = st.lists(st.text(alphabet='abcdefghijklmnopqrstuvwxyz0123456789', min_size=1, max_size=12), min_size=0,
                        max_size=4).map(lambda labels: '.'.join(labels) + '.')
    return obj(DNS + 'DnsRecordMx', uint(16), st.one_of(S(DNS + 'DnsNameUncompressed'), S(DNS + 'DnsNameUncompressed'), absolute))


@register(DNS + 'DnsRecordTxt')
def _txt():
    return obj(DNS + 'DnsRecordTxt', st.one_of(ASCII_PRINTABLE, st.integers(0, 255).map(lambda n: 'x' * n),
                                               st.sampled_from(['v=spf1 -all', 'v=DMARC1; p=none', ''])))


# ------------------------------------------------------------------ SSH ---------------------------

SSHSUB = SSH + 'subprotocol:'
SSHKEY = SSH + 'key:'
SSHVER = SSH + 'version:'
SSHALG = CDH + 'ssh.algorithm:'

SSH_NAME = st.text(alphabet='abcdefghijklmnopqrstuvwxyz0123456789-@._+', min_size=1, max_size=30)


def near_miss_names(known):
    """Unknown names that sit right next to a known one: a known name with a suffix / a prefix, cut by one
    character, in another letter case.  A matcher that compares by prefix, by substring or case-insensitively takes
    them for the known name."""
    known = sorted(known)
    variants = st.sampled_from(known).flatmap(lambda name: st.sampled_from([
        name + '@example.com', name + '-v2', name + 'x', name + '_', name[:-1], name[1:], 'x' + name, name.upper(),
        name.capitalize(), name + ' ', name + ',' ]))
    return variants.filter(lambda candidate: candidate and candidate not in known)


def ssh_algorithm_items(enum_ref):
    known = {m.value.code for m in lib.resolve(enum_ref)}
    unknown = st.one_of(SSH_NAME, st.sampled_from(['unknown-alg@example.com', 'x', 'none2', 'a' * 64]),
                        near_miss_names(known).filter(lambda n: ',' not in n and ' ' not in n)).filter(lambda n: n not in known)
    return st.lists(st.one_of(enum_(enum_ref), enum_(enum_ref), enum_(enum_ref), unknown), max_size=8)


def _ssh_vector(name, enum_name):
    ref = SSHSUB + name

    @register(ref)
    def _strategy():
        return _vector(ref, ssh_algorithm_items(SSHALG + enum_name))
    return _strategy


_ssh_vector('SshKexAlgorithmVector', 'SshKexAlgorithm')
_ssh_vector('SshHostKeyAlgorithmVector', 'SshHostKeyAlgorithm')
_ssh_vector('SshEncryptionAlgorithmVector', 'SshEncryptionAlgorithm')
_ssh_vector('SshMacAlgorithmVector', 'SshMacAlgorithm')
_ssh_vector('SshCompressionAlgorithmVector', 'SshCompressionAlgorithm')

SUBTAG = st.text(alphabet='abcdefghijklmnopqrstuvwxyzABCDEFGHIJKLMNOPQRSTUVWXYZ', min_size=1, max_size=8)
SUBTAG_ALNUM = st.text(alphabet='abcdefghijklmnopqrstuvwxyz0123456789', min_size=1, max_size=8)


@register('cryptoparser.common.classes:LanguageTag')
def _language_tag():
    return obj('cryptoparser.common.classes:LanguageTag', SUBTAG, st.lists(SUBTAG_ALNUM, max_size=3))


@register(SSHSUB + 'SshLanguageVector')
def _language_vector():
    return _vector(SSHSUB + 'SshLanguageVector', st.lists(S('cryptoparser.common.classes:LanguageTag'), max_size=3))


@register(SSHSUB + 'SshKeyExchangeInit')
def _kexinit():
    def items(name):
        return ssh_algorithm_items(SSHALG + name)
    return obj(SSHSUB + 'SshKeyExchangeInit',
               kex_algorithms=items('SshKexAlgorithm'), host_key_algorithms=items('SshHostKeyAlgorithm'),
               encryption_algorithms_client_to_server=items('SshEncryptionAlgorithm'),
               encryption_algorithms_server_to_client=items('SshEncryptionAlgorithm'),
               mac_algorithms_client_to_server=items('SshMacAlgorithm'),
               mac_algorithms_server_to_client=items('SshMacAlgorithm'),
               compression_algorithms_client_to_server=items('SshCompressionAlgorithm'),
               compression_algorithms_server_to_client=items('SshCompressionAlgorithm'),
               languages_client_to_server=OPT(_items_of(SSHSUB + 'SshLanguageVector')),
               languages_server_to_client=OPT(_items_of(SSHSUB + 'SshLanguageVector')),
               first_kex_packet_follows=OPT(st.sampled_from([0, 1, True, False])),
               cookie=blob(16, 16, 'ba'),
               reserved=OPT(uint(32)))


@register(SSHSUB + 'SshDisconnectMessage')
def _disconnect():
    return obj(SSHSUB + 'SshDisconnectMessage', enum_(SSHSUB + 'SshReasonCode'),
               st.one_of(ASCII_PRINTABLE, st.sampled_from(['', 'tést', 'Too many authentication failures', '€'])),
               language=OPT(st.sampled_from(['', 'en', 'US', 'en-US'])))


_single(SSHSUB + 'SshUnimplementedMessage', lambda: uint(32))
_single(SSHSUB + 'SshNewKeys')
_single(SSHSUB + 'SshDHKeyExchangeInit', lambda: blob(0, 300, 'ba'))
_single(SSHSUB + 'SshDHGroupExchangeInit', lambda: blob(0, 300, 'ba'))
_single(SSHSUB + 'SshDHGroupExchangeRequest', lambda: uint(32), lambda: uint(32), lambda: uint(32))
_single(SSHSUB + 'SshDHGroupExchangeGroup', lambda: blob(0, 300, 'ba'), lambda: blob(0, 8, 'ba'))


def _host_key_algorithms(cls_ref):
    cls = lib.resolve(cls_ref)
    return [a.name for a in cls.get_host_key_algorithms()]


def ssh_ecdsa_key():
    @st.composite
    def _draw(draw):
        identifiers = [m for m in lib.resolve(SSHALG + 'SshEllipticCurveIdentifier') if m.name in ('SECP256R1', 'SECP384R1', 'SECP521R1')]
        identifier = draw(st.sampled_from(identifiers))
        group = identifier.value.named_group
        size = group.value.size
        x = draw(coordinate(size))
        y = draw(coordinate(size))
        algorithm = {'SECP256R1': 'ECDSA_SHA2_NISTP256', 'SECP384R1': 'ECDSA_SHA2_NISTP384', 'SECP521R1': 'ECDSA_SHA2_NISTP521'}[identifier.name]
        key = public_key({'c': KEY + 'PublicKeyParamsEcdsa', 'k': {
            'named_group': {'e': CDH + 'common.algorithm:NamedGroup', 'n': group.name}, 'point_x': x, 'point_y': y}})
        return algorithm, key
    return _draw()


@st.composite
def _ssh_host_key(draw, kind):
    if kind == 'rsa':
        names = _host_key_algorithms(SSHKEY + 'SshHostKeyRSA')
        return {'c': SSHKEY + 'SshHostKeyRSA', 'a': [{'e': SSHALG + 'SshHostKeyAlgorithm', 'n': draw(st.sampled_from(names))}, draw(rsa_key())]}
    if kind == 'dss':
        names = _host_key_algorithms(SSHKEY + 'SshHostKeyDSS')
        return {'c': SSHKEY + 'SshHostKeyDSS', 'a': [{'e': SSHALG + 'SshHostKeyAlgorithm', 'n': draw(st.sampled_from(names))}, draw(dsa_key())]}
    if kind == 'ecdsa':
        algorithm, key = draw(ssh_ecdsa_key())
        return {'c': SSHKEY + 'SshHostKeyECDSA', 'a': [{'e': SSHALG + 'SshHostKeyAlgorithm', 'n': algorithm}, key]}
    names = _host_key_algorithms(SSHKEY + 'SshHostKeyEDDSA')
    return {'c': SSHKEY + 'SshHostKeyEDDSA', 'a': [{'e': SSHALG + 'SshHostKeyAlgorithm', 'n': draw(st.sampled_from(names))},
                                                  draw(eddsa_key('CURVE25519', 32))]}


register(SSHKEY + 'SshHostKeyRSA')(lambda: _ssh_host_key('rsa'))
register(SSHKEY + 'SshHostKeyDSS')(lambda: _ssh_host_key('dss'))
register(SSHKEY + 'SshHostKeyECDSA')(lambda: _ssh_host_key('ecdsa'))
register(SSHKEY + 'SshHostKeyEDDSA')(lambda: _ssh_host_key('eddsa'))


def any_host_key():
    return st.one_of(S(SSHKEY + 'SshHostKeyRSA'), S(SSHKEY + 'SshHostKeyDSS'), S(SSHKEY + 'SshHostKeyECDSA'), S(SSHKEY + 'SshHostKeyEDDSA'))


_single(SSHSUB + 'SshDHKeyExchangeReply', any_host_key, lambda: blob(0, 300, 'ba'), lambda: blob(0, 300, 'ba'))
_single(SSHSUB + 'SshDHGroupExchangeReply', any_host_key, lambda: blob(0, 300, 'ba'), lambda: blob(0, 300, 'ba'))
_single(SSHKEY + 'SshString', lambda: ASCII_PRINTABLE)
_single(SSHKEY + 'SshCertSignature', lambda: enum_(SSHALG + 'SshHostKeyAlgorithm'), lambda: blob(0, 300, 'ba'))


@register(SSHKEY + 'SshCertValidPrincipals')
def _principals():
    return _vector(SSHKEY + 'SshCertValidPrincipals', st.lists(S(SSHKEY + 'SshString'), max_size=4))


for _name in ('SshCertExtensionNoPrecenseRequired', 'SshCertExtensionPermitX11Forwarding',
              'SshCertExtensionPermitAgentForwarding', 'SshCertExtensionPermitPortForwarding',
              'SshCertExtensionPermitPTY', 'SshCertExtensionPermitUserRC'):
    _single(SSHKEY + _name)

_single(SSHKEY + 'SshCertExtensionForceCommand', lambda: ASCII_PRINTABLE)

NETWORK = st.one_of(
    st.tuples(st.integers(0, 255), st.integers(0, 255), st.integers(0, 32)).map(
        lambda t: {'ipnet': str(__import__('ipaddress').ip_network('%d.%d.0.0/%d' % (t[0], t[1], t[2]), strict=False))}),
    st.sampled_from(['10.0.0.0/8', '192.168.1.1/32', '0.0.0.0/0', '2001:db8::/32', '::1/128', 'fe80::/10']).map(lambda n: {'ipnet': n}))


@register(SSHKEY + 'NetworkVector')
def _network_vector():
    return _vector(SSHKEY + 'NetworkVector', st.lists(NETWORK, min_size=1, max_size=4))


_single(SSHKEY + 'SshCertExtensionSourceAddress', lambda: _items_of(SSHKEY + 'NetworkVector'))


def _known_extension_names():
    return {m.value.code for m in lib.resolve(SSHKEY + 'SshCertExtensionName')}


@register(SSHKEY + 'SshCertExtensionUnparsed')
def _cert_extension_unparsed():
    names = st.one_of(SSH_NAME, st.sampled_from(['verify-required', 'permit-everything@example.com']),
                      near_miss_names(_known_extension_names())).filter(lambda n: n not in _known_extension_names())
    return obj(SSHKEY + 'SshCertExtensionUnparsed', names, st.one_of(st.just({'ba': ''}), blob(0, 40, 'ba'),
                                                                     ASCII_PRINTABLE.map(lambda t: {'ba': t.encode().hex()}),
                                                                     # the data of a known option: string(text)
                                                                     ASCII_PRINTABLE.map(lambda t: {'ba': (len(t).to_bytes(4, 'big') + t.encode()).hex()})))


def _cert_option_items(critical):
    parsed = []
    for member in lib.resolve(SSHKEY + 'SshCertExtensionName'):
        if member.value.critical == critical:
            classes = lib.resolve(SSHKEY + 'SshCertConstraintVariant')._VARIANTS[member]  # pylint: disable=protected-access
            parsed.extend(lib.ref_of(cls) for cls in classes)
    return st.lists(st.one_of(st.sampled_from(parsed).flatmap(S), st.sampled_from(parsed).flatmap(S),
                              S(SSHKEY + 'SshCertExtensionUnparsed')), max_size=5, unique_by=lambda spec: spec['c'] + repr(spec.get('a', [''])[:1]))


@register(SSHKEY + 'SshCertCriticalOptionVector')
def _critical_options():
    return _vector(SSHKEY + 'SshCertCriticalOptionVector', _cert_option_items(True))


@register(SSHKEY + 'SshCertExtensionVector')
def _cert_extensions():
    return _vector(SSHKEY + 'SshCertExtensionVector', _cert_option_items(False))


@register(SSHKEY + 'SshCertConstraintVector')
def _cert_constraints():
    return _vector(SSHKEY + 'SshCertConstraintVector', st.one_of(_cert_option_items(True), _cert_option_items(False)))


def _certificate(ref, key_kind, version):
    @st.composite
    def _draw(draw):
        if key_kind == 'ecdsa':
            algorithm, key = draw(ssh_ecdsa_key())
            algorithm = algorithm + '_CERT_V01_OPENSSH_COM'
        else:
            algorithm = _host_key_algorithms(ref)[0]
            key = draw({'rsa': rsa_key(), 'dss': dsa_key(), 'eddsa': eddsa_key('CURVE25519', 32)}[key_kind])
        keywords = {
            'host_key_algorithm': {'e': SSHALG + 'SshHostKeyAlgorithm', 'n': algorithm},
            'public_key': key,
            'certificate_type': draw(enum_(SSHKEY + 'SshCertType')),
            'key_id': draw(ASCII_PRINTABLE),
            'valid_principals': draw(_items_of(SSHKEY + 'SshCertValidPrincipals')),
            'valid_after': draw(datetime_ms(0, MAX_EPOCH_S * 1000, 'dateutil', 1000)),
            'valid_before': draw(st.one_of(st.none(), datetime_ms(0, MAX_EPOCH_S * 1000, 'dateutil', 1000))),
            'nonce': draw(blob(0, 40, 'ba')),
            'reserved': draw(blob(0, 8, 'ba')),
            'signature_key': draw(any_host_key()),
            'signature': draw(S(SSHKEY + 'SshCertSignature')),
        }
        if version == 0:
            keywords['constraints'] = draw(_items_of(SSHKEY + 'SshCertConstraintVector'))
        else:
            keywords['serial'] = draw(uint(64))
            keywords['critical_options'] = draw(_items_of(SSHKEY + 'SshCertCriticalOptionVector'))
            keywords['extensions'] = draw(_items_of(SSHKEY + 'SshCertExtensionVector'))
        return {'c': ref, 'k': keywords}
    register(ref)(_draw)


_certificate(SSHKEY + 'SshHostCertificateV00RSA', 'rsa', 0)
_certificate(SSHKEY + 'SshHostCertificateV00DSS', 'dss', 0)
_certificate(SSHKEY + 'SshHostCertificateV01RSA', 'rsa', 1)
_certificate(SSHKEY + 'SshHostCertificateV01DSS', 'dss', 1)
_certificate(SSHKEY + 'SshHostCertificateV01ECDSA', 'ecdsa', 1)
_certificate(SSHKEY + 'SshHostCertificateV01EDDSA', 'eddsa', 1)


@register(SSHVER + 'SshProtocolVersion')
def _ssh_protocol_version():
    return obj(SSHVER + 'SshProtocolVersion', st.sampled_from([1, 2]), minor=OPT(st.one_of(st.sampled_from([0, 5, 99]), st.integers(0, 99))))


VERSION_TEXT = st.text(alphabet='0123456789.p', min_size=1, max_size=8)


def _software(name, with_version=True):
    ref = SSHVER + name

    @register(ref)
    def _strategy():
        if with_version:
            return obj(ref, version=OPT(st.one_of(st.none(), VERSION_TEXT)))
        return obj(ref)
    return _strategy


_software('SshSoftwareVersionCryptlib', False)
_software('SshSoftwareVersionMonacaSSH', False)
_software('SshSoftwareVersionDropbear')
_software('SshSoftwareVersionIPSSH')
_software('SshSoftwareVersionOpenSSH')


def _known_vendor_prefix(text):
    return any(text.startswith(v) for v in ('cryptlib', 'dropbear', 'IPSSH', 'Monaca', 'OpenSSH'))


@register(SSHVER + 'SshSoftwareVersionUnparsed')
def _software_unparsed():
    # near misses of the vendor grammars (vendor name + separator and nothing else, a wrong separator, a vendor name
    # running on): no vendor class takes them, they stay unparsed
    near_misses = st.sampled_from(['OpenSSH_', 'dropbear_', 'IPSSH-', 'cryptlib_', 'Monaca_', 'OpenSSHx', 'OpenSSH-7',
                                   'OpenSSH__1'])
    return obj(SSHVER + 'SshSoftwareVersionUnparsed', st.one_of(
        st.text(alphabet='abcdefghijklmnopqrstuvwxyzABCDEFGHIJKLMNOPQRSTUVWXYZ0123456789._+', min_size=1, max_size=30)
        .filter(lambda t: not _known_vendor_prefix(t)), near_misses))


@register(SSHSUB + 'SshProtocolMessage')
def _banner():
    software = st.one_of(*[S(SSHVER + n) for n in (
        'SshSoftwareVersionCryptlib', 'SshSoftwareVersionMonacaSSH', 'SshSoftwareVersionDropbear',
        'SshSoftwareVersionIPSSH', 'SshSoftwareVersionOpenSSH', 'SshSoftwareVersionUnparsed')])
    comment = st.one_of(st.none(), st.text(alphabet='abcdefghijklmnopqrstuvwxyzABC0123456789-_.+', min_size=1, max_size=30),
                        st.sampled_from(['Ubuntu-4ubuntu0.5', 'Debian 10', 'two words here']))
    return obj(SSHSUB + 'SshProtocolMessage', S(SSHVER + 'SshProtocolVersion'), software, comment=OPT(comment))


SSHREC = SSH + 'record:'


def _ssh_record(name, members):
    ref = SSHREC + name

    @register(ref)
    def _strategy():
        return obj(ref, st.one_of(*[S(SSHSUB + m) for m in members]))
    return _strategy


_ssh_record('SshRecordInit', ['SshDisconnectMessage', 'SshUnimplementedMessage', 'SshKeyExchangeInit'])
_ssh_record('SshRecordKexDH', ['SshDisconnectMessage', 'SshKeyExchangeInit', 'SshUnimplementedMessage', 'SshDHKeyExchangeInit',
                               'SshDHKeyExchangeReply', 'SshNewKeys'])
_ssh_record('SshRecordKexDHGroup', ['SshDisconnectMessage', 'SshKeyExchangeInit', 'SshUnimplementedMessage',
                                    'SshDHGroupExchangeRequest', 'SshDHGroupExchangeGroup', 'SshDHGroupExchangeInit',
                                    'SshDHGroupExchangeReply', 'SshNewKeys'])
