# -*- coding: utf-8 -*-
"""Well-framed hostile inputs: a model of the independent TLS reference codec (vf/ref/tls.py) with ONE opaque leaf
replaced by a value no sane peer sends - and encoded by the reference, so every enclosing length is right and the
parser gets past the framing to the code that interprets the value (IDNA, UTF-8, table look-ups, nested vectors).

Byte-level mutants of valid messages almost never keep the enclosing lengths consistent; these do by construction."""
from vf.ref import tls as R

# hex strings (the models carry opaque fields as hex)
_LONG_LABEL = (b'a' * 64 + b'.example').hex()
HOSTILE_OPAQUES = [
    '',                                                    # empty
    '00', 'ff', '80',                                      # one odd octet
    'ff' * 64, '00' * 64, 'ff' * 255, '41' * 256,          # runs at the usual ceilings
    _LONG_LABEL, (b'a..example').hex(), (b'.').hex(), (b'xn--' + b'\x00' * 4).hex(), (b'xn--a').hex(),
    (b'\xe3\x81\x82.example').hex(), (b'example.com.').hex(), (b' example.com').hex(), (b'*.example.com').hex(),
    (b'h2\xff').hex(), (b'\xc0http/1.1').hex(),
    (b'9' * 5000).hex(), (b'[' * 3000).hex(),
]


def _leaves(node, path=()):
    """Paths of the opaque (hex-string) leaves of a model."""
    if isinstance(node, dict):
        for key, value in node.items():
            if isinstance(value, str) and key not in ('kind', 'ext', 'side', 'level', 'description', 'type', 'status_type',
                                                     'content_type', 'name_type', 'error', 'random'):
                try:
                    bytes.fromhex(value)
                except ValueError:
                    continue
                yield path + (key,)
            elif isinstance(value, (dict, list)):
                for found in _leaves(value, path + (key,)):
                    yield found
    elif isinstance(node, list):
        for index, value in enumerate(node[:6]):
            if isinstance(value, str):
                try:
                    bytes.fromhex(value)
                except ValueError:
                    continue
                yield path + (index,)
            elif isinstance(value, (dict, list)):
                for found in _leaves(value, path + (index,)):
                    yield found


def _replaced(model, path, value):
    import copy  # pylint: disable=import-outside-toplevel
    clone = copy.deepcopy(model)
    node = clone
    for step in path[:-1]:
        node = node[step]
    node[path[-1]] = value
    return clone


HOST_NAMES = [_LONG_LABEL, (b'a..example').hex(), (b'.').hex(), (b'xn--' + b'\x00' * 4).hex(), (b'xn--a').hex(),
              (b'\xe3\x81\x82.example').hex(), (b'example.com.').hex(), (b' example.com').hex(), (b'*.example.com').hex(),
              (b'a' * 255).hex(), '', '00']
NAMES = [(b'h2\xff').hex(), (b'\xc0http/1.1').hex(), 'ff', '', (b'a' * 255).hex(), '00', (b'h2\x00').hex()]


def _values_for(path):
    leaf = [step for step in path if isinstance(step, str)][-1]
    if leaf == 'host_name':
        return HOST_NAMES
    if leaf in ('protocols',):
        return NAMES
    return HOSTILE_OPAQUES


def variants(model, rng, per_model=12):
    """[(description, wire bytes)] for one model: every opaque leaf (up to 8) gets two hostile values suited to it; a
    value that breaks an enclosing vector bound is dropped (it has no well-framed encoding)."""
    leaves = list(_leaves(model))
    rng.shuffle(leaves)
    out = []
    for path in leaves[:8]:
        values = list(_values_for(path))
        rng.shuffle(values)
        for value in values[:2]:
            if len(out) >= per_model:
                return out
            try:
                wire = R.encode(_replaced(model, path, value))
            except (R.RefError, ValueError, OverflowError, KeyError, TypeError, IndexError):
                continue
            out.append(('%s=%s..(%d)' % ('.'.join(str(step) for step in path), value[:16], len(value) // 2), wire))
    return out


def leaf_name(path):
    return [step for step in path if isinstance(step, str)][-1]


def all_variants(model, name):
    """Every hostile value suited to the leaf called `name`, at every place the model holds such a leaf."""
    out = []
    for path in _leaves(model):
        if leaf_name(path) != name:
            continue
        for value in _values_for(path):
            try:
                wire = R.encode(_replaced(model, path, value))
            except (R.RefError, ValueError, OverflowError, KeyError, TypeError, IndexError):
                continue
            out.append(('%s=%s..(%d)' % ('.'.join(str(step) for step in path), value[:16], len(value) // 2), wire))
    return out
