# -*- coding: utf-8 -*-
"""Grammar-based text generator for the HTTP header / DNS TXT families (C18; seed pool for other checks).

For every supported *type* (a short name such as 'HSTS', 'Set-Cookie', 'DMARC') this module offers

    models(type)            Hypothesis strategy of a semantic value model (plain JSON data)
    canonical(model)        bytes: the value spelled the way the library's compose() spells it (written by hand from
                            the grammar; nothing of the library is imported for it)
    spellings(model)        strategy of a *spelling* {dimension: parameters}: which insignificant dimension(s) of the
                            governing text are varied, and how (JSON data, independent of the model's shape)
    render(model, spelling) bytes: the same semantic value re-spelled
    variants(model)         strategy of (dimension_name, bytes) = spellings(model) rendered
    line(model, spelling)   bytes of the header line "Name: value" with the line-level dimensions of RFC 7230 3.2
    blocks()                strategy of whole header blocks (HttpHeaderFields)
    accepted_texts(cls_ref, count, seed)   deterministic canonical + variant texts the class accepts (seed pool)

SOUNDNESS: DIMENSIONS is the table (type, dimension) -> sentence of the governing text that declares the variation
insignificant.  A dimension that is not listed for a type is never applied to it.  Value leaves stay inside the RFC
productions (token, quoted-string content without DQUOTE / backslash, VCHAR without edge whitespace, base64,
delta-seconds, IMF-fixdate, URLs with lower-case scheme / host and unreserved path characters).
"""
import base64
import collections
import datetime
import ipaddress
import json

from hypothesis import strategies as st

# --------------------------------------------------------------------------------------------------------------------
# the table: which dimension is insignificant for which type, and where the governing text says so

_RFC7230_OWS = ('RFC 7230 7 (#rule): "1#element => *( "," OWS ) element *( OWS "," [ OWS element ] )", OWS = *( SP / '
                'HTAB )')
_RFC7230_EMPTY = ('RFC 7230 7: "a recipient MUST parse and ignore a reasonable number of empty list elements"')
_RFC7230_QS = ('RFC 7230 3.2.6: quoted-string = DQUOTE *( qdtext / quoted-pair ) DQUOTE; qdtext includes "," and ";" - '
               'a separator inside a quoted-string does not end the list element')
_RFC6797_LWS = ('RFC 6797 6.1: the ABNF "is based on the Generic Grammar defined in Section 2 of [RFC2616] (which '
                'includes a notion of implied linear whitespace)"; RFC 2616 2.1: "LWS can be included between any two '
                'adjacent words (token or quoted-string), and between adjacent words and separators, without changing '
                'the interpretation of a field"; LWS = [CRLF] 1*( SP | HT )')
_RFC6265_WSP = ('RFC 6265 5.2: "Remove any leading or trailing WSP characters from the name string and the value '
                'string" (cookie-pair) and "... from the attribute-name string and the attribute-value string" (every '
                'cookie-av); WSP = SP / HTAB')
_CSP_WS = ('CSP3 2.2.1 (parse a serialized CSP): tokens are obtained by strictly splitting on ";", "strip leading and '
           'trailing ASCII whitespace from token", the directive value is "the result of splitting token on ASCII '
           'whitespace"; ASCII whitespace includes U+0009 TAB and U+0020 SPACE')
_DMARC_SEP = 'RFC 7489 6.4: dmarc-sep = *WSP %x3b *WSP'
_STS_SEP = 'RFC 8461 3.1: sts-field-delim = *WSP ";" *WSP'
_TLSRPT_SEP = 'RFC 8460 3: field-delim = *WSP ";" *WSP'

DIMENSIONS = collections.OrderedDict([
    ('HSTS', collections.OrderedDict([
        ('directive-name-case', 'RFC 6797 6.1 item 3: "Directive names are case-insensitive."'),
        ('ows-sp', _RFC6797_LWS),
        ('ows-htab', _RFC6797_LWS),
        ('lws-around-equals', _RFC6797_LWS + '; "=" is a separator of RFC 2616 2.2'),
        ('empty-elements', 'RFC 6797 6.1 ABNF: Strict-Transport-Security = "Strict-Transport-Security" ":" '
                           '[ directive ] *( ";" [ directive ] )'),
        ('order', 'RFC 6797 6.1 item 1: "The order of appearance of directives is not significant."'),
        ('quoted-token', 'RFC 6797 6.1: directive-value = token | quoted-string; 6.2: "The max-age directive value can '
                         'optionally be quoted: Strict-Transport-Security: max-age="31536000""'),
        ('unknown-directives', 'RFC 6797 6.1 item 5: "If an STS header field contains directive(s) not recognized by the '
                               'UA, the UA MUST ignore the unrecognized directive(s)"'),
        ('unknown-directive-quoted-separator', 'RFC 6797 6.1 item 5 with directive-value = token | quoted-string; RFC 2616 '
                                               '2.2: qdtext = <any TEXT except <">> (";" included)'),
    ])),
    ('Expect-CT', collections.OrderedDict([
        ('directive-name-case', 'RFC 9163 2.1 item 3: "Directive names are case insensitive."'),
        ('ows-sp', _RFC7230_OWS + ' (RFC 9163 2.1: Expect-CT = 1#expect-ct-directive)'),
        ('ows-htab', _RFC7230_OWS + ' (RFC 9163 2.1: Expect-CT = 1#expect-ct-directive)'),
        ('empty-elements', _RFC7230_EMPTY),
        ('order', 'RFC 9163 2.1 item 1: "The order of appearance of directives is not significant."'),
        ('quoted-token', 'RFC 9163 2.1: directive-value = token / quoted-string; 2.1.3: the max-age value is read "after '
                         'quoted-string unescaping, if necessary"'),
        ('unknown-directives', 'RFC 9163 2.1 item 5: "If a header field contains any directive(s) the UA does not '
                               'recognize, the UA MUST ignore those directives."'),
        ('unknown-directive-quoted-separator', 'RFC 9163 2.1 item 5; ' + _RFC7230_QS),
    ])),
    ('HPKP', collections.OrderedDict([
        ('directive-name-case', 'RFC 7469 2.1 item 3: "Directive names are case insensitive."'),
        ('ows-sp', 'RFC 7469 2.1: Public-Key-Directives = directive *( OWS ";" OWS directive )'),
        ('ows-htab', 'RFC 7469 2.1: Public-Key-Directives = directive *( OWS ";" OWS directive ); OWS = *( SP / HTAB )'),
        ('order', 'RFC 7469 2.1 item 1: "The order of appearance of directives is not significant."'),
        ('quoted-token', 'RFC 7469 2.1: directive-value = token / quoted-string; 2.1.2: the max-age value is read "after '
                         'quoted-string unescaping, if necessary"'),
        ('unknown-directives', 'RFC 7469 2.1 item 5: "If a header field contains any directive(s) the UA does not '
                               'recognize, the UA MUST ignore those directives."'),
        ('unknown-directive-quoted-separator', 'RFC 7469 2.1 item 5; ' + _RFC7230_QS),
    ])),
    ('Cache-Control', collections.OrderedDict([
        ('directive-name-case', 'RFC 7234 5.2: "Cache directives are identified by a token, to be compared '
                                'case-insensitively"'),
        ('ows-sp', _RFC7230_OWS + ' (RFC 7234 5.2: Cache-Control = 1#cache-directive)'),
        ('ows-htab', _RFC7230_OWS + ' (RFC 7234 5.2: Cache-Control = 1#cache-directive)'),
        ('empty-elements', _RFC7230_EMPTY),
        ('order', 'RFC 7234 5.2.2: every response directive is defined on its own, none refers to its position in the '
                  'list (DESIGN table; no explicit sentence)'),
        ('quoted-token', 'RFC 7234 5.2: directives "have an optional argument, that can use both token and quoted-string '
                         'syntax. For the directives defined below that define arguments, recipients ought to accept both '
                         'forms, even if one is documented to be preferred."'),
        ('unknown-directives', 'RFC 7234 5.2.3: "A cache MUST ignore unrecognized cache directives."'),
        ('unknown-directive-quoted-separator', 'RFC 7234 5.2.3; ' + _RFC7230_QS),
    ])),
    ('Set-Cookie', collections.OrderedDict([
        ('attribute-name-case', 'RFC 6265 5.2.1-5.2.6: "If the attribute-name case-insensitively matches the string '
                                '"Expires" / "Max-Age" / "Domain" / "Path" / "Secure" / "HttpOnly""'),
        ('wsp-sp', _RFC6265_WSP),
        ('wsp-htab', _RFC6265_WSP),
        ('wsp-around-equals', _RFC6265_WSP),
        ('wsp-around-pair-equals', _RFC6265_WSP),
        ('empty-elements', 'RFC 6265 5.2: an empty cookie-av has the empty attribute-name; "attributes with unrecognized '
                           'attribute-names are ignored"'),
        ('order', 'RFC 6265 5.2 / 5.3: every cookie-av is processed on its own and looked up by attribute-name ("the last '
                  'attribute in the cookie-attribute-list with an attribute-name of ..."); distinct attributes commute'),
        ('unknown-attributes', 'RFC 6265 5.2: "(Notice that attributes with unrecognized attribute-names are ignored.)"'),
    ])),
    ('Content-Type', collections.OrderedDict([
        ('type-case', 'RFC 7231 3.1.1.1: "The type, subtype, and parameter name tokens are case-insensitive."'),
        ('subtype-case', 'RFC 7231 3.1.1.1: "The type, subtype, and parameter name tokens are case-insensitive."'),
        ('parameter-name-case', 'RFC 7231 3.1.1.1: "The type, subtype, and parameter name tokens are case-insensitive."'),
        ('ows-sp', 'RFC 7231 3.1.1.1: media-type = type "/" subtype *( OWS ";" OWS parameter )'),
        ('ows-htab', 'RFC 7231 3.1.1.1: media-type = type "/" subtype *( OWS ";" OWS parameter ); OWS = *( SP / HTAB )'),
        ('order', 'RFC 2045 5: "the remainder of the header field is simply a set of parameters ... The ordering of '
                  'parameters is not significant."'),
        ('quoted-token', 'RFC 7231 3.1.1.1: "A parameter value that matches the token production can be transmitted '
                         'either as a token or within a quoted-string. The quoted and unquoted values are equivalent."'),
    ])),
    ('CSP', collections.OrderedDict([
        ('directive-name-case', 'CSP3 2.2.1 step 4: "Set directive name to be the result of running ASCII lowercase on '
                                'directive name" (note: "Directives are case-insensitive")'),
        ('ws-sp', _CSP_WS),
        ('ws-htab', _CSP_WS),
        ('empty-elements', 'CSP3 2.2.1 step 2: "If token is an empty string, or if token is not an ASCII string, '
                           'continue."'),
    ])),
    ('NEL', collections.OrderedDict([
        ('json-whitespace', 'RFC 8259 2: "Insignificant whitespace is allowed before or after any of the six structural '
                            'characters."'),
        ('member-order', 'RFC 8259 4: "An object is an unordered collection of zero or more name/value pairs"'),
        ('unknown-members', 'W3C Network Error Logging 5.1 (process policy headers) reads only the members it names '
                            '(report_to, max_age, include_subdomains, success_fraction, failure_fraction, ...)'),
    ])),
    ('DMARC', collections.OrderedDict([
        ('wsp-sp', _DMARC_SEP),
        ('wsp-htab', _DMARC_SEP + '; WSP = SP / HTAB'),
        ('wsp-around-equals', 'RFC 7489 6.4: every tag is "<name>" *WSP "=" *WSP <value> (dmarc-version, dmarc-request, '
                              'dmarc-srequest, dmarc-auri, ...)'),
        ('trailing-separator', 'RFC 7489 6.4: dmarc-record = ... [dmarc-sep]'),
        ('order', 'RFC 7489 6.4: "components other than dmarc-version and dmarc-request may appear in any order"'),
        ('unknown-tags', 'RFC 7489 6.3: "Unknown tags MUST be ignored."'),
        ('keyword-value-case', 'RFC 7489 6.4 defines the values of p, sp, adkim, aspf, fo and rf by quoted ABNF literals '
                               '("none" / "quarantine" / "reject", "r" / "s", "0" / "1" / "d" / "s", "afrf"); RFC 5234 '
                               '2.3: "ABNF strings are case insensitive"'),
    ])),
    ('MTA-STS', collections.OrderedDict([
        ('wsp-sp', _STS_SEP),
        ('wsp-htab', _STS_SEP + '; WSP = SP / HTAB'),
        ('trailing-separator', 'RFC 8461 3.1: sts-text-record = sts-version 1*(sts-field-delim sts-field) '
                               '[sts-field-delim]'),
        ('order', 'RFC 8461 3.1: sts-field = sts-id / sts-extension in any sequence after sts-version (the relative '
                  'order of extensions is kept)'),
    ])),
    ('TLSRPT', collections.OrderedDict([
        ('wsp-sp', _TLSRPT_SEP),
        ('wsp-htab', _TLSRPT_SEP + '; WSP = SP / HTAB'),
        ('trailing-separator', 'RFC 8460 3: tlsrpt-record = tlsrpt-version 1*(field-delim tlsrpt-field) [field-delim]'),
        ('order', 'RFC 8460 3: tlsrpt-field = tlsrpt-rua / tlsrpt-extension in any sequence after tlsrpt-version (the '
                  'relative order of extensions is kept)'),
    ])),
    ('SPF', collections.OrderedDict([
        ('mechanism-name-case', 'RFC 7208 4.6.1: "As per the definition of the ABNF notation in [RFC5234], mechanism and '
                                'modifier names are case-insensitive."'),
        ('modifier-name-case', 'RFC 7208 4.6.1: "As per the definition of the ABNF notation in [RFC5234], mechanism and '
                               'modifier names are case-insensitive."'),
        ('sp-runs', 'RFC 7208 12: terms = *( 1*SP ( directive / modifier ) )'),
        ('trailing-sp', 'RFC 7208 12: record = version terms *SP'),
    ])),
])

# header-line level (any field type)
LINE_DIMENSIONS = collections.OrderedDict([
    ('field-name-case', 'RFC 7230 3.2: "Each header field consists of a case-insensitive field name followed by a colon"'),
    ('leading-ows-sp', 'RFC 7230 3.2: header-field = field-name ":" OWS field-value OWS'),
    ('leading-ows-htab', 'RFC 7230 3.2: header-field = field-name ":" OWS field-value OWS; OWS = *( SP / HTAB )'),
    ('trailing-ows-sp', 'RFC 7230 3.2.4: "The field value does not include any leading or trailing whitespace: OWS '
                        'occurring before the first non-whitespace octet of the field value or after the last '
                        'non-whitespace octet of the field value ought to be excluded by parsers"'),
    ('trailing-ows-htab', 'RFC 7230 3.2.4 (as trailing-ows-sp); OWS = *( SP / HTAB )'),
])

HDR = 'cryptoparser.httpx.header:'
TXT = 'cryptoparser.dnsrec.txt:'

TypeInfo = collections.namedtuple('TypeInfo', 'name header value_ref field_ref model_type')

TYPES = collections.OrderedDict((info.name, info) for info in [
    TypeInfo('HSTS', 'Strict-Transport-Security', HDR + 'HttpHeaderFieldValueSTS', HDR + 'HttpHeaderFieldSTS', 'HSTS'),
    TypeInfo('Expect-CT', 'Expect-CT', HDR + 'HttpHeaderFieldValueExpectCT', HDR + 'HttpHeaderFieldExpectCT', 'Expect-CT'),
    TypeInfo('Expect-Staple', 'Expect-Staple', HDR + 'HttpHeaderFieldValueExpectStaple',
             HDR + 'HttpHeaderFieldExpectStaple', 'Expect-Staple'),
    TypeInfo('HPKP', 'Public-Key-Pinning', HDR + 'HttpHeaderFieldValuePublicKeyPinning',
             HDR + 'HttpHeaderFieldPublicKeyPinning', 'HPKP'),
    TypeInfo('Cache-Control', 'Cache-Control', HDR + 'HttpHeaderFieldValueCacheControlResponse',
             HDR + 'HttpHeaderFieldCacheControlResponse', 'Cache-Control'),
    TypeInfo('Set-Cookie', 'Set-Cookie', HDR + 'HttpHeaderFieldValueSetCookie', HDR + 'HttpHeaderFieldSetCookie',
             'Set-Cookie'),
    TypeInfo('Content-Type', 'Content-Type', HDR + 'HttpHeaderFieldValueContentType', HDR + 'HttpHeaderFieldContentType',
             'Content-Type'),
    TypeInfo('X-XSS-Protection', 'X-XSS-Protection', HDR + 'HttpHeaderFieldValueXXSSProtection',
             HDR + 'HttpHeaderFieldXXSSProtection', 'X-XSS-Protection'),
    TypeInfo('CSP', 'Content-Security-Policy', HDR + 'HttpHeaderFieldValueContentSecurityPolicy',
             HDR + 'HttpHeaderFieldContentSecurityPolicy', 'CSP'),
    TypeInfo('CSP-Report-Only', 'Content-Security-Policy-Report-Only', HDR + 'HttpHeaderFieldValueContentSecurityPolicy',
             HDR + 'HttpHeaderFieldContentSecurityPolicyReportOnly', 'CSP'),
    TypeInfo('X-CSP', 'X-Content-Security-Policy', HDR + 'HttpHeaderFieldValueContentSecurityPolicy',
             HDR + 'HttpHeaderFieldXContentSecurityPolicy', 'CSP'),
    TypeInfo('NEL', 'NEL', HDR + 'HttpHeaderFieldValueNetworkErrorLogging', HDR + 'HttpHeaderFieldNetworkErrorLogging',
             'NEL'),
    TypeInfo('Pragma', 'Pragma', HDR + 'HttpHeaderFieldValuePragma', HDR + 'HttpHeaderFieldPragma', 'Pragma'),
    TypeInfo('Referrer-Policy', 'Referrer-Policy', HDR + 'HttpHeaderFieldValueReferrerPolicy',
             HDR + 'HttpHeaderFieldReferrerPolicy', 'Referrer-Policy'),
    TypeInfo('X-Frame-Options', 'X-Frame-Options', HDR + 'HttpHeaderFieldValueXFrameOptions',
             HDR + 'HttpHeaderFieldXFrameOptions', 'X-Frame-Options'),
    TypeInfo('X-Content-Type-Options', 'X-Content-Type-Options', HDR + 'HttpHeaderFieldValueXContentTypeOptions',
             HDR + 'HttpHeaderFieldXContentTypeOptions', 'X-Content-Type-Options'),
    TypeInfo('Date', 'Date', HDR + 'HttpHeaderFieldValueDate', HDR + 'HttpHeaderFieldDate', 'Date'),
    TypeInfo('Expires', 'Expires', HDR + 'HttpHeaderFieldValueExpires', HDR + 'HttpHeaderFieldExpires', 'Date'),
    TypeInfo('Last-Modified', 'Last-Modified', HDR + 'HttpHeaderFieldValueLastModified',
             HDR + 'HttpHeaderFieldLastModified', 'Date'),
    TypeInfo('Age', 'Age', HDR + 'HttpHeaderFieldValueAge', HDR + 'HttpHeaderFieldAge', 'Age'),
    TypeInfo('ETag', 'ETag', HDR + 'HttpHeaderFieldValueETag', HDR + 'HttpHeaderFieldETag', 'ETag'),
    TypeInfo('Server', 'Server', HDR + 'HttpHeaderFieldValueServer', HDR + 'HttpHeaderFieldServer', 'Server'),
    TypeInfo('DMARC', None, TXT + 'DnsRecordTxtValueDmarc', None, 'DMARC'),
    TypeInfo('MTA-STS', None, TXT + 'DnsRecordTxtValueMtaSts', None, 'MTA-STS'),
    TypeInfo('TLSRPT', None, TXT + 'DnsRecordTxtValueTlsRpt', None, 'TLSRPT'),
    TypeInfo('SPF', None, TXT + 'DnsRecordTxtValueSpf', None, 'SPF'),
])

HEADER_TYPES = [name for name, info in TYPES.items() if info.header]
KNOWN_HEADER_NAMES = frozenset(info.header.lower() for info in TYPES.values() if info.header)
FIELDS_REF = HDR + 'HttpHeaderFields'


def dimensions_of(type_name):
    """Value-level dimensions of a type (the model type decides: the three CSP headers share one grammar)."""
    return DIMENSIONS.get(TYPES[type_name].model_type, {})


def citation(type_name, dimension):
    if dimension in LINE_DIMENSIONS:
        return LINE_DIMENSIONS[dimension]
    return dimensions_of(type_name).get(dimension, '')


# --------------------------------------------------------------------------------------------------------------------
# leaves (RFC productions)

ALPHA_L = 'abcdefghijklmnopqrstuvwxyz'
ALPHA = ALPHA_L + ALPHA_L.upper()
DIGIT = '0123456789'
TCHAR = "!#$%&'*+-.^_`|~" + DIGIT + ALPHA                                   # RFC 7230 3.2.6
QDTEXT = ''.join(chr(c) for c in range(0x21, 0x7f) if chr(c) not in '"\\')   # without quoted-pair, without obs-text
VCHAR = ''.join(chr(c) for c in range(0x21, 0x7f))
_DAYS = ('Mon', 'Tue', 'Wed', 'Thu', 'Fri', 'Sat', 'Sun')
_MONTHS = ('Jan', 'Feb', 'Mar', 'Apr', 'May', 'Jun', 'Jul', 'Aug', 'Sep', 'Oct', 'Nov', 'Dec')
_EPOCH = datetime.datetime(1970, 1, 1)


def imf_fixdate(seconds):
    """RFC 7231 7.1.1.1 IMF-fixdate of a POSIX time (no locale involved)."""
    moment = _EPOCH + datetime.timedelta(seconds=seconds)
    return '%s, %02d %s %04d %02d:%02d:%02d GMT' % (
        _DAYS[moment.weekday()], moment.day, _MONTHS[moment.month - 1], moment.year, moment.hour, moment.minute,
        moment.second)


def b64(hex_text):
    return base64.b64encode(bytes.fromhex(hex_text)).decode('ascii')


def tokens(min_size=1, max_size=12):
    plain = ALPHA_L + DIGIT + '-_'
    return st.one_of(
        st.text(alphabet=plain, min_size=min_size, max_size=max_size),
        st.text(alphabet=ALPHA + DIGIT + '-_.', min_size=min_size, max_size=max_size),
        st.text(alphabet=TCHAR, min_size=min_size, max_size=max_size),
    )


def delta_seconds():
    return st.one_of(
        st.sampled_from([0, 1, 300, 86400, 15768000, 31536000, 63072000, 2 ** 31 - 1, 2 ** 31, 2 ** 32 - 1, 2 ** 32]),
        st.integers(0, 10 ** 10), st.integers(0, 100000))


def epoch_seconds():
    return st.one_of(st.sampled_from([0, 1, 86399, 86400, 951782400, 2 ** 31 - 1, 2 ** 31, 4102444799]),
                     st.integers(0, 4102444799))


_LABEL = st.builds(lambda head, body, tail: head + body + tail,
                   st.sampled_from(list(ALPHA_L + DIGIT)), st.text(alphabet=ALPHA_L + DIGIT + '-', max_size=8),
                   st.sampled_from(list(ALPHA_L + DIGIT)))
_TLD = st.sampled_from(['com', 'org', 'net', 'example', 'test', 'io', 'de', 'hu'])


def hostnames():
    def build(labels, tld):
        return '.'.join(labels + [tld])
    return st.one_of(st.sampled_from(['example.com', 'a.b.example.org', 'report.example.net']),
                     st.builds(build, st.lists(_LABEL, min_size=1, max_size=3), _TLD)).filter(
                         lambda host: not host.startswith(('nonce-', 'sha256-', 'sha384-', 'sha512-')))


_PATH_CHARS = ALPHA + DIGIT + '_~-'


def urls(extra=''):
    """http(s) URLs that urllib3 parses and re-emits identically: lower-case scheme and host, unreserved path
    characters without dot segments and percent escapes, optional port and query.  `extra` adds characters (the list
    separators "," / ";") to the path alphabet - only used for the quoted report-uri flavour."""
    segment = st.text(alphabet=_PATH_CHARS + extra, min_size=1, max_size=8)
    path = st.one_of(st.just(''), st.just('/'), st.lists(segment, min_size=1, max_size=3).map(
        lambda parts: '/' + '/'.join(parts)))
    query = st.one_of(st.just(''), st.just(''), st.lists(
        st.tuples(st.text(alphabet=ALPHA_L + DIGIT, min_size=1, max_size=5),
                  st.text(alphabet=ALPHA + DIGIT + '_-', min_size=0, max_size=6)), min_size=1, max_size=2).map(
                      lambda pairs: '?' + '&'.join('%s=%s' % pair for pair in pairs)))
    port = st.one_of(st.just(''), st.just(''), st.sampled_from([':80', ':443', ':8080', ':8443', ':1', ':65535']))

    def build(scheme, host, port_text, path_text, query_text):
        if query_text and not path_text:
            path_text = '/'
        return '%s://%s%s%s%s' % (scheme, host, port_text, path_text, query_text)
    return st.builds(build, st.sampled_from(['https', 'https', 'http']), hostnames(), port, path, query)


def mailto_uris():
    local = st.text(alphabet=ALPHA_L + DIGIT + '._-+', min_size=1, max_size=10).filter(
        lambda text: text[0] not in '.' and text[-1] not in '.' and '..' not in text)
    return st.builds(lambda user, host: 'mailto:%s@%s' % (user, host), local, hostnames())


def report_uris(separator):
    """report-uri values (always quoted): mostly plain URLs; a few carry the list separator inside the quoted-string,
    which RFC 7230 3.2.6 allows."""
    return st.one_of(urls(), urls(), urls(), urls(), urls(), urls(), urls(), urls(extra=separator).filter(
        lambda url: separator in url))


def field_content(max_size=24):
    """RFC 7230 3.2 field-content without obs-text: VCHARs with inner SP / HTAB, no whitespace at the edges."""
    inner = st.text(alphabet=VCHAR + '  \t', max_size=max_size)
    edge = st.sampled_from(list(VCHAR))
    return st.one_of(edge, st.builds(lambda a, b, c: a + b + c, edge, inner, edge),
                     st.text(alphabet=ALPHA + DIGIT + '-_./=', min_size=1, max_size=max_size))


# --------------------------------------------------------------------------------------------------------------------
# models

def _model(type_name, **fields):
    out = {'type': type_name}
    out.update(fields)
    return out


def _hsts():
    return st.builds(lambda a, i, p: _model('HSTS', max_age=a, include_subdomains=i, preload=p),
                     delta_seconds(), st.booleans(), st.booleans())


def _expect_ct():
    return st.builds(lambda a, e, r: _model('Expect-CT', max_age=a, enforce=e, report_uri=r),
                     delta_seconds(), st.booleans(), st.one_of(st.none(), report_uris(',')))


def _expect_staple():
    return st.builds(
        lambda a, i, p, r: _model('Expect-Staple', max_age=a, include_subdomains=i, preload=p, report_uri=r),
        delta_seconds(), st.booleans(), st.booleans(), st.one_of(st.none(), report_uris(';')))


def _hpkp():
    return st.builds(
        lambda pin, a, i, r: _model('HPKP', pin=pin.hex(), max_age=a, include_subdomains=i, report_uri=r),
        st.binary(min_size=32, max_size=32), delta_seconds(), st.booleans(), st.one_of(st.none(), report_uris(';')))


CACHE_FLAGS = ('must-revalidate', 'proxy-revalidate', 'no-cache', 'no-store', 'public', 'private', 'no-transform')


def _cache_control():
    def build(max_age, s_maxage, flags):
        return _model('Cache-Control', max_age=max_age, s_maxage=s_maxage,
                      flags=[flag for flag in CACHE_FLAGS if flag in flags])
    return st.builds(build, st.one_of(st.none(), delta_seconds()), st.one_of(st.none(), delta_seconds()),
                     st.lists(st.sampled_from(CACHE_FLAGS), unique=True, max_size=7)).filter(
                         lambda m: m['max_age'] is not None or m['s_maxage'] is not None or m['flags'])


COOKIE_OCTET = ''.join(chr(c) for c in range(0x21, 0x7f) if chr(c) not in '",;\\')        # RFC 6265 4.1.1
COOKIE_ATTRIBUTES = ('expires', 'max-age', 'domain', 'path', 'secure', 'httponly', 'samesite')


def _set_cookie():
    name = st.one_of(st.text(alphabet=ALPHA + DIGIT + '_-', min_size=1, max_size=10),
                     st.text(alphabet=TCHAR, min_size=1, max_size=10))
    value = st.one_of(st.text(alphabet=ALPHA + DIGIT + '_-', max_size=16), st.text(alphabet=COOKIE_OCTET, max_size=16))
    path = st.one_of(st.just('/'), st.lists(st.text(alphabet=_PATH_CHARS + '.', min_size=1, max_size=6), min_size=1,
                                            max_size=3).map(lambda parts: '/' + '/'.join(parts)))

    def build(n, v, expires, max_age, domain, path_value, secure, http_only, same_site):
        return _model('Set-Cookie', name=n, value=v, expires=expires, max_age=max_age, domain=domain, path=path_value,
                      secure=secure, http_only=http_only, same_site=same_site)
    return st.builds(build, name, value, st.one_of(st.none(), epoch_seconds()),
                     st.one_of(st.none(), st.sampled_from([0, 0, 1]), st.integers(0, 10 ** 9)), st.one_of(st.none(), hostnames()),
                     st.one_of(st.none(), path), st.booleans(), st.booleans(),
                     st.sampled_from([None, None, 'STRICT', 'Lax', 'None']))


MIME_REGISTRIES = ('application', 'audio', 'font', 'example', 'image', 'message', 'model', 'multipart', 'text', 'video')
_SUBTYPES = ['html', 'plain', 'json', 'xml', 'javascript', 'css', 'png', 'svg+xml', 'octet-stream', 'form-data', 'mixed',
             'x-www-form-urlencoded', 'vnd.api+json', 'bhttp', 'mp4', 'woff2']


def _subtypes():
    return st.one_of(st.sampled_from(_SUBTYPES), st.builds(
        lambda head, tail: head + tail, st.sampled_from(list(ALPHA_L + DIGIT)),
        st.text(alphabet=ALPHA_L + DIGIT + '.+-', max_size=10)))


def _content_type():
    charset = st.one_of(st.sampled_from(['utf-8', 'UTF-8', 'iso-8859-1', 'us-ascii', 'windows-1252']),
                        st.text(alphabet=ALPHA + DIGIT + '-_', min_size=1, max_size=10))
    boundary = st.text(alphabet=ALPHA + DIGIT + "_.-'+", min_size=1, max_size=30)

    def build(registry, subtype, charset_value, boundary_value):
        needs_boundary = registry in ('message', 'multipart')      # the constructor's rule
        return _model('Content-Type', registry=registry, subtype=subtype, charset=charset_value,
                      boundary=boundary_value if needs_boundary else None)
    return st.builds(build, st.sampled_from(MIME_REGISTRIES), _subtypes(), st.one_of(st.none(), charset), boundary)


def _xxss():
    return st.builds(lambda s, m, r: _model('X-XSS-Protection', state=s, mode=m, report=r),
                     st.sampled_from(['0', '1']), st.booleans(), st.one_of(st.none(), urls()))


CSP_SOURCE_LIST = (
    'child-src', 'connect-src', 'default-src', 'font-src', 'frame-src', 'img-src', 'manifest-src', 'media-src',
    'object-src', 'prefetch-src', 'script-src', 'script-src-attr', 'script-src-elem', 'style-src', 'style-src-attr',
    'style-src-elem', 'worker-src', 'base-uri', 'form-action')
CSP_KEYWORDS = ('none', 'report-sample', 'self', 'strict-dynamic', 'unsafe-allow-redirects', 'unsafe-eval',
                'unsafe-hashes', 'unsafe-inline', 'wasm-unsafe-eval')
CSP_HASH_SIZES = {'sha256': 32, 'sha384': 48, 'sha512': 64}
CSP_SANDBOX = ('allow-forms', 'allow-modals', 'allow-popups', 'allow-same-origin', 'allow-scripts',
               'allow-top-navigation', 'allow-downloads')
CSP_REFERRER = ('no-referrer', 'non-when-downgrade', 'origin', 'origin-when-crossorigin', 'origin-when-cross-origin',
                'unsafe-url')


def _csp_hosts():
    def build(scheme, wildcard, host, port, path):
        return scheme + wildcard + host + port + path
    return st.one_of(
        st.just('*'),
        st.builds(build, st.sampled_from(['', '', 'https://', 'http://', 'wss://']), st.sampled_from(['', '', '*.']),
                  hostnames(), st.sampled_from(['', '', ':443', ':8080']),
                  st.sampled_from(['', '', '/', '/js', '/static/app'])))


def _csp_sources(ancestors=False):
    keyword = st.sampled_from(('none', 'self') if ancestors else CSP_KEYWORDS).map(lambda v: {'k': 'keyword', 'v': v})
    scheme = st.sampled_from(['https', 'http', 'data', 'blob', 'wss', 'filesystem']).map(
        lambda v: {'k': 'scheme', 'v': v})
    host = _csp_hosts().map(lambda v: {'k': 'host', 'v': v})
    if ancestors:
        return st.one_of(keyword, scheme, host)
    nonce = st.binary(min_size=1, max_size=24).map(lambda v: {'k': 'nonce', 'v': v.hex()})
    digest = st.sampled_from(sorted(CSP_HASH_SIZES)).flatmap(lambda alg: st.binary(
        min_size=CSP_HASH_SIZES[alg], max_size=CSP_HASH_SIZES[alg]).map(lambda v: {'k': 'hash', 'alg': alg, 'v': v.hex()}))
    return st.one_of(keyword, keyword, scheme, host, host, nonce, digest)


def _csp_directive(name):
    if name in CSP_SOURCE_LIST:
        return st.lists(_csp_sources(), min_size=1, max_size=5).map(lambda v: {'name': name, 'kind': 'sources', 'v': v})
    if name == 'frame-ancestors':
        return st.lists(_csp_sources(True), min_size=1, max_size=4).map(
            lambda v: {'name': name, 'kind': 'sources', 'v': v})
    if name == 'sandbox':
        token = st.one_of(st.sampled_from(CSP_SANDBOX), st.text(alphabet=ALPHA_L + '-', min_size=1, max_size=12))
        return st.one_of(st.lists(token, min_size=1, max_size=4), st.lists(token, min_size=1, max_size=4),
                         st.lists(token, min_size=1, max_size=4), st.lists(token, min_size=1, max_size=4),
                         st.lists(token, min_size=0, max_size=1)).map(lambda v: {'name': name, 'kind': 'tokens', 'v': v})
    if name == 'plugin-types':
        mime = st.tuples(st.sampled_from(MIME_REGISTRIES), _subtypes()).map(list)
        return st.lists(mime, min_size=1, max_size=3).map(lambda v: {'name': name, 'kind': 'mimes', 'v': v})
    if name == 'require-trusted-types-for':
        return st.just({'name': name, 'kind': 'sinks', 'v': ['script']})
    if name == 'report-uri':
        ref = st.one_of(urls(), st.lists(st.text(alphabet=_PATH_CHARS, min_size=1, max_size=8), min_size=1,
                                         max_size=3).map(lambda parts: '/' + '/'.join(parts)))
        return st.lists(ref, min_size=1, max_size=3).map(lambda v: {'name': name, 'kind': 'uris', 'v': v})
    if name == 'report-to':
        return st.text(alphabet=ALPHA + DIGIT + '-_.', min_size=1, max_size=12).map(
            lambda v: {'name': name, 'kind': 'token', 'v': v})
    if name == 'webrtc':
        return st.sampled_from(['allow', 'block']).map(lambda v: {'name': name, 'kind': 'webrtc', 'v': v})
    if name == 'referrer':
        return st.sampled_from(CSP_REFERRER).map(lambda v: {'name': name, 'kind': 'referrer', 'v': v})
    return st.just({'name': name, 'kind': 'flag', 'v': None})


CSP_DIRECTIVES = CSP_SOURCE_LIST + (
    'frame-ancestors', 'sandbox', 'plugin-types', 'require-trusted-types-for', 'report-uri', 'report-to', 'webrtc',
    'referrer', 'block-all-mixed-content', 'upgrade-insecure-requests')


def _csp():
    names = st.lists(st.sampled_from(CSP_DIRECTIVES), min_size=1, max_size=5, unique=True)     # step 5: no duplicates
    return names.flatmap(lambda chosen: st.tuples(*[_csp_directive(name) for name in chosen])).map(
        lambda directives: _model('CSP', directives=list(directives)))


def _nel():
    group = st.one_of(st.sampled_from(['network-errors', 'default', 'nel', '=x', 'a=b', '==']),
                      st.text(alphabet=QDTEXT + ' ', min_size=1, max_size=12),
                      # JSON strings are Unicode; on the wire (an ASCII header) they travel as \uXXXX escapes
                      st.sampled_from(['r\u00e9seau-errors', '\u65e5\u672c\u8a9e', 'gr\u00fc\u00dfe', 'a\u2028b']))
    fraction = st.one_of(st.none(), st.sampled_from([0, 1, 5, 10, 100, 500, 999, 1000]), st.integers(0, 1000))
    return st.builds(
        lambda g, a, i, s, f: _model('NEL', report_to=g, max_age=a, include_subdomains=i, success_fraction=s,
                                     failure_fraction=f),
        group, delta_seconds(), st.sampled_from([None, True, False]), fraction, fraction)


def _enum_type(type_name, codes):
    return st.sampled_from(codes).map(lambda code: _model(type_name, value=code))


REFERRER_POLICIES = ('no-referrer', 'no-referrer-when-downgrade', 'origin', 'origin-when-cross-origin', 'same-origin',
                     'strict-origin', 'strict-origin-when-cross-origin', 'unsafe-url')


def _etag():
    etagc = ''.join(chr(c) for c in [0x21] + list(range(0x23, 0x7f)))
    return st.builds(lambda weak, tag: _model('ETag', value='%s"%s"' % (weak, tag)), st.sampled_from(['', '', 'W/']),
                     st.one_of(st.text(alphabet=ALPHA + DIGIT + '-', max_size=16), st.text(alphabet=etagc, max_size=16)))


def _server():
    product = st.builds(lambda name, version: name + version, st.sampled_from(['nginx', 'Apache', 'cloudflare', 'gws',
                                                                              'Microsoft-IIS', 'server']),
                        st.sampled_from(['', '', '/1.18.0', '/2.4.41', '/10.0']))
    comment = st.sampled_from(['', '', ' (Ubuntu)', ' (Unix) OpenSSL/1.1.1'])
    return st.one_of(st.builds(lambda p, c: _model('Server', value=p + c), product, comment),
                     tokens(1, 16).map(lambda v: _model('Server', value=v)))


DMARC_TAGS = ('v', 'p', 'adkim', 'aspf', 'fo', 'pct', 'rua', 'ruf', 'rf', 'ri', 'sp')


def _dmarc():
    uri = st.one_of(st.none(), mailto_uris(), urls())

    def build(policy, adkim, aspf, failure, pct, rua, ruf, interval, sub):
        return _model('DMARC', p=policy, adkim=adkim, aspf=aspf, fo=failure, pct=pct, rua=rua, ruf=ruf, ri=interval,
                      sp=sub)
    policies = ['none', 'quarantine', 'reject']
    return st.builds(build, st.sampled_from(policies), st.sampled_from(['r', 's']), st.sampled_from(['r', 's']),
                     st.sampled_from(['0', '1', 'd', 's']), st.one_of(st.sampled_from([0, 1, 50, 99, 100]),
                                                                      st.integers(0, 100)),
                     uri, uri, st.one_of(st.sampled_from([0, 3600, 86400, 2 ** 32 - 1]), st.integers(0, 2 ** 32 - 1)),
                     st.sampled_from([None] + policies))


def _extensions(reserved):
    name = st.builds(lambda head, tail: head + tail, st.sampled_from(list(ALPHA + DIGIT)),
                     st.text(alphabet=ALPHA + DIGIT + '_-.', max_size=10))
    ext_value_chars = ''.join(chr(c) for c in range(0x21, 0x7f) if chr(c) not in '=;')
    value = st.one_of(st.text(alphabet=ALPHA + DIGIT + '-_./:', min_size=1, max_size=12),
                      st.text(alphabet=ext_value_chars, min_size=1, max_size=12))
    return st.lists(st.tuples(name, value).map(list), max_size=3, unique_by=lambda pair: pair[0].lower()).filter(
        lambda pairs: all(pair[0].lower() not in reserved for pair in pairs))


def _mta_sts():
    return st.builds(lambda ident, ext: _model('MTA-STS', id=ident, extensions=ext),
                     st.one_of(st.just('20160831085700Z'), st.text(alphabet=ALPHA + DIGIT, min_size=1, max_size=32)),
                     _extensions(('v', 'id')))


def _tlsrpt():
    return st.builds(lambda rua, ext: _model('TLSRPT', rua=rua, extensions=ext), st.one_of(mailto_uris(), urls()),
                     _extensions(('v', 'rua')))


SPF_MECHANISMS = ('all', 'include', 'a', 'mx', 'ptr', 'ip4', 'ip6', 'exists')
SPF_MODIFIERS = ('redirect', 'exp')
_SPF_MACRO_DOMAINS = ['%{ir}.%{l1r+-}._spf.%{d}', '%{i}._ip.%{d2}', '_spf.%{d}', '%{h}.example.com',
                      # RFC 7208 7.1: the delimiter set of a macro is any of . - + , / _ =
                      '%{ir}.%{l1r+=}._spf.%{d}', '%{d2=}.spf.example.com', '%{l1r.-+,/_=}._x.%{d}', '%{o,}.%{d}',
                      '%%.%_.%-.example.com', '%{L}.%{D}.example.com']


def _spf_domains():
    return st.one_of(hostnames(), hostnames(), hostnames().map(lambda host: '_spf.' + host),
                     st.sampled_from(_SPF_MACRO_DOMAINS))


def _spf_term():
    qualifier = st.sampled_from([None, None, '+', '-', '~', '?'])
    v4 = st.tuples(st.integers(0, 2 ** 32 - 1), st.sampled_from([32, 32, 24, 16, 8, 28, 0, 31])).map(
        lambda pair: str(ipaddress.IPv4Network((pair[0] >> (32 - pair[1]) << (32 - pair[1]) if pair[1] else 0, pair[1]))))
    v6 = st.tuples(st.integers(0, 2 ** 128 - 1), st.sampled_from([128, 128, 64, 48, 32, 56, 120, 0])).map(
        lambda pair: str(ipaddress.IPv6Network((pair[0] >> (128 - pair[1]) << (128 - pair[1]) if pair[1] else 0,
                                                pair[1]))))
    cidr4 = st.one_of(st.none(), st.none(), st.integers(0, 32), st.sampled_from([0, 1, 31, 32]))
    unknown_name = st.builds(lambda head, tail: head + tail, st.sampled_from(list(ALPHA)),
                             st.text(alphabet=ALPHA + DIGIT + '-_.', max_size=8)).filter(
                                 lambda name: name.lower() not in SPF_MODIFIERS)
    macro_literal = ''.join(chr(c) for c in range(0x21, 0x7f) if chr(c) != '%')
    unknown_value = st.one_of(st.text(alphabet=ALPHA + DIGIT + '.-_', max_size=12), st.text(alphabet=macro_literal,
                                                                                            max_size=12),
                              st.sampled_from(['%{d}', 'x.%{i}._x.%{d}']))
    return st.one_of(
        qualifier.map(lambda q: {'kind': 'all', 'q': q}),
        st.builds(lambda q, d: {'kind': 'include', 'q': q, 'domain': d}, qualifier, _spf_domains()),
        st.builds(lambda q, d: {'kind': 'exists', 'q': q, 'domain': d}, qualifier, _spf_domains()),
        st.builds(lambda kind, q, d, c: {'kind': kind, 'q': q, 'domain': d, 'cidr4': c}, st.sampled_from(['a', 'mx']),
                  qualifier, st.one_of(st.none(), _spf_domains()), cidr4),
        st.builds(lambda q, d: {'kind': 'ptr', 'q': q, 'domain': d}, qualifier, st.one_of(st.none(), _spf_domains())),
        st.builds(lambda q, n: {'kind': 'ip4', 'q': q, 'net': n}, qualifier, v4),
        st.builds(lambda q, n: {'kind': 'ip6', 'q': q, 'net': n}, qualifier, v6),
        st.builds(lambda kind, d: {'kind': kind, 'domain': d}, st.sampled_from(SPF_MODIFIERS), _spf_domains()),
        st.builds(lambda n, v: {'kind': 'unknown', 'name': n, 'value': v}, unknown_name, unknown_value),
    )


def _spf():
    return st.one_of(st.lists(_spf_term(), min_size=1, max_size=6), st.lists(_spf_term(), min_size=0, max_size=2)).map(
        lambda terms: _model('SPF', terms=terms))


_MODELS = {
    'HSTS': _hsts, 'Expect-CT': _expect_ct, 'Expect-Staple': _expect_staple, 'HPKP': _hpkp,
    'Cache-Control': _cache_control, 'Set-Cookie': _set_cookie, 'Content-Type': _content_type,
    'X-XSS-Protection': _xxss, 'CSP': _csp, 'NEL': _nel,
    'Pragma': lambda: _enum_type('Pragma', ['no-cache']),
    'Referrer-Policy': lambda: _enum_type('Referrer-Policy', REFERRER_POLICIES),
    'X-Frame-Options': lambda: _enum_type('X-Frame-Options', ['DENY', 'SAMEORIGIN']),
    'X-Content-Type-Options': lambda: _enum_type('X-Content-Type-Options', ['nosniff']),
    'Date': lambda: epoch_seconds().map(lambda s: _model('Date', time=s)),
    'Age': lambda: delta_seconds().map(lambda s: _model('Age', seconds=s)),
    'ETag': _etag, 'Server': _server, 'DMARC': _dmarc, 'MTA-STS': _mta_sts, 'TLSRPT': _tlsrpt, 'SPF': _spf,
}


def models(type_name):
    """Strategy of models of a type.  Types that share a grammar (the three CSP headers, the three date headers) share
    the model type; the model carries the model type only."""
    return _MODELS[TYPES[type_name].model_type]()


# --------------------------------------------------------------------------------------------------------------------
# layouts: the canonical sequence of elements of a value; render() re-spells a layout

def _item(name, value=None, quoted=False, case_dim=None, quotable=False, ext=False):
    return {'name': name, 'value': value, 'quoted': quoted, 'case_dim': case_dim, 'quotable': quotable, 'ext': ext}


def _raw(text, **extra):
    item = {'raw': text, 'case_dim': None}
    item.update(extra)
    return item


def _spf_term_parts(term):
    """(prefix, name, rest, case dimension) of an SPF term; canonical text = prefix + name + rest."""
    kind = term['kind']
    if kind == 'unknown':
        return '', term['name'], '=' + term['value'], None
    if kind in SPF_MODIFIERS:
        return '', kind, '=' + term['domain'], 'modifier-name-case'
    prefix = term.get('q') or ''
    rest = ''
    if kind in ('include', 'exists'):
        rest = ':' + term['domain']
    elif kind in ('a', 'mx'):
        if term['domain'] is not None:
            rest += ':' + term['domain']
        if term['cidr4'] is not None:
            rest += '/%d' % term['cidr4']
    elif kind == 'ptr':
        if term['domain'] is not None:
            rest = ':' + term['domain']
    elif kind in ('ip4', 'ip6'):
        network = ipaddress.ip_network(term['net'])
        rest = ':' + str(network.network_address)
        if network.prefixlen != network.max_prefixlen:
            rest += '/%d' % network.prefixlen
    return prefix, kind, rest, 'mechanism-name-case'


def _csp_source_text(source):
    kind = source['k']
    if kind == 'keyword':
        return "'%s'" % source['v']
    if kind == 'scheme':
        return source['v'] + ':'
    if kind == 'nonce':
        return 'nonce-' + b64(source['v'])           # the library's spelling (no single quotes)
    if kind == 'hash':
        return '%s-%s' % (source['alg'], b64(source['v']))
    return source['v']


def _csp_tokens(directive):
    kind, value = directive['kind'], directive['v']
    if kind == 'sources':
        return [_csp_source_text(source) for source in value]
    if kind in ('tokens', 'uris'):
        return list(value)
    if kind == 'mimes':
        return ['%s/%s' % (registry, subtype) for registry, subtype in value]
    if kind == 'sinks':
        return ["'%s'" % sink for sink in value]
    if kind == 'token':
        return [value]
    if kind == 'webrtc':
        return ["'%s'" % value]
    if kind == 'referrer':
        return ['"%s"' % value]
    return []


def _nel_members(model):
    members = [['report_to', json.dumps(model['report_to'])], ['max_age', '%d' % model['max_age']]]
    if model['include_subdomains'] is not None:
        members.append(['include_subdomains', 'true' if model['include_subdomains'] else 'false'])
    for name in ('success_fraction', 'failure_fraction'):
        if model[name] is not None:
            members.append([name, repr(model[name] / 1000.0)])
    return members


def layout(model):  # pylint: disable=too-many-branches,too-many-statements
    """Canonical element sequence of a model: {'items', 'sep', 'fixed', 'known', ...}."""
    kind = model['type']
    case = 'directive-name-case'
    if kind == 'HSTS':
        items = [_item('max-age', '%d' % model['max_age'], case_dim=case, quotable=True)]
        if model['include_subdomains']:
            items.append(_item('includeSubDomains', case_dim=case))
        if model['preload']:
            items.append(_item('preload', case_dim=case))
        return {'items': items, 'sep': ';', 'fixed': 0, 'known': ('max-age', 'includesubdomains', 'preload'),
                'eq_dim': 'lws-around-equals', 'options': ('includeSubDomains', 'preload', 'max-age=0')}
    if kind == 'Expect-CT':
        items = [_item('max-age', '%d' % model['max_age'], case_dim=case, quotable=True)]
        if model['enforce']:
            items.append(_item('enforce', case_dim=case))
        if model['report_uri'] is not None:
            items.append(_item('report-uri', model['report_uri'], quoted=True, case_dim=case))
        return {'items': items, 'sep': ',', 'fixed': 0, 'known': ('max-age', 'enforce', 'report-uri'),
                'options': ('enforce', 'max-age=0')}
    if kind == 'Expect-Staple':
        items = [_item('max-age', '%d' % model['max_age'])]
        if model['include_subdomains']:
            items.append(_item('includeSubDomains'))
        if model['preload']:
            items.append(_item('preload'))
        if model['report_uri'] is not None:
            items.append(_item('report-uri', model['report_uri'], quoted=True))
        return {'items': items, 'sep': ';', 'fixed': 0, 'known': ()}
    if kind == 'HPKP':
        items = [_item('pin-sha256', b64(model['pin']), quoted=True, case_dim=case),
                 _item('max-age', '%d' % model['max_age'], case_dim=case, quotable=True)]
        if model['include_subdomains']:
            items.append(_item('includeSubDomains', case_dim=case))
        if model['report_uri'] is not None:
            items.append(_item('report-uri', model['report_uri'], quoted=True, case_dim=case))
        return {'items': items, 'sep': ';', 'fixed': 0,
                'known': ('pin-sha256', 'max-age', 'includesubdomains', 'report-uri', 'pin-sha512', 'pin-sha1'),
                'options': ('includeSubDomains', 'max-age=0')}
    if kind == 'Cache-Control':
        items = []
        if model['max_age'] is not None:
            items.append(_item('max-age', '%d' % model['max_age'], case_dim=case, quotable=True))
        if model['s_maxage'] is not None:
            items.append(_item('s-maxage', '%d' % model['s_maxage'], case_dim=case, quotable=True))
        items.extend(_item(flag, case_dim=case) for flag in model['flags'])
        return {'items': items, 'sep': ',', 'fixed': 0, 'known': ('max-age', 's-maxage') + CACHE_FLAGS,
                'options': ('no-store', 'private', 'max-age=0', 'public')}
    if kind == 'Set-Cookie':
        case = 'attribute-name-case'
        items = [dict(_item(model['name'], model['value']), eq_dim='wsp-around-pair-equals')]
        if model['expires'] is not None:
            items.append(_item('expires', imf_fixdate(model['expires']), case_dim=case))
        if model['max_age'] is not None:
            items.append(_item('max-age', '%d' % model['max_age'], case_dim=case))
        if model['domain'] is not None:
            items.append(_item('Domain', model['domain'], case_dim=case))
        if model['path'] is not None:
            items.append(_item('Path', model['path'], case_dim=case))
        if model['secure']:
            items.append(_item('Secure', case_dim=case))
        if model['http_only']:
            items.append(_item('HttpOnly', case_dim=case))
        if model['same_site'] is not None:
            items.append(_item('SameSite', model['same_site']))     # not an RFC 6265 attribute: its case is not varied
        return {'items': items, 'sep': ';', 'fixed': 1, 'known': COOKIE_ATTRIBUTES, 'eq_dim': 'wsp-around-equals',
                'first_gap': 1}
    if kind == 'Content-Type':
        items = [_raw('%s/%s' % (model['registry'], model['subtype']), mime=[model['registry'], model['subtype']])]
        if model['charset'] is not None:
            items.append(_item('charset', model['charset'], case_dim='parameter-name-case', quotable=True))
        if model['boundary'] is not None:
            items.append(_item('boundary', model['boundary'], case_dim='parameter-name-case', quotable=True))
        return {'items': items, 'sep': ';', 'fixed': 1, 'known': ('charset', 'boundary')}
    if kind == 'X-XSS-Protection':
        items = [_raw(model['state'])]
        if model['mode']:
            items.append(_item('mode', 'block'))
        if model['report'] is not None:
            items.append(_item('report', model['report']))
        return {'items': items, 'sep': ';', 'fixed': 1, 'known': ()}
    if kind == 'CSP':
        items = [{'tokens': [directive['name']] + _csp_tokens(directive), 'case_dim': case}
                 for directive in model['directives']]
        return {'items': items, 'sep': ';', 'fixed': len(items), 'known': ()}
    if kind == 'DMARC':
        def keyword(name, value):
            return dict(_item(name, value), value_case_dim='keyword-value-case')
        items = [_item('v', 'DMARC1'), keyword('p', model['p']), keyword('adkim', model['adkim']),
                 keyword('aspf', model['aspf']), keyword('fo', model['fo']), _item('pct', '%d' % model['pct'])]
        if model['rua'] is not None:
            items.append(_item('rua', model['rua']))
        if model['ruf'] is not None:
            items.append(_item('ruf', model['ruf']))
        items.extend([keyword('rf', 'afrf'), _item('ri', '%d' % model['ri'])])
        if model['sp'] is not None:
            items.append(keyword('sp', model['sp']))
        return {'items': items, 'sep': ';', 'fixed': 2, 'known': DMARC_TAGS, 'eq_dim': 'wsp-around-equals'}
    if kind in ('MTA-STS', 'TLSRPT'):
        if kind == 'MTA-STS':
            items = [_item('v', 'STSv1'), _item('id', model['id'])]
        else:
            items = [_item('v', 'TLSRPTv1'), _item('rua', model['rua'])]
        items.extend(_item(name, value, ext=True) for name, value in model['extensions'])
        return {'items': items, 'sep': ';', 'fixed': 1, 'known': (), 'stable_ext': True}
    raise KeyError(kind)


_SINGLE = {
    'Pragma': lambda m: m['value'], 'Referrer-Policy': lambda m: m['value'], 'X-Frame-Options': lambda m: m['value'],
    'X-Content-Type-Options': lambda m: m['value'], 'Date': lambda m: imf_fixdate(m['time']),
    'Age': lambda m: '%d' % m['seconds'], 'ETag': lambda m: m['value'], 'Server': lambda m: m['value'],
}


def recase(text, params):
    mode = params.get('mode')
    if mode == 'upper':
        return text.upper()
    if mode == 'lower':
        return text.lower()
    if mode == 'swap':
        return text.swapcase()
    bits = params.get('bits') or [1]
    out, index = [], 0
    for char in text:
        if char.isalpha():
            out.append(char.upper() if bits[index % len(bits)] else char.lower())
            index += 1
        else:
            out.append(char)
    return ''.join(out)


def _cycle(values, index, default):
    return values[index % len(values)] if values else default


def _ws(value):
    """A whitespace parameter is either a count of SP or a string over SP / HTAB."""
    return ' ' * value if isinstance(value, int) else value


def _reorder(items, keys, stable_ext):
    if not items:
        return items
    if stable_ext:
        ext_total = sum(1 for item in items if item.get('ext'))
        ranked, ext_rank, free = [], 0, 0
        for index, item in enumerate(items):
            if item.get('ext'):
                ranked.append((2 * ext_rank + 1, index, item))
                ext_rank += 1
            else:
                ranked.append((2 * (_cycle(keys, free, 0) % (ext_total + 1)), index, item))
                free += 1
    else:
        ranked = [(_cycle(keys, index, 0), index, item) for index, item in enumerate(items)]
    return [entry[2] for entry in sorted(ranked, key=lambda entry: entry[:2])]


_GAP_DIMS = ('ows-sp', 'ows-htab', 'wsp-sp', 'wsp-htab', 'ws-sp', 'ws-htab')
_UNKNOWN_DIMS = ('unknown-directives', 'unknown-directive-quoted-separator', 'unknown-attributes', 'unknown-tags')


def _render_list(lay, spelling):  # pylint: disable=too-many-branches,too-many-locals,too-many-statements
    sep = lay['sep']
    fixed = lay['fixed']
    # 'at' = place of the element in the canonical spelling: parameters that belong to an element (whitespace around
    # its "=") stay with it when other dimensions reorder the list or insert unknown elements
    items = [dict(item, at=index) for index, item in enumerate(lay['items'])]
    if 'order' in spelling:
        items = items[:fixed] + _reorder(items[fixed:], spelling['order'].get('keys') or [0], lay.get('stable_ext'))
    for dim in _UNKNOWN_DIMS:
        if dim in spelling:
            for pos, name, value, quoted in spelling[dim]['items']:
                index = fixed + pos % (len(items) - fixed + 1)
                items.insert(index, dict(_item(name, value, quoted=bool(quoted)), at=len(items)))
    flips = (spelling.get('quoted-token') or {}).get('flips')
    quotable_index = 0
    inner_gap = 0
    gap_params = None
    for dim in _GAP_DIMS:
        if dim in spelling:
            gap_params = spelling[dim]
    texts = []
    for item in items:
        case_params = spelling.get(item.get('case_dim') or '-')
        if 'tokens' in item:
            parts = list(item['tokens'])
            if case_params:
                parts[0] = recase(parts[0], case_params)
            text = parts[0]
            for part in parts[1:]:
                run = _ws(_cycle((gap_params or {}).get('runs') or [], inner_gap, 1)) or ' '
                inner_gap += 1
                text += run + part
            texts.append(text)
            continue
        if 'raw' in item:
            text = item['raw']
            if 'mime' in item:
                registry, subtype = item['mime']
                if 'type-case' in spelling:
                    registry = recase(registry, spelling['type-case'])
                if 'subtype-case' in spelling:
                    subtype = recase(subtype, spelling['subtype-case'])
                text = '%s/%s' % (registry, subtype)
            texts.append(text)
            continue
        name = recase(item['name'], case_params) if case_params else item['name']
        if item['value'] is None:
            texts.append(name)
            continue
        quoted = item['quoted']
        if item.get('quotable'):
            if flips and _cycle(flips, quotable_index, False):
                quoted = not quoted
            quotable_index += 1
        before, after = '', ''
        eq_dim = item.get('eq_dim') or lay.get('eq_dim') or '-'
        if eq_dim in spelling:
            pair = _cycle(spelling[eq_dim].get('gaps') or [], item['at'], ['', ''])
            before, after = _ws(pair[0]), _ws(pair[1])
        value = item['value']
        if item.get('value_case_dim') in spelling:
            value = recase(value, spelling[item['value_case_dim']])
        texts.append('%s%s=%s%s' % (name, before, after, '"%s"' % value if quoted else value))
    extras = {}
    if 'empty-elements' in spelling:
        low = lay.get('first_gap', 0)
        for gap, count, spaced in spelling['empty-elements']['at']:
            index = low + gap % (len(texts) + 1 - low)
            extras[index] = (extras.get(index, (0, False))[0] + count, bool(spaced))
    out = []
    for index, text in enumerate(texts):
        count, spaced = extras.get(index, (0, False))
        if index == 0:
            out.append((sep + (' ' if spaced else '')) * count)
        else:
            pair = _cycle((gap_params or {}).get('gaps') or [], index - 1, [0, 1])
            out.append((sep + (' ' if spaced else '')) * count)
            out.append(_ws(pair[0]) + sep + _ws(pair[1]))
        out.append(text)
    count, spaced = extras.get(len(texts), (0, False))
    out.append(((' ' if spaced else '') + sep) * count)
    if 'trailing-separator' in spelling:
        out.append(_ws(spelling['trailing-separator'].get('before', '')) + sep +
                   _ws(spelling['trailing-separator'].get('after', '')))
    return ''.join(out)


def _render_nel(model, spelling):
    members = _nel_members(model)
    if 'member-order' in spelling:
        members = _reorder([{'m': member} for member in members], spelling['member-order'].get('keys') or [0], False)
        members = [entry['m'] for entry in members]
    if 'unknown-members' in spelling:
        for pos, name, text in spelling['unknown-members']['items']:
            members.insert(pos % (len(members) + 1), [name, text])
    spaces = (spelling.get('json-whitespace') or {}).get('ws')
    counter = [0]

    def gap(default):
        if spaces is None:
            return default
        value = _cycle(spaces, counter[0], '')
        counter[0] += 1
        return value
    out = ['{', gap('')]
    for index, (name, text) in enumerate(members):
        if index:
            out.extend([gap(''), ',', gap(' ')])
        out.extend([json.dumps(name), gap(''), ':', gap(' '), text])
    out.extend([gap(''), '}'])
    return ''.join(out)


def _render_spf(model, spelling):
    out = ['v=spf1']
    runs = (spelling.get('sp-runs') or {}).get('runs')
    for index, term in enumerate(model['terms']):
        prefix, name, rest, case_dim = _spf_term_parts(term)
        if case_dim and case_dim in spelling:
            name = recase(name, spelling[case_dim])
        out.append(' ' * max(1, _cycle(runs or [], index, 1)))
        out.append(prefix + name + rest)
    if 'trailing-sp' in spelling:
        out.append(' ' * max(1, spelling['trailing-sp'].get('count', 1)))
    return ''.join(out)


def render(model, spelling):
    """The value of `model` spelled according to `spelling` ({} = canonical)."""
    kind = model['type']
    if kind in _SINGLE:
        return _SINGLE[kind](model).encode('ascii')
    if kind == 'NEL':
        return _render_nel(model, spelling).encode('ascii')
    if kind == 'SPF':
        return _render_spf(model, spelling).encode('ascii')
    return _render_list(layout(model), spelling).encode('ascii')


def canonical(model):
    """The spelling compose() is expected to produce for the object built from `model`."""
    return render(model, {})


def dimension_name(spelling):
    return '+'.join(sorted(spelling))


# --------------------------------------------------------------------------------------------------------------------
# spelling parameters (JSON data, independent of the model's shape: lists are cycled over the places they apply to)

def _case_params():
    return st.one_of(
        st.just({'mode': 'upper'}), st.just({'mode': 'upper'}), st.just({'mode': 'swap'}), st.just({'mode': 'lower'}),
        st.lists(st.integers(0, 1), min_size=1, max_size=12).map(lambda bits: {'mode': 'pattern', 'bits': bits}),
        st.lists(st.integers(0, 1), min_size=1, max_size=12).map(lambda bits: {'mode': 'pattern', 'bits': bits}),
    )


def _sp_gaps():
    pair = st.tuples(st.integers(0, 3), st.integers(0, 3)).map(list)
    return st.lists(pair, min_size=1, max_size=4).map(lambda gaps: {'gaps': gaps})


def _force_htab(strings):
    """At least one HTAB in a nested list of whitespace strings."""
    flat = json.dumps(strings)
    if '\\t' in flat:
        return strings
    first = strings[0]
    if isinstance(first, list):
        return [['\t' + first[0]] + list(first[1:])] + list(strings[1:])
    return ['\t' + first] + list(strings[1:])


_WS_TEXT = st.text(alphabet=' \t', max_size=3)
_WS_TEXT1 = st.text(alphabet=' \t', min_size=1, max_size=3)


def _htab_gaps():
    return st.lists(st.tuples(_WS_TEXT, _WS_TEXT).map(list), min_size=1, max_size=4).map(
        lambda gaps: {'gaps': _force_htab(gaps)})


def _equals_gaps():
    def fix(gaps):
        if not any(pair[0] or pair[1] for pair in gaps):
            gaps = [[' ', ' ']] + gaps[1:]
        return {'gaps': gaps}
    return st.lists(st.tuples(_WS_TEXT, _WS_TEXT).map(list), min_size=1, max_size=4).map(fix)


def _empty_elements():
    entry = st.tuples(st.integers(0, 12), st.integers(1, 3), st.booleans()).map(list)
    return st.lists(entry, min_size=1, max_size=3).map(lambda at: {'at': at})


def _order():
    return st.lists(st.integers(0, 9), min_size=1, max_size=12).map(lambda keys: {'keys': keys})


def _quoted_token():
    return st.lists(st.booleans(), min_size=1, max_size=3).map(
        lambda flips: {'flips': flips if any(flips) else [True] + flips[1:]})


def _unknown_names(known):
    near = [name + suffix for name in known for suffix in ('2', 'x', '-ext')] + [name[:-1] for name in known
                                                                                if len(name) > 2]
    pool = [st.text(alphabet=ALPHA_L + DIGIT + '-_', min_size=1, max_size=10), tokens(1, 10),
            st.sampled_from(['ext', 'x-foo', 'immutable', 'stale-while-revalidate', 'Priority', 'Partitioned', 'q', 'zz'])]
    if near:
        pool.append(st.sampled_from(near))
    lowered = set(name.lower() for name in known)
    return st.one_of(*pool).filter(lambda name: name.lower() not in lowered)


def _unknown_items(known, values, max_size=3):
    """[[position, name, value or None, quoted]] with names that differ from the known ones and from each other."""
    entry = st.tuples(st.integers(0, 12), _unknown_names(known), values).map(
        lambda drawn: [drawn[0], drawn[1], drawn[2][0], drawn[2][1]])
    return st.lists(entry, min_size=1, max_size=max_size, unique_by=lambda item: item[1].lower()).map(
        lambda items: {'items': items})


def _directive_values(sep):
    """(value, quoted) of an unknown directive: none, a token, or a quoted-string without the list separator."""
    quoted_chars = ''.join(char for char in QDTEXT if char not in ',;') + ' '
    return st.one_of(
        st.just([None, False]), tokens(1, 10).map(lambda value: [value, False]),
        st.text(alphabet=DIGIT, min_size=1, max_size=6).map(lambda value: [value, False]),
        st.text(alphabet=quoted_chars, max_size=12).map(lambda value: [value, True]),
        st.text(alphabet=quoted_chars + '\t', max_size=12).map(lambda value: [value, True]))


def _quoted_separator_values(sep, options):
    """Quoted-strings that contain the list separator, sometimes followed by the text of a known directive."""
    piece = st.one_of(tokens(1, 6), st.sampled_from(list(options) or ['x']), st.just(''))
    glue = st.sampled_from([sep, sep + ' ', ' ' + sep + ' ', sep + sep])
    return st.builds(lambda a, g, b, more: [a + g + b + (g + more if more else ''), True], piece, glue, piece, piece)


def _cookie_unknown_values():
    chars = ''.join(char for char in VCHAR if char != ';')
    return st.one_of(st.just([None, False]), tokens(1, 10).map(lambda value: [value, False]),
                     st.text(alphabet=chars, min_size=1, max_size=10).map(lambda value: [value, False]),
                     st.builds(lambda a, b: [a + ' ' + b, False], tokens(1, 5), tokens(1, 5)))


def _dmarc_unknown_values():
    valchar = ''.join(chr(c) for c in range(0x21, 0x7f) if chr(c) != ';')        # RFC 6376 3.2 VALCHAR
    return st.one_of(st.just(['', False]), st.text(alphabet=ALPHA + DIGIT, min_size=1, max_size=8).map(
        lambda value: [value, False]), st.text(alphabet=valchar, min_size=1, max_size=10).map(
            lambda value: [value, False]))


def _dmarc_unknown():
    name = st.builds(lambda head, tail: head + tail, st.sampled_from(list(ALPHA)),
                     st.text(alphabet=ALPHA + DIGIT + '_', max_size=6)).filter(
                         lambda text: text.lower() not in DMARC_TAGS)
    entry = st.tuples(st.integers(0, 12), name, _dmarc_unknown_values()).map(
        lambda drawn: [drawn[0], drawn[1], drawn[2][0], drawn[2][1]])
    return st.lists(entry, min_size=1, max_size=3, unique_by=lambda item: item[1].lower()).map(
        lambda items: {'items': items})


_JSON_VALUES = st.recursive(
    st.one_of(st.none(), st.booleans(), st.integers(-1000, 10 ** 6), st.text(alphabet=QDTEXT + ' ', max_size=8),
              st.sampled_from([0.5, 1.25, -3.0])),
    lambda children: st.one_of(st.lists(children, max_size=3),
                               st.dictionaries(st.text(alphabet=ALPHA_L + '_', min_size=1, max_size=5), children,
                                               max_size=3)), max_leaves=6)
NEL_MEMBERS = ('report_to', 'max_age', 'include_subdomains', 'success_fraction', 'failure_fraction')


def _nel_unknown():
    name = st.one_of(st.sampled_from(['request_headers', 'response_headers', 'Max_Age', 'report-to', 'x']),
                     st.text(alphabet=ALPHA + DIGIT + '_-', min_size=1, max_size=10)).filter(
                         lambda text: text not in NEL_MEMBERS)
    entry = st.tuples(st.integers(0, 8), name, _JSON_VALUES).map(
        lambda drawn: [drawn[0], drawn[1], json.dumps(drawn[2], sort_keys=True)])
    return st.lists(entry, min_size=1, max_size=3, unique_by=lambda item: item[1]).map(lambda items: {'items': items})


def _csp_ws(htab):
    if htab:
        runs = st.lists(_WS_TEXT1, min_size=1, max_size=4)
        gaps = st.lists(st.tuples(_WS_TEXT, _WS_TEXT).map(list), min_size=1, max_size=3)
        return st.tuples(runs, gaps).map(lambda drawn: {'runs': _force_htab(drawn[0]), 'gaps': drawn[1]})
    runs = st.lists(st.integers(1, 4), min_size=1, max_size=4)
    gaps = st.lists(st.tuples(st.integers(0, 3), st.integers(0, 3)).map(list), min_size=1, max_size=3)
    return st.tuples(runs, gaps).map(lambda drawn: {'runs': drawn[0], 'gaps': drawn[1]})


# per type: list separator, names the type knows (lower case), texts of its own directives (quoted-separator values)
_LIST_CONSTANTS = {
    'HSTS': (';', ('max-age', 'includesubdomains', 'preload'), ('includeSubDomains', 'preload', 'max-age=0')),
    'Expect-CT': (',', ('max-age', 'enforce', 'report-uri'), ('enforce', 'max-age=0')),
    'HPKP': (';', ('pin-sha256', 'max-age', 'includesubdomains', 'report-uri', 'pin-sha512', 'pin-sha1'),
             ('includeSubDomains', 'max-age=0')),
    'Cache-Control': (',', ('max-age', 's-maxage') + CACHE_FLAGS, ('no-store', 'private', 'max-age=0', 'public')),
    'Set-Cookie': (';', COOKIE_ATTRIBUTES, ()),
}


def _dimension_params(kind, dimension):  # pylint: disable=too-many-return-statements,too-many-branches
    if dimension.endswith('-case'):
        return _case_params()
    if dimension in ('ows-sp', 'wsp-sp'):
        return _sp_gaps()
    if dimension in ('ows-htab', 'wsp-htab'):
        return _htab_gaps()
    if dimension in ('ws-sp', 'ws-htab'):
        return _csp_ws(dimension == 'ws-htab')
    if dimension in ('lws-around-equals', 'wsp-around-equals', 'wsp-around-pair-equals'):
        return _equals_gaps()
    if dimension == 'empty-elements':
        return _empty_elements()
    if dimension in ('order', 'member-order'):
        return _order()
    if dimension == 'quoted-token':
        return _quoted_token()
    if dimension == 'trailing-separator':
        return st.builds(lambda before, after: {'before': before, 'after': after}, _WS_TEXT, _WS_TEXT)
    if dimension == 'unknown-members':
        return _nel_unknown()
    if dimension == 'json-whitespace':
        return st.lists(st.text(alphabet=' \t', max_size=2), min_size=1, max_size=6).map(
            lambda ws: {'ws': ws if any(ws) else [' '] + ws[1:]})
    if dimension == 'sp-runs':
        return st.lists(st.integers(1, 4), min_size=1, max_size=4).map(
            lambda runs: {'runs': runs if max(runs) > 1 else [2] + runs[1:]})
    if dimension == 'trailing-sp':
        return st.integers(1, 3).map(lambda count: {'count': count})
    if dimension == 'unknown-tags':
        return _dmarc_unknown()
    separator, known, options = _LIST_CONSTANTS[kind]
    if dimension == 'unknown-directives':
        return _unknown_items(known, _directive_values(separator))
    if dimension == 'unknown-directive-quoted-separator':
        return _unknown_items(known, _quoted_separator_values(separator, options), max_size=2)
    if dimension == 'unknown-attributes':
        return _unknown_items(known, _cookie_unknown_values())
    raise KeyError(dimension)


_EXCLUSIVE = [('ows-sp', 'ows-htab'), ('wsp-sp', 'wsp-htab'), ('ws-sp', 'ws-htab'),
              ('trailing-separator', 'empty-elements')]
# exercised on its own only: together with another dimension its failures would surface under interaction keys
_ALONE = ('unknown-directive-quoted-separator',)


def _compatible(chosen):
    return not any(first in chosen and second in chosen for first, second in _EXCLUSIVE)


_SPELLINGS = {}


def spellings(model, combine=0.2):
    """Strategy of spellings of a model (or of a model type name): one dimension of the type's row in DIMENSIONS
    (mostly), or two / three of them together.  Spellings do not depend on the shape of the model (their lists are
    cycled over the places they apply to), so the strategy is built once per type."""
    kind = model if isinstance(model, str) else model['type']
    if (kind, combine) not in _SPELLINGS:
        _SPELLINGS[(kind, combine)] = _spellings(kind, combine)
    return _SPELLINGS[(kind, combine)]


def _spellings(kind, combine):
    names = list(DIMENSIONS.get(kind, ()))
    if not names:
        return st.nothing()
    parameters = {name: _dimension_params(kind, name) for name in names}
    single = st.one_of(*[parameters[name].map(lambda params, name=name: {name: params}) for name in names])
    if len(names) < 2 or not combine:
        return single
    combinable = [name for name in names if name not in _ALONE]
    if len(combinable) < 2:
        return single
    several = st.lists(st.sampled_from(combinable), min_size=2, max_size=3, unique=True).filter(_compatible).flatmap(
        lambda chosen: st.tuples(*[parameters[name] for name in chosen]).map(
            lambda params: dict(zip(chosen, params))))
    weight = max(1, int(round(1 / combine)) - 1)
    return st.one_of(*([single] * weight + [several]))


def variants(model):
    """Strategy of (dimension_name, bytes): the same semantic value along the insignificant dimensions."""
    return spellings(model).map(lambda spelling: (dimension_name(spelling), render(model, spelling)))


# --------------------------------------------------------------------------------------------------------------------
# header lines and header blocks

def line(type_name, model, spelling=None, value=None):
    """"Name: value" (no CRLF) of a header type; `spelling` holds line-level dimensions only."""
    spelling = spelling or {}
    name = TYPES[type_name].header
    if 'field-name-case' in spelling:
        name = recase(name, spelling['field-name-case'])
    lead, trail = ' ', ''
    if 'leading-ows-sp' in spelling:
        lead = ' ' * spelling['leading-ows-sp']['count']
    if 'leading-ows-htab' in spelling:
        lead = spelling['leading-ows-htab']['ws']
    if 'trailing-ows-sp' in spelling:
        trail = ' ' * spelling['trailing-ows-sp']['count']
    if 'trailing-ows-htab' in spelling:
        trail = spelling['trailing-ows-htab']['ws']
    body = canonical(model) if value is None else value
    return name.encode('ascii') + b':' + lead.encode('ascii') + body + trail.encode('ascii')


def _line_dimension_params(dimension):
    if dimension == 'field-name-case':
        return _case_params()
    if dimension == 'leading-ows-sp':
        return st.sampled_from([0, 0, 2, 3, 5]).map(lambda count: {'count': count})
    if dimension == 'trailing-ows-sp':
        return st.integers(1, 3).map(lambda count: {'count': count})
    return _WS_TEXT1.map(lambda ws: {'ws': ws if '\t' in ws else '\t' + ws[1:]})


def line_spellings(combine=0.2):
    if combine not in _LINE_SPELLINGS:
        _LINE_SPELLINGS[combine] = _line_spellings(combine)
    return _LINE_SPELLINGS[combine]


_LINE_SPELLINGS = {}


def _line_spellings(combine):
    names = list(LINE_DIMENSIONS)
    single = st.sampled_from(names).flatmap(lambda name: _line_dimension_params(name).map(lambda p: {name: p}))
    exclusive = [('leading-ows-sp', 'leading-ows-htab'), ('trailing-ows-sp', 'trailing-ows-htab')]
    several = st.lists(st.sampled_from(names), min_size=2, max_size=3, unique=True).filter(
        lambda chosen: not any(a in chosen and b in chosen for a, b in exclusive)).flatmap(
            lambda chosen: st.tuples(*[_line_dimension_params(name) for name in chosen]).map(
                lambda params: dict(zip(chosen, params))))
    weight = max(1, int(round(1 / combine)) - 1) if combine else 1
    return st.one_of(*([single] * weight + ([several] if combine else [])))


def unknown_field_names():
    return st.one_of(
        st.sampled_from(['X-Unparsed', 'Content-Length', 'Connection', 'Vary', 'X-Powered-By', 'Via', 'Link',
                         'Accept-Ranges', 'Alt-Svc', 'Report-To', 'X-Agee', 'Ag', 'Set-Cookie2']),
        st.text(alphabet=ALPHA + DIGIT + '-', min_size=1, max_size=16),
        st.text(alphabet=TCHAR, min_size=1, max_size=12),
    ).filter(lambda name: name.lower() not in KNOWN_HEADER_NAMES)


def _ows():
    return st.text(alphabet=' \t', max_size=3)


def block_entries():
    """One field of a block: {'name', 'value', 'lead', 'trail', 'kind'} (value = field value without OWS)."""
    def known(type_name):
        return st.tuples(models(type_name), st.one_of(st.none(), st.none(), _case_params())).map(
            lambda drawn: {'name': recase(TYPES[type_name].header, drawn[1]) if drawn[1] else TYPES[type_name].header,
                           'value': canonical(drawn[0]).decode('ascii'), 'kind': 'known:' + type_name})
    known_entry = st.sampled_from(HEADER_TYPES).flatmap(known)
    # a value may begin with, consist of or repeat the character that ends the name
    colon_led = st.one_of(st.sampled_from([':', '::', ':a', ': a', 'a:', ':=']), field_content().map(lambda text: ':' + text))
    unknown_entry = st.tuples(unknown_field_names(), st.one_of(field_content(), field_content(), colon_led, st.just(''))).map(
        lambda drawn: {'name': drawn[0], 'value': drawn[1], 'kind': 'unknown'})
    return st.one_of(known_entry, known_entry, unknown_entry)


def corrupt_values():
    """Field values (valid field-content) that the detailed parsers are likely to refuse."""
    return st.one_of(field_content(), st.just(''), st.sampled_from(['x', '@', '1x', '-1', '=', ';', ',', '{', '"', 'max-age', '0 0', ':', ':x', '::',
                                                       'text', '/', '1;', 'a=b=c', '']))


def blocks():
    """Strategy of block models {'entries': [...], 'flavour', 'mutation'}; block_text() renders them."""
    def build(entries, ows, mutation):
        out = []
        for index, entry in enumerate(entries):
            lead, trail = ' ', ''
            if ows is not None:
                lead, trail = ows[index % len(ows)]
            out.append(dict(entry, lead=lead, trail=trail))
        return {'entries': out, 'flavour': 'plain' if ows is None else 'ows', 'mutation': mutation}
    one_side = st.one_of(_ows().map(lambda lead: [lead, '']), _ows().filter(bool).map(lambda trail: [' ', trail]),
                         st.just([' ', '']))
    ows = st.one_of(st.none(), st.none(), st.none(), st.none(), st.none(), st.none(),
                    st.lists(one_side, min_size=1, max_size=4))
    mutation = st.one_of(
        st.none(),
        st.tuples(st.integers(0, 20), unknown_field_names()).map(
            lambda drawn: {'index': drawn[0], 'kind': 'rename', 'name': drawn[1]}),
        st.tuples(st.integers(0, 20), corrupt_values()).map(
            lambda drawn: {'index': drawn[0], 'kind': 'corrupt', 'value': drawn[1]}))
    return st.builds(build, st.one_of(st.lists(block_entries(), min_size=1, max_size=8),
                                      st.lists(block_entries(), min_size=0, max_size=2)), ows, mutation)


def mutated_entries(block):
    """Entries after the block's mutation (None when there is none / no entry to mutate)."""
    mutation = block.get('mutation')
    entries = block['entries']
    if not mutation or not entries:
        return None
    index = mutation['index'] % len(entries)
    changed = dict(entries[index])
    if mutation['kind'] == 'rename':
        changed['name'] = mutation['name']
    else:
        changed['value'] = mutation['value']
    return entries[:index] + [changed] + entries[index + 1:], index


def block_text(entries):
    out = []
    for entry in entries:
        out.append('%s:%s%s%s\r\n' % (entry['name'], entry['lead'], entry['value'], entry['trail']))
    out.append('\r\n')
    return ''.join(out).encode('ascii')


# --------------------------------------------------------------------------------------------------------------------
# seed pool for other checks

_REF_TO_TYPES = {}
for _info in TYPES.values():
    _REF_TO_TYPES.setdefault(_info.value_ref, []).append((_info.name, 'value'))
    if _info.field_ref:
        _REF_TO_TYPES.setdefault(_info.field_ref, []).append((_info.name, 'field'))


def supported_refs():
    return sorted(_REF_TO_TYPES) + [FIELDS_REF]


def accepted_texts(cls_ref, count, seed):
    """Deterministic list of up to `count` distinct texts (canonical spellings and variants) that the class named by
    `cls_ref` ('module:Class') accepts: parse_exact_size for value classes and HttpHeaderFields, parse_immutable of
    "line CRLF" for header field classes.  Pure function of (code under test, cls_ref, count, seed)."""
    from vf.core import hyp, lib  # pylint: disable=import-outside-toplevel
    from vf.core.stats import Stats  # pylint: disable=import-outside-toplevel
    if cls_ref != FIELDS_REF and cls_ref not in _REF_TO_TYPES:
        return []
    cls = lib.resolve(cls_ref)
    out, seen = [], set()

    def offer(text, immutable=False):
        if text in seen or len(out) >= count:
            return
        seen.add(text)
        try:
            if immutable:
                cls.parse_immutable(text)
            else:
                cls.parse_exact_size(text)
        except Exception:  # pylint: disable=broad-except
            return
        out.append(text)

    if cls_ref == FIELDS_REF:
        def collect_block(block, _stats):
            offer(block_text(block['entries']))
            return ()
        hyp.explore(blocks(), collect_block, Stats(), 2 * count + 8, seed)
        return out
    for type_name, level in _REF_TO_TYPES[cls_ref]:
        def collect(drawn, _stats, type_name=type_name, level=level):
            model, spelling, line_spelling = drawn
            texts = [canonical(model)]
            if spelling:
                texts.append(render(model, spelling))
            for text in texts:
                if level == 'value':
                    offer(text)
                else:
                    offer(line(type_name, model, {}, text) + b'\r\n', immutable=True)
                    offer(line(type_name, model, line_spelling, text) + b'\r\n', immutable=True)
            return ()
        kind = TYPES[type_name].model_type
        strategy = st.tuples(models(type_name),
                             st.one_of(st.just({}), spellings(kind)) if DIMENSIONS.get(kind) else st.just({}),
                             line_spellings())
        hyp.explore(strategy, collect, Stats(), 2 * count + 8, seed)
    return out
