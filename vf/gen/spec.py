# -*- coding: utf-8 -*-
"""Construction specs: json-able descriptions of library objects, and build(spec) that instantiates them through
the public constructors.  Strategies generate specs (never live objects), so every case can be written to a replay
file, printed in the evidence and rebuilt without Hypothesis."""
import collections
import datetime
import ipaddress

from vf.core import lib

EPOCH = datetime.datetime(1970, 1, 1, tzinfo=datetime.timezone.utc)


class BuildError(Exception):
    """The spec itself is malformed (harness error, never a verdict)."""


def build(spec):  # pylint: disable=too-many-return-statements,too-many-branches
    if spec is None or isinstance(spec, (bool, int, float, str)):
        return spec
    if isinstance(spec, list):
        return [build(item) for item in spec]
    if not isinstance(spec, dict):
        raise BuildError(repr(spec))
    if 'c' in spec:
        target = lib.resolve(spec['c'])
        args = [build(item) for item in spec.get('a', ())]
        kwargs = {name: build(value) for name, value in spec.get('k', {}).items()}
        return target(*args, **kwargs)
    if 'e' in spec:
        return lib.resolve(spec['e'])[spec['n']]
    if 'b' in spec:
        return bytes.fromhex(spec['b'])
    if 'ba' in spec:
        return bytearray.fromhex(spec['ba'])
    if 'dt' in spec:
        # milliseconds since the epoch; flavour: 'utc' (aware, datetime.timezone.utc), 'dateutil' (aware,
        # dateutil.tz.UTC - what parse_timestamp returns), 'naive' (UTC wall clock without tzinfo)
        value = EPOCH + datetime.timedelta(milliseconds=spec['dt'])
        flavour = spec.get('tz', 'utc')
        if flavour == 'naive':
            return value.replace(tzinfo=None)
        if flavour == 'dateutil':
            import dateutil.tz  # pylint: disable=import-outside-toplevel
            return value.astimezone(dateutil.tz.UTC)
        return value
    if 'td' in spec:
        return datetime.timedelta(seconds=spec['td'])
    if 'od' in spec:
        return collections.OrderedDict((build(key), build(value)) for key, value in spec['od'])
    if 'set' in spec:
        return set(build(item) for item in spec['set'])
    if 'tuple' in spec:
        return tuple(build(item) for item in spec['tuple'])
    if 'cycle' in spec:
        # a long list described compactly: the given items repeated cyclically up to n entries
        items = [build(item) for item in spec['cycle']]
        return [items[index % len(items)] for index in range(spec['n'])] if items else []
    if 'ipnet' in spec:
        return ipaddress.ip_network(spec['ipnet'])
    if 'call' in spec:
        target = lib.resolve(spec['call'])
        args = [build(item) for item in spec.get('a', ())]
        kwargs = {name: build(value) for name, value in spec.get('k', {}).items()}
        return target(*args, **kwargs)
    raise BuildError(repr(spec)[:200])


def spec_class(spec):
    """Reference of the top-level class a spec constructs (for statistics)."""
    if isinstance(spec, dict):
        if 'c' in spec:
            return spec['c']
        if 'call' in spec:
            return spec.get('cls') or spec['call']
        if 'e' in spec:
            return spec['e']
    return type(spec).__name__


def render(spec, limit=600):
    """Compact human-readable rendering of a spec for evidence samples."""
    import json  # pylint: disable=import-outside-toplevel
    text = json.dumps(spec, sort_keys=True, separators=(',', ':'))
    return text if len(text) <= limit else text[:limit] + '...(%d chars)' % len(text)
