# -*- coding: utf-8 -*-
"""Class registry: which concrete classes have a spec strategy, and a small deterministic pool of composed
examples per class (extra seeds for the byte-level checks)."""
from vf.core import hyp, lib
from vf.core.stats import Stats
from vf.gen import objects, spec as specs

_CACHE = {}


def strategy_for(ref):
    return objects.strategy_for(ref)


def registered():
    return objects.registered()


def has_strategy(cls):
    return lib.ref_of(cls) in set(objects.registered())


def coverage():
    """(covered refs, {uncovered ref: reason})"""
    covered = set(objects.registered())
    uncovered = {}
    from cryptoparser.common.base import VariantParsableBase  # pylint: disable=import-outside-toplevel
    for cls in lib.concrete_classes():
        ref = lib.ref_of(cls)
        if ref in covered:
            continue
        if issubclass(cls, VariantParsableBase):
            uncovered[ref] = 'variant wrapper: exercised through its member types'
        elif ref.startswith(('cryptoparser.httpx.', 'cryptoparser.common.field:', 'cryptoparser.dnsrec.txt:')):
            uncovered[ref] = 'text family: objects come from parsing grammar-generated and corpus texts'
        else:
            uncovered[ref] = 'no spec strategy: objects come from parsing corpus inputs only'
    return sorted(covered), uncovered


def composed_examples(cls, count=8):
    """Deterministic handful of encodings composed from generated objects of the class ([] if none)."""
    ref = lib.ref_of(cls)
    if ref in _CACHE:
        return _CACHE[ref]
    out = []
    if ref in set(objects.registered()):
        def collect(case, _stats):
            try:
                data = bytes(specs.build(case).compose())
            except Exception:  # pylint: disable=broad-except
                return ()
            if len(data) <= 4096 and data not in out:
                out.append(data)
            return ()
        try:
            hyp.explore(objects.strategy_for(ref), collect, Stats(), count, 20240917)
        except Exception:  # pylint: disable=broad-except
            pass
    _CACHE[ref] = out
    return out
