# -*- coding: utf-8 -*-
"""Class registry: which concrete classes have a spec strategy, and a small deterministic pool of composed
examples per class (extra seeds for the byte-level checks)."""
from vf.core import hyp, lib
from vf.core.stats import Stats
from vf.gen import objects, spec as specs

_CACHE = {}


def strategy_for(ref):
    return objects.strategy_for(ref)


def registered():
    return objects.registered()


def has_strategy(cls):
    return lib.ref_of(cls) in set(objects.registered())


def coverage():
    """(covered refs, {uncovered ref: reason})"""
    covered = set(objects.registered())
    uncovered = {}
    from cryptoparser.common.base import VariantParsableBase  # pylint: disable=import-outside-toplevel
    for cls in lib.concrete_classes():
        ref = lib.ref_of(cls)
        if ref in covered:
            continue
        if issubclass(cls, VariantParsableBase):
            uncovered[ref] = 'variant wrapper: exercised through its member types'
        elif ref.startswith(('cryptoparser.httpx.', 'cryptoparser.common.field:', 'cryptoparser.dnsrec.txt:')):
            uncovered[ref] = 'text family: objects come from parsing grammar-generated and corpus texts'
        else:
            uncovered[ref] = 'no spec strategy: objects come from parsing corpus inputs only'
    return sorted(covered), uncovered


def example_specs(ref, count=6):
    """A deterministic handful of specs of the class (donors of field values for in-place edits)."""
    key = ('specs', ref)
    if key not in _CACHE:
        found = []

        def collect(case, _stats):
            found.append(case)
            return ()
        try:
            hyp.explore(objects.strategy_for(ref), collect, Stats(), count + 2, 20240930)
        except Exception:  # pylint: disable=broad-except
            pass
        _CACHE[key] = found[2:] or found
    return _CACHE[key]


def warm():
    """Build the reference-seed table once in the parent process: forked shard workers inherit it."""
    from vf.core import lib as _lib  # pylint: disable=import-outside-toplevel
    from vf.gen import refseeds  # pylint: disable=import-outside-toplevel
    classes = _lib.concrete_classes()
    if classes:
        refseeds.for_class(classes[0])


def composed_examples(cls, count=8):
    """Deterministic handful of encodings composed from generated objects of the class ([] if none)."""
    ref = lib.ref_of(cls)
    if ref in _CACHE:
        return _CACHE[ref]
    out = []
    if ref in set(objects.registered()):
        def collect(case, _stats):
            try:
                data = bytes(specs.build(case).compose())
            except Exception:  # pylint: disable=broad-except
                return ()
            if len(data) <= 4096 and data not in out:
                out.append(data)
            return ()
        try:
            hyp.explore(objects.strategy_for(ref), collect, Stats(), count, 20240917)
        except Exception:  # pylint: disable=broad-except
            pass
    if ref.startswith('cryptoparser.tls.ldap:'):
        from vf.gen import seeds  # pylint: disable=import-outside-toplevel
        base = [bytes(b) for b in seeds.seeds_for(cls)] + out
        for data in base[:6]:
            out = out + [variant for variant in ber_length_variants(data) if variant not in out]
    if 'X509' in ref or ref.endswith(':SshHostPublicKeyVariant'):
        from vf.gen import der, seeds  # pylint: disable=import-outside-toplevel
        for data in [bytes(b) for b in seeds.seeds_for(cls) if 300 < len(b) <= 4096][:4]:
            out = out + [variant for variant in der.certificate_variants(data) if variant not in out]
    if ref.endswith((':SshHostKeyRSA', ':SshHostKeyDSS', ':SshHostPublicKeyVariant')):
        from vf.gen import seeds  # pylint: disable=import-outside-toplevel
        for data in [bytes(b) for b in seeds.seeds_for(cls) if len(b) <= 1200][:6]:
            out = out + [variant for variant in ssh_mpint_padded_variants(data) if variant not in out]
    # reference-encoded models (independent of compose(): what the library cannot compose still becomes an input)
    from vf.gen import refseeds  # pylint: disable=import-outside-toplevel
    out = out + [wire for wire in refseeds.for_class(cls) if wire not in out]
    if ref == 'cryptoparser.tls.record:SslRecord':
        out = out + [variant for data in out[:6] for variant in ssl2_three_byte_header_variants(data)]
    _CACHE[ref] = out
    return out


def ssl2_three_byte_header_variants(record):
    """The same SSL 2.0 record re-framed with the 3-byte header (MSB clear, 14-bit length, padding length octet)
    and 0, 1 or 7 bytes of padding; compose() never emits this form, a peer may."""
    if len(record) < 3 or not record[0] & 0x80:
        return []
    body = record[2:]
    variants = []
    for padding in (0, 1, 7):
        length = len(body) + padding
        if length < (1 << 14):
            variants.append(bytes([(length >> 8) & 0x3f, length & 0xff, padding]) + body + b'\x00' * padding)
    return variants


def ber_length_variants(message):
    """The same BER value with its outermost length spelled differently: long form with one and with four length
    octets, and the indefinite form closed by end-of-contents octets.  DER encoders (compose()) emit none of these,
    a BER peer may send any."""
    if len(message) < 2 or message[1] >= 0x80 or 2 + message[1] != len(message) or not message[0] & 0x20:
        return []
    tag, body = message[:1], message[2:]
    return [tag + b'\x81' + bytes([len(body)]) + body,
            tag + b'\x84' + len(body).to_bytes(4, 'big') + body,
            tag + b'\x80' + body + b'\x00\x00']


def ssh_mpint_padded_variants(blob):
    """An ssh-rsa / ssh-dss public key blob with its first mpint spelled non-minimally (two superfluous leading zero
    octets): RFC 4251 forbids a sender to do that, receivers commonly tolerate it - and then hold an object equal to
    the one parsed from the minimal spelling."""
    if len(blob) < 12:
        return []
    name_length = int.from_bytes(blob[:4], 'big')
    name = blob[4:4 + name_length]
    if name not in (b'ssh-rsa', b'ssh-dss') or len(blob) < 8 + name_length:
        return []
    position = 4 + name_length
    length = int.from_bytes(blob[position:position + 4], 'big')
    if position + 4 + length > len(blob) or length == 0 or blob[position + 4] & 0x80:
        return []
    padded = blob[:position] + (length + 2).to_bytes(4, 'big') + b'\x00\x00' + blob[position + 4:]
    return [padded]
