# -*- coding: utf-8 -*-
"""Objects reached by *editing in place* after construction.

The library's objects are mutable: a caller may build or parse a message and then change a field of an item that
already sits inside a vector (`hello.extensions[0].key_share_entries[0].key_exchange = ...`, the library's own tests
do this).  Such an object is as constructible as a freshly built one, and everything a property says about "every
object" applies to it.  Two helpers:

  nested_edits(obj, rng, limit) -> [description]   change up to `limit` byte-string / text fields of items that sit
                                                   inside vectors, in place (size-changing edits)
  rebuild(obj)                                     an equal object built from scratch through the constructors
                                                   (attrs fields with init=True, vectors from their item lists):
                                                   the reference for what the edited object *is*
"""
import enum

import attr


class NotRebuildable(Exception):
    pass


def _array_base():
    from cryptoparser.common.base import ArrayBase  # pylint: disable=import-outside-toplevel
    return ArrayBase


def rebuild(obj, depth=0):
    """Fresh object with the same field values, made by the public constructors only."""
    ArrayBase = _array_base()  # pylint: disable=invalid-name
    if depth > 30:
        raise NotRebuildable('depth')
    if obj is None or isinstance(obj, (bool, int, float, str, bytes, enum.Enum)):
        return obj
    if isinstance(obj, bytearray):
        return bytearray(obj)
    if isinstance(obj, ArrayBase):
        return type(obj)([rebuild(item, depth + 1) for item in obj])
    if isinstance(obj, (list, tuple)):
        return type(obj)(rebuild(item, depth + 1) for item in obj)
    if isinstance(obj, (set, frozenset)):
        return type(obj)(rebuild(item, depth + 1) for item in obj)
    if isinstance(obj, dict):
        return type(obj)((key, rebuild(value, depth + 1)) for key, value in obj.items())
    cls = type(obj)
    if cls.__module__.startswith('cryptoparser.') and attr.has(cls):
        names = {field.name for field in attr.fields(cls)}
        if set(getattr(obj, '__dict__', ())) - names:
            raise NotRebuildable('%s keeps state outside its attrs fields' % cls.__name__)
        keywords = {}
        for field in attr.fields(cls):
            if field.init:
                keywords[field.name.lstrip('_')] = rebuild(getattr(obj, field.name), depth + 1)
        return cls(**keywords)
    if cls.__module__.startswith('cryptoparser.') and not isinstance(obj, type):
        raise NotRebuildable('%s is not an attrs class' % cls.__name__)
    return obj        # foreign values (datetime, ipaddress, asn1crypto, cryptodatahub keys): shared, never edited here


def _editable_fields(item):
    cls = type(item)
    if not (cls.__module__.startswith('cryptoparser.') and attr.has(cls)):
        return []
    out = []
    for field in attr.fields(cls):
        if not field.init:
            continue
        value = getattr(item, field.name, None)
        if isinstance(value, (bytes, bytearray)) or (isinstance(value, str) and value.isascii()):
            out.append(field.name)
        elif isinstance(value, _array_base()) and len(value):
            out.append(field.name)          # an inner vector: edited through its own sequence interface
    return out


def _sites(obj, found, seen, depth=0):
    """(vector, index, item, field name) for every byte-string / text field of an item inside a vector."""
    ArrayBase = _array_base()  # pylint: disable=invalid-name
    if depth > 12 or obj is None or id(obj) in seen or isinstance(obj, (bool, int, float, str, bytes, bytearray, enum.Enum)):
        return
    seen.add(id(obj))
    if isinstance(obj, ArrayBase):
        for index, item in enumerate(list(obj)[:6]):
            for name in _editable_fields(item):
                found.append((obj, index, item, name))
            _sites(item, found, seen, depth + 1)
        return
    if isinstance(obj, (list, tuple)):
        for item in list(obj)[:6]:
            _sites(item, found, seen, depth + 1)
        return
    cls = type(obj)
    if cls.__module__.startswith('cryptoparser.') and attr.has(cls):
        for field in attr.fields(cls):
            _sites(getattr(obj, field.name, None), found, seen, depth + 1)


def nested_edits(obj, rng, limit=2):
    """Edit up to `limit` fields in place; returns descriptions ('Vector[i].field: grow by 2' ...)."""
    found = []
    _sites(obj, found, set())
    if not found:
        return []
    rng.shuffle(found)
    done = []
    for vector, index, item, name in found[:limit]:
        value = getattr(item, name)
        how = rng.choice(('grow', 'grow', 'shrink', 'grow-inplace'))
        if isinstance(value, _array_base()):
            try:
                if how == 'shrink' and len(value) >= 2:
                    del value[-1]
                else:
                    value.append(list(value)[0])
            except Exception:  # pylint: disable=broad-except
                continue        # the inner vector is at a bound: not an edit it accepts
            done.append('%s[%d].%s: inner vector %s' % (type(vector).__name__, index, name, 'shortened' if how == 'shrink' and len(value) >= 1 else 'extended'))
            continue
        if isinstance(value, str):
            new = value + 'xy' if how != 'shrink' or len(value) < 2 else value[:-1]
        elif how == 'shrink' and len(value) >= 2:
            new = type(value)(value[:-1])
        elif how == 'grow-inplace' and isinstance(value, bytearray):
            value.extend(b'\xa5\x5a')
            done.append('%s[%d].%s: extended in place by 2' % (type(vector).__name__, index, name))
            continue
        else:
            new = type(value)(bytes(value) + b'\xa5\x5a')
        try:
            setattr(item, name, new)
        except Exception:  # pylint: disable=broad-except
            continue        # frozen class / validating setter refuses: not an edit the library lets a caller make
        done.append('%s[%d].%s: %d -> %d' % (type(vector).__name__, index, name, len(value), len(new)))
    return done


def swap_field(obj, donor, rng):
    """Assign one constructor field of obj the value the donor (another object of the same class) holds for it - the way
    a caller reuses an object with a new key / name / list.  Returns a description or None."""
    import copy  # pylint: disable=import-outside-toplevel
    cls = type(obj)
    if type(donor) is not cls or not attr.has(cls) or isinstance(obj, _array_base()):
        return None          # a vector is edited through its sequence interface (C12), not by swapping its item list
    names = []
    for field in attr.fields(cls):
        if not field.init or field.name.startswith('_'):
            continue
        mine, theirs = getattr(obj, field.name, None), getattr(donor, field.name, None)
        if mine is None or theirs is None or type(mine) is not type(theirs):
            continue
        try:
            if mine == theirs:
                continue
        except Exception:  # pylint: disable=broad-except
            continue
        names.append(field.name)
    if not names:
        return None
    name = rng.choice(sorted(names))
    try:
        value = copy.deepcopy(getattr(donor, name))
    except Exception:  # pylint: disable=broad-except
        value = getattr(donor, name)
    try:
        setattr(obj, name, value)
    except Exception:  # pylint: disable=broad-except
        return None
    return '%s.%s: replaced by the value of another instance' % (cls.__name__, name)


def state_without_cached_sizes(value):
    """lib.dump(value) with the vectors' cached byte counters removed (they legitimately differ between an object
    edited in place and its rebuilt twin)."""
    if isinstance(value, dict):
        return {key: state_without_cached_sizes(item) for key, item in value.items() if key not in ('_items_size', 'recorded_size')}
    if isinstance(value, list):
        return [state_without_cached_sizes(item) for item in value]
    return value
