# -*- coding: utf-8 -*-
"""A few lines of DER handling for seed construction (no ASN.1 library: the seeds must not depend on the code under
test or on asn1crypto's view of the bytes)."""


def _read(data, pos):
    """-> (tag, header length, content length) of the definite-length TLV at pos, or None"""
    if pos + 2 > len(data):
        return None
    first = data[pos + 1]
    if first < 0x80:
        return data[pos], 2, first
    count = first & 0x7f
    if count == 0 or count > 4 or pos + 2 + count > len(data):
        return None
    return data[pos], 2 + count, int.from_bytes(data[pos + 2:pos + 2 + count], 'big')


def _encode(tag, content):
    size = len(content)
    if size < 0x80:
        return bytes([tag, size]) + content
    width = (size.bit_length() + 7) // 8
    return bytes([tag, 0x80 | width]) + size.to_bytes(width, 'big') + content


def children(data):
    """[(tag, whole TLV bytes)] of the concatenated TLVs in data, or None when data is not such a sequence"""
    out, pos = [], 0
    while pos < len(data):
        head = _read(data, pos)
        if head is None or pos + head[1] + head[2] > len(data):
            return None
        out.append((head[0], data[pos:pos + head[1] + head[2]]))
        pos += head[1] + head[2]
    return out


def certificate_without_extensions(certificate):
    """The same X.509 certificate with the optional [3] extensions element of its tbsCertificate removed (lengths
    re-encoded; the signature no longer verifies, which no parser here checks), or None if it has none / is no
    certificate."""
    head = _read(certificate, 0)
    if head is None or head[0] != 0x30 or head[1] + head[2] != len(certificate):
        return None
    parts = children(certificate[head[1]:])
    if not parts or len(parts) != 3 or parts[0][0] != 0x30:
        return None
    tbs = parts[0][1]
    tbs_head = _read(tbs, 0)
    fields = children(tbs[tbs_head[1]:])
    if not fields or not any(tag == 0xa3 for tag, _ in fields):
        return None
    new_tbs = _encode(0x30, b''.join(blob for tag, blob in fields if tag != 0xa3))
    return _encode(0x30, new_tbs + parts[1][1] + parts[2][1])


def certificate_variants(data):
    """Inputs derived from `data` (any message embedding DER certificates, e.g. an SSH X.509 host key): every embedded
    certificate that has extensions is replaced by its extension-less twin; a 4-byte big-endian length in front of it
    is corrected."""
    out = []
    for pos in range(len(data) - 4):
        if data[pos] != 0x30 or data[pos + 1] != 0x82:
            continue
        head = _read(data, pos)
        if head is None or pos + head[1] + head[2] > len(data):
            continue
        whole = data[pos:pos + head[1] + head[2]]
        stripped = certificate_without_extensions(whole)
        if stripped is None:
            continue
        prefix = data[:pos]
        if pos >= 4 and int.from_bytes(data[pos - 4:pos], 'big') == len(whole):
            prefix = data[:pos - 4] + len(stripped).to_bytes(4, 'big')
        out.append(prefix + stripped + data[pos + len(whole):])
    return out
