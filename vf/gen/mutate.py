# -*- coding: utf-8 -*-
"""Seeded byte-level mutation engine (structure-aware where cheap): every mutant is a pure function of
(rng state, seed input, donor inputs).  Used by C02/C03/C05/C19 for inputs *near* valid encodings."""

INTERESTING_BYTES = (0x00, 0x01, 0x7f, 0x80, 0xff, 0x20, 0x0a, 0x0d, 0x2c, 0x3b, 0x3d, 0x22, 0x2d, 0x2e, 0x3a, 0x2f)
TEXT_TOKENS = (b';', b',', b'=', b'"', b' ', b'\t', b'\r\n', b'\n', b'\r', b'\x00', b'\xff', b'\xc3\xa9', b'\xe2\x82\xac',
               b'\xc3', b'-', b':', b'/', b'.', b'*', b"'", b'99999999999999999999', b'0', b'-1', b'1e999', b'+0100',
               b'%', b'%00', b'\\', b'\x7f', b'\x80', b'{', b'}', b'[', b']', b'(', b')', b'<', b'>', b'@', b'~all', b'v=')


def _interesting_ints(length):
    values = {0, 1, 2, 3, 4, 7, 8, 15, 16, 31, 32, 33, 63, 64, 127, 128, 129, 254, 255, 256, 257, 0x7fff, 0x8000,
              0xffff, 0x10000, 0xffffff, 0x1000000, 0x7fffffff, 0x80000000, 0xffffffff, 0xfffffffe,
              length, length - 1, length + 1, max(0, length - 2), length + 2, length * 2, max(0, length - 4),
              max(0, length - 5), max(0, length - 3), length // 2}
    return sorted(v for v in values if v >= 0)


def looks_textual(data):
    if not data:
        return False
    printable = sum(1 for b in data if 0x20 <= b < 0x7f or b in (9, 10, 13))
    return printable * 10 >= len(data) * 9


def truncations(data, limit=512):
    """Every proper prefix (exhaustive when short, strided otherwise)."""
    size = len(data)
    if size <= limit:
        for cut in range(size):
            yield data[:cut]
    else:
        step = max(1, size // limit)
        for cut in list(range(0, 64)) + list(range(64, size, step)) + list(range(size - 32, size)):
            if 0 <= cut < size:
                yield data[:cut]


def mutate(rng, data, donors=(), text=None):
    """One mutant of `data` -> (mutator name, bytes)."""
    data = bytes(data)
    size = len(data)
    text = looks_textual(data) if text is None else text
    choice = rng.randrange(17 if text else 14)
    if size == 0:
        choice = 9
    if choice == 0:      # bit flip(s)
        out = bytearray(data)
        for _ in range(rng.choice((1, 1, 1, 2, 3))):
            pos = rng.randrange(size)
            out[pos] ^= 1 << rng.randrange(8)
        return 'bitflip', bytes(out)
    if choice == 1:      # byte set
        out = bytearray(data)
        for _ in range(rng.choice((1, 1, 2, 4))):
            out[rng.randrange(size)] = rng.choice(INTERESTING_BYTES) if rng.random() < 0.7 else rng.randrange(256)
        return 'byteset', bytes(out)
    if choice in (2, 3, 4):      # length-field corruption: overwrite a 1..4 byte window with an interesting int
        width = rng.choice((1, 1, 2, 2, 2, 3, 4))
        if size < width:
            width = size
        pos = rng.randrange(0, size - width + 1) if rng.random() < 0.6 else min(rng.randrange(0, 12), size - width)
        rest = size - pos - width
        value = rng.choice(_interesting_ints(rest)) & ((1 << (8 * width)) - 1)
        order = 'big' if rng.random() < 0.8 else 'little'
        return 'lengthfield', data[:pos] + value.to_bytes(width, order) + data[pos + width:]
    if choice == 5:      # delete a range
        a = rng.randrange(size)
        b = min(size, a + rng.choice((1, 1, 2, 3, 4, 8, 16, rng.randrange(1, size + 1))))
        return 'delete', data[:a] + data[b:]
    if choice == 6:      # insert random / interesting bytes
        pos = rng.randrange(size + 1)
        count = rng.choice((1, 1, 2, 3, 4, 8, 17))
        blob = bytes(rng.choice(INTERESTING_BYTES) if rng.random() < 0.5 else rng.randrange(256) for _ in range(count))
        return 'insert', data[:pos] + blob + data[pos:]
    if choice == 7:      # duplicate a segment
        a = rng.randrange(size)
        b = min(size, a + rng.randrange(1, 33))
        pos = rng.randrange(size + 1)
        return 'duplicate', data[:pos] + data[a:b] * rng.choice((1, 1, 2, 5)) + data[pos:]
    if choice == 8 and donors:      # splice with a donor (same or other class)
        donor = bytes(rng.choice(donors))
        if donor:
            a = rng.randrange(size + 1)
            b = rng.randrange(len(donor) + 1)
            return 'splice', (data[:a] + donor[b:]) if rng.random() < 0.5 else (donor[:b] + data[a:])
    if choice == 9:      # append a suffix
        count = rng.choice((1, 2, 3, 4, 8, 16, 64))
        suffix = bytes(rng.randrange(256) for _ in range(count)) if rng.random() < 0.5 else data[:count] or b'\x00'
        return 'append', data + suffix
    if choice == 10:     # truncate
        return 'truncate', data[:rng.randrange(size)]
    if choice == 11:     # overwrite a window with one repeated byte
        a = rng.randrange(size)
        b = min(size, a + rng.randrange(1, 9))
        return 'fill', data[:a] + bytes([rng.choice(INTERESTING_BYTES)]) * (b - a) + data[b:]
    if choice == 12:     # swap two windows
        if size >= 4:
            a = rng.randrange(size - 1)
            b = rng.randrange(a + 1, size)
            width = min(rng.randrange(1, 5), b - a, size - b)
            out = bytearray(data)
            out[a:a + width], out[b:b + width] = out[b:b + width], out[a:a + width]
            return 'swap', bytes(out)
        return 'truncate', data[:size // 2]
    if choice == 13:     # increment / decrement a byte
        out = bytearray(data)
        pos = rng.randrange(size)
        out[pos] = (out[pos] + rng.choice((1, -1, 2, -2, 16, -16))) & 0xff
        return 'arith', bytes(out)
    # text-specific
    if choice == 14:     # insert a token
        pos = rng.randrange(size + 1)
        token = rng.choice(TEXT_TOKENS) * rng.choice((1, 1, 1, 2, 3, 9))
        return 'text-insert', data[:pos] + token + data[pos:]
    if choice == 15:     # replace a character run with a token
        a = rng.randrange(size)
        b = min(size, a + rng.randrange(1, 4))
        return 'text-replace', data[:a] + rng.choice(TEXT_TOKENS) + data[b:]
    # case flip of a run
    a = rng.randrange(size)
    b = min(size, a + rng.randrange(1, 12))
    return 'text-case', data[:a] + data[a:b].swapcase() + data[b:]


def random_bytes(rng, max_len=64):
    size = rng.choice((0, 1, 2, 3, 4, 5, 8, 16, rng.randrange(0, max_len + 1)))
    mode = rng.randrange(4)
    if mode == 0:
        return bytes(rng.randrange(256) for _ in range(size))
    if mode == 1:
        return bytes(rng.choice(INTERESTING_BYTES) for _ in range(size))
    if mode == 2:
        alphabet = b'abcxyzABC019 ;,=:"-_/.\r\n\t'
        return bytes(rng.choice(alphabet) for _ in range(size))
    return bytes([rng.randrange(256)]) * size


# ---------------------------------------------------------------------------------------------------
# deterministic "inflation" variants: one part of an accepted input blown up far beyond what any test uses
# ---------------------------------------------------------------------------------------------------

def _runs(data, predicate):
    """[(start, stop)] of the maximal runs of bytes satisfying predicate"""
    runs, start = [], None
    for index, byte in enumerate(data):
        if predicate(byte):
            if start is None:
                start = index
        elif start is not None:
            runs.append((start, index))
            start = None
    if start is not None:
        runs.append((start, len(data)))
    return runs


def inflations(data, limit=80):
    """Yield (name, variant): digit runs replaced by very long / extreme numbers, letter runs stretched past 63 and 255
    characters, years and zone offsets pushed to the edge of the calendar, brackets and quotes nested thousands deep.
    Text-shaped parts only (they exist inside binary messages too: host names, versions, ALPN names)."""
    out = []
    digits = _runs(data, lambda b: 0x30 <= b <= 0x39)
    for start, stop in digits[:6]:
        for name, replacement in (('digits-20', b'9' * 20), ('digits-400', b'9' * 400), ('digits-5000', b'9' * 5000),
                                  ('digits-zero', b'0'), ('digits-leading-zeros', b'0' * 300 + data[start:stop])):
            out.append((name, data[:start] + replacement + data[stop:]))
        if stop - start == 4:
            for year in (b'9999', b'0001', b'0000', b'1969', b'2038', b'10000'):
                out.append(('year-' + year.decode(), data[:start] + year + data[stop:]))
    letters = _runs(data, lambda b: 0x61 <= b <= 0x7a or 0x41 <= b <= 0x5a)
    for start, stop in letters[:6]:
        for count in (64, 256, 5000):
            out.append(('letters-%d' % count, data[:start] + data[start:start + 1] * count + data[stop:]))
    for offset in (b'+2359', b'-2359', b'+9999', b'-9999', b'+0000', b'-0001'):
        for zone in (b'GMT', b'UTC', b'+0000', b'Z'):
            position = data.find(zone)
            if position >= 0:
                out.append(('offset' + offset.decode(), data[:position] + offset + data[position + len(zone):]))
                break
    for zone in (b' GMT', b' UTC', b' +0000', b'Z'):
        position = data.find(zone)
        if position >= 0:
            out.append(('zone-removed', data[:position] + data[position + len(zone):]))       # a naive date
            break
    years = [(start, stop) for start, stop in digits if stop - start == 4]
    if years:
        start, stop = years[0]
        for zone in (b'GMT', b'UTC', b'+0000', b'Z'):
            position = data.find(zone, stop)
            if position >= 0:
                for year in (b'9999', b'0001'):
                    for offset in (b'-2359', b'+2359', b'-0100', b'+0100'):
                        out.append(('calendar-edge', data[:start] + year + data[stop:position] + offset + data[position + len(zone):]))
                break
    for opener, closer in ((b'[', b']'), (b'{"a":', b'}'), (b'(', b')'), (b'"', b'"'), (b'<', b'>')):
        position = data.find(opener[:1])
        if position >= 0:
            out.append(('nest-' + opener[:1].decode(), data[:position] + opener * 3000 + closer * 3000 + data[position:]))
    for position in [m for m in range(len(data)) if data[m:m + 1] in (b':', b'=')][:3]:
        out.append(('nest-after-separator', data[:position + 1] + b'[' * 3000 + b']' * 3000 + data[position + 1:]))
    return out[:limit] if limit else out


def field_extremes(data, fields):
    """Yield (name, variant) for numeric fields [(offset, width)]: all zero, all ones, sign boundary, with and without
    the rest of the input behind the field."""
    out = []
    for offset, width in fields:
        for name, value in (('ones', b'\xff' * width), ('zero', b'\x00' * width), ('max-signed', b'\x7f' + b'\xff' * (width - 1)),
                            ('min-signed', b'\x80' + b'\x00' * (width - 1)), ('one', b'\x00' * (width - 1) + b'\x01')):
            out.append(('field-%s' % name, data[:offset] + value + data[offset + width:]))
        out.append(('field-ones-cut', data[:offset] + b'\xff' * width))
    return out


UTF8_SNIPPETS = ('\u00e9'.encode('utf-8'), '\u65e5'.encode('utf-8'), '\U0001f511'.encode('utf-8'))


def utf8_substitutions(data, limit=24):
    """Yield (name, variant): inside runs of printable ASCII (text fields: names, identifiers, comments) two, three or
    four octets are replaced by one well-formed multi-octet UTF-8 character - at the start, in the middle and at the
    end of the run.  The length of the input and of every enclosing length field stays what it was, so the variant is
    framed exactly like the original; only the text stopped being ASCII."""
    data = bytes(data)
    produced = 0
    runs = [run for run in _runs(data, lambda byte: 0x20 <= byte < 0x7f) if run[1] - run[0] >= 2]
    # longest runs first: free text rather than short tags
    for start, stop in sorted(runs, key=lambda run: (run[0] - run[1], run[0]))[:8]:
        for snippet in UTF8_SNIPPETS:
            width = len(snippet)
            if stop - start < width:
                continue
            for position in sorted({start, start + (stop - start - width) // 2, stop - width}):
                if produced >= limit:
                    return
                produced += 1
                yield 'utf8-in-text', data[:position] + snippet + data[position + width:]


def field_sweeps(rng, data, fields, wide=96, narrow=24):
    """Yield (name, variant): many in-range values written into the fixed-width numeric fields [(offset, width)] of an
    accepted input, framing untouched.  Eight-byte fields get millisecond-scale values, in particular just above
    2^k seconds for k = 28..33 where the second count has crossed a power of two and the millisecond count has not
    (the windows in which float arithmetic on such values starts to round), four-byte fields random values and
    powers of two with their neighbours."""
    data = bytes(data)
    for offset, width in fields:
        values = []
        if width == 8:
            for exponent in range(28, 34):
                low, high = (1 << exponent) * 1000, 1 << (exponent + 10)
                values += [low, low + 1, high - 1] + [rng.randrange(low, high) for _ in range(max(1, wide // 8))]
            values += [rng.randrange(0, 1 << 41) for _ in range(wide // 4)] + [1001, 1009, 64987, 999, 1000]
        elif width == 4:
            values = [rng.getrandbits(32) for _ in range(narrow // 2)]
            for exponent in (8, 16, 24, 31):
                values += [(1 << exponent) - 1, 1 << exponent, (1 << exponent) + 1]
        else:
            continue
        for value in values:
            yield 'field-sweep-%d' % width, data[:offset] + value.to_bytes(width, 'big') + data[offset + width:]


def small_u64_windows(data, limit=4):
    """[(offset, 8)] of non-overlapping eight-byte windows that read as a positive number below 2^44 - how a 64-bit
    counter, serial or millisecond timestamp looks wherever it sits, also deep inside length-prefixed structures where
    cutting the input cannot locate it."""
    data = bytes(data)
    found, offset = [], 0
    while offset + 8 <= len(data) and len(found) < limit:
        if data[offset] == 0 and data[offset + 1] == 0 and data[offset + 2] < 0x10 and any(data[offset + 2:offset + 8]):
            found.append((offset, 8))
            # zero octets in front of the field make the alignment ambiguous: also the rightmost window that still
            # starts with two zero octets
            slid = offset
            while slid + 9 <= len(data) and data[slid + 1] == 0 and data[slid + 2] == 0 and data[slid + 3] < 0x10:
                slid += 1
            if slid != offset:
                found.append((slid, 8))
            offset = slid + 8
        else:
            offset += 1
    return found
