# -*- coding: utf-8 -*-
"""Valid pool: inputs known to be near the accepted language of each class (seed corpus of a fuzzer)."""
import json
import os

from vf.core import lib

_CACHE = {}


def corpus():
    """{class ref: [bytes, ...]} — the committed seed corpus (inputs of the repository's own unit tests)."""
    if 'corpus' not in _CACHE:
        path = os.path.join(os.path.dirname(os.path.abspath(__file__)), 'corpus.json')
        with open(path) as handle:
            data = json.load(handle)['inputs']
        _CACHE['corpus'] = {ref: [bytes.fromhex(h) for h in items] for ref, items in data.items()}
    return _CACHE['corpus']


def _mro_refs(cls):
    return [lib.ref_of(base) for base in cls.__mro__ if base.__module__.startswith('cryptoparser.')]


def seeds_for(cls, accepted_only=False):
    """Seeds of a class: its own corpus entries, those of its subclasses / base classes, and (for wrappers)
    those of the member types.  Sorted, de-duplicated."""
    key = (lib.ref_of(cls), accepted_only)
    if key in _CACHE:
        return _CACHE[key]
    data = corpus()
    found = set(data.get(lib.ref_of(cls), ()))
    for other in lib.all_classes():
        if other is not cls and (issubclass(other, cls) or issubclass(cls, other)):
            found.update(data.get(lib.ref_of(other), ()))
    # variant wrappers: inputs of the member types
    get_types = getattr(cls, '_get_variant_types', None)
    if get_types is not None:
        try:
            for member in get_types():
                found.update(data.get(lib.ref_of(member), ()))
        except Exception:  # pylint: disable=broad-except
            pass
    result = sorted(found, key=lambda b: (len(b), b))
    if accepted_only:
        result = [b for b in result if lib.call(cls.parse_immutable, b).ok]
    _CACHE[key] = result
    return result


def all_seeds():
    if 'all' not in _CACHE:
        everything = set()
        for items in corpus().values():
            everything.update(items)
        _CACHE['all'] = sorted(everything, key=lambda b: (len(b), b))
    return _CACHE['all']
