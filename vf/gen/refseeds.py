# -*- coding: utf-8 -*-
"""Wire inputs that do not come from the library's composer: reference-encoded models of the independent codecs
(vf/ref/tls.py, ssh.py, dns.py) drawn from the strategies of C06, C07 and C08 with a fixed seed.

The byte-level checks (C02, C03, C05, C14, C19) seed their mutators with unit-test inputs and with encodings composed
from generated objects.  Both sources share a blind spot: what the library cannot compose (any more) never becomes an
input.  These seeds are specification-conformant by construction and independent of compose()."""
from vf.core import hyp
from vf.core.stats import Stats

_CACHE = {}
SEED = 20240929
MAX_LEN = 4096
PER_CLASS = 10


def _add(table, name, wire):
    wire = bytes(wire)
    if 0 < len(wire) <= MAX_LEN:
        bucket = table.setdefault(name, [])
        if wire not in bucket and len(bucket) < 400:
            bucket.append(wire)


def _collect():
    table = {}
    try:
        from vf.props import c06  # pylint: disable=import-outside-toplevel

        def tls_case(case, _stats):
            model = c06._strip(case)  # pylint: disable=protected-access
            kind = model['kind']
            name = c06.ext_class_name(model, model['side']) if kind == 'extension' else c06.MESSAGE_CLASS[kind]
            _add(table, name, c06.R.encode(model))
            return ()
        hyp.explore(c06.strategies().any_case(), tls_case, Stats(), 700, SEED)
    except Exception:  # pylint: disable=broad-except
        pass
    try:
        from vf.props import c07  # pylint: disable=import-outside-toplevel

        def ssh_case(case, _stats):
            reference = c07.observe(case, Stats())
            if isinstance(reference, tuple):
                reference = reference[0]
            model = case['model']
            if case['kind'] == 'key':
                _add(table, c07.KEY_CLASSES[model['t']], reference)
                _add(table, 'SshHostPublicKeyVariant', reference)
            elif case['kind'] == 'message':
                _add(table, c07.MESSAGE_CLASSES[model['t']], reference)
            else:
                _add(table, 'SshProtocolMessage', reference)
            return ()
        hyp.explore(c07.st_case(), ssh_case, Stats(), 500, SEED)
    except Exception:  # pylint: disable=broad-except
        pass
    try:
        from vf.props import c08  # pylint: disable=import-outside-toplevel
        for kind, name in c08._CLASS.items():  # pylint: disable=protected-access
            def dns_case(case, _stats, name=name):
                _add(table, name, c08._reference_rdata(case))  # pylint: disable=protected-access
                return ()
            hyp.explore(c08.strategy_for(kind), dns_case, Stats(), 60, SEED)
    except Exception:  # pylint: disable=broad-except
        pass
    return table


def for_class(cls):
    """Up to PER_CLASS reference encodings the class accepts today, shortest and longest first (deterministic)."""
    from vf.core import lib  # pylint: disable=import-outside-toplevel
    if 'table' not in _CACHE:
        _CACHE['table'] = _collect()
    name = cls.__name__
    if name in _CACHE:
        return _CACHE[name]
    wires = sorted(_CACHE['table'].get(name, ()), key=lambda wire: (len(wire), wire))
    if len(wires) > PER_CLASS:
        step = max(1, len(wires) // PER_CLASS)
        wires = (wires[::step] + wires[-2:])[:PER_CLASS + 2]
    _CACHE[name] = [wire for wire in wires if lib.call(cls.parse_immutable, wire).ok]
    return _CACHE[name]
