# -*- coding: utf-8 -*-
"""CLI of every check:  python -m vf.run <ID> [--tier quick|thorough] [--replay FILE]

Exit codes: 0 property held on everything explored (KNOWN-FINDING lines allowed); 1 + a line
"VIOLATION property=<ID> replay=<path>" for a violation not listed in known_findings.json;
2 harness error (never a VIOLATION line).
"""
import argparse
import fnmatch
import glob
import importlib
import json
import os
import re
import sys
import time
import traceback

from vf.core import env
from vf.core.stats import Stats, jdump


class Ctx(object):
    def __init__(self, prop_id, tier, known):
        self.id = prop_id
        self.tier = tier
        self.seed = env.seed()
        self.known = known          # list of open known-finding entries of this property
        self.started = time.time()

    def is_known(self, key):
        return match_known(self.known, key) is not None

    def derive_seed(self, *parts):
        return env.derive_seed(self.id, *parts)

    @property
    def quick(self):
        return self.tier == 'quick'


def load_known(prop_id):
    if not os.path.exists(env.KNOWN_FINDINGS):
        return [], []
    with open(env.KNOWN_FINDINGS) as handle:
        data = json.load(handle)
    entries = [e for e in data.get('findings', []) if e.get('property') == prop_id]
    open_entries = [e for e in entries if e.get('status') == 'open']
    fixed_entries = [e for e in entries if e.get('status') == 'fixed']
    return open_entries, fixed_entries


def match_known(entries, key):
    for entry in entries:
        if entry['key'] == key or fnmatch.fnmatchcase(key, entry['key']):
            return entry
    return None


def safe_name(key):
    return re.sub(r'[^A-Za-z0-9_.=-]+', '_', key)[:150]


def write_replay(prop_id, key, entry, tier, found_by):
    directory = os.path.join(env.NEW_REPLAY_DIR, prop_id)
    os.makedirs(directory, exist_ok=True)
    path = os.path.join(directory, safe_name(key) + '.json')
    with open(path, 'w') as handle:
        json.dump({
            'property': prop_id, 'key': key, 'case': json.loads(jdump(entry['case'])),
            'detail': json.loads(jdump(entry.get('detail') or {})), 'seed': env.seed(), 'tier': tier,
            'found_by': found_by,
        }, handle, indent=1, sort_keys=True)
        handle.write('\n')
    return path


def write_evidence(module, ctx, stats, violations, known_hit):
    os.makedirs(env.EVIDENCE_DIR, exist_ok=True)
    coverage = {
        'evaluations': int(stats.evaluations),
        'distinct_nontrivial': stats.nontrivial_count(),
        'rule': module.RULE,
        'samples': stats.flat_samples(),
        'labels': dict(sorted(stats.labels.items())),
        'classes_covered': len(stats.classes),
        'per_class': dict(sorted(stats.classes.items())) if len(stats.classes) <= 600 else None,
        'known_findings_hit': known_hit,
        'budget_reached': bool(stats.budget_reached),
        'exhaustive': bool(stats.extra.pop('exhaustive', False)),
    }
    for name, value in sorted(stats.extra.items()):
        if name not in coverage:
            coverage[name] = json.loads(jdump(value))
    if stats.notes:
        coverage['notes'] = stats.notes[:50]
    evidence = {
        'property_id': ctx.id, 'tier': ctx.tier, 'seed': ctx.seed,
        'level': getattr(module, 'LEVEL', 'exploration'),
        'coverage': coverage,
        'assumptions': list(getattr(module, 'ASSUMPTIONS', [])),
        'wall_s': round(time.time() - ctx.started, 3),
        'violations': violations,
    }
    path = os.path.join(env.EVIDENCE_DIR, ctx.id + '.json')
    tmp = path + '.tmp'
    with open(tmp, 'w') as handle:
        handle.write(jdump(evidence) if False else json.dumps(json.loads(jdump(evidence)), indent=1, sort_keys=True))
        handle.write('\n')
    os.replace(tmp, path)
    return path


def replay_file(module, path):
    with open(path) as handle:
        data = json.load(handle)
    findings = list(module.check_case(data['case']) or ())
    return data, findings


def main(argv=None):
    parser = argparse.ArgumentParser()
    parser.add_argument('prop')
    parser.add_argument('--tier', default=os.environ.get('VERIF_TIER') or 'quick', choices=['quick', 'thorough'])
    parser.add_argument('--replay')
    args = parser.parse_args(argv)
    prop_id = args.prop.upper()

    try:
        env.bootstrap()
        module = importlib.import_module('vf.props.' + prop_id.lower())
        open_known, _fixed = load_known(prop_id)
    except BaseException:  # pylint: disable=broad-except
        traceback.print_exc()
        print('HARNESS-ERROR property=%s (setup)' % prop_id)
        return 2

    if args.replay:
        try:
            data, findings = replay_file(module, args.replay)
        except BaseException:  # pylint: disable=broad-except
            traceback.print_exc()
            print('HARNESS-ERROR property=%s (replay)' % prop_id)
            return 2
        status = 0
        if not findings:
            print('replay %s: no finding (property holds on this case)' % args.replay)
        for finding in findings:
            entry = match_known(open_known, finding.key)
            if entry is not None:
                print('KNOWN-FINDING: property=%s %s' % (prop_id, entry['what']))
            else:
                print('finding key=%s detail=%s' % (finding.key, jdump(finding.detail)[:600]))
                print('VIOLATION property=%s replay=%s' % (prop_id, args.replay))
                status = 1
        return status

    ctx = Ctx(prop_id, args.tier, open_known)
    stats = Stats()
    try:
        # 1. regression tier: committed minimal reproductions are replayed first
        replayed = 0
        for path in sorted(glob.glob(os.path.join(env.REPLAY_DIR, prop_id, '*.json'))):
            data, findings = replay_file(module, path)
            replayed += 1
            for finding in findings:
                stats.finding(finding, data['case'])
            if not any(f.key == data.get('key') for f in findings):
                stats.label('replay:not-reproduced')
            else:
                stats.label('replay:reproduced')
        stats.add('replays_run', replayed)
        # 2. generation
        stats.merge(module.run(ctx))
    except BaseException:  # pylint: disable=broad-except
        traceback.print_exc()
        print('HARNESS-ERROR property=%s' % prop_id)
        return 2

    status = 0
    known_hit = {}
    new_keys = []
    for key in sorted(stats.findings):
        entry = match_known(open_known, key)
        if entry is not None:
            slot = known_hit.setdefault(entry['key'], {'what': entry['what'], 'cases_excluded': 0, 'matched_keys': []})
            slot['cases_excluded'] += stats.findings[key]['count']
            if len(slot['matched_keys']) < 40:
                slot['matched_keys'].append(key)      # what a wildcard entry actually swallowed in this run
        else:
            new_keys.append(key)
    for key, slot in sorted(known_hit.items()):
        print('KNOWN-FINDING: property=%s %s [%d case(s) excluded]' % (prop_id, slot['what'], slot['cases_excluded']))

    violations = 0
    for key in new_keys[:int(os.environ.get('VERIF_MAX_NEW', '25'))]:
        entry = stats.findings[key]
        found_by = 'generation'
        if hasattr(module, 'shrink'):
            try:
                smaller = module.shrink(ctx, key, entry)
                if smaller is not None and smaller[0] is not None:
                    entry = dict(entry, case=smaller[0], detail=smaller[1] or entry.get('detail'))
                    found_by = 'generation+shrink'
            except BaseException:  # pylint: disable=broad-except
                traceback.print_exc()
        path = write_replay(prop_id, key, entry, ctx.tier, found_by)
        print('finding key=%s count=%d detail=%s' % (key, stats.findings[key]['count'], jdump(entry.get('detail'))[:600]))
        print('VIOLATION property=%s replay=%s' % (prop_id, path))
        violations += 1
        status = 1

    try:
        write_evidence(module, ctx, stats, violations, known_hit)
    except BaseException:  # pylint: disable=broad-except
        traceback.print_exc()
        print('HARNESS-ERROR property=%s (evidence)' % prop_id)
        return 2
    print('%s tier=%s seed=%d evaluations=%d distinct_nontrivial=%d known_hit=%d violations=%d wall=%.1fs%s' % (
        prop_id, ctx.tier, ctx.seed, stats.evaluations, stats.nontrivial_count(), len(known_hit), violations,
        time.time() - ctx.started, ' (budget reached)' if stats.budget_reached else ''))
    return status


if __name__ == '__main__':
    sys.exit(main())
