# -*- coding: utf-8 -*-
"""Coverage-guided fuzz target (atheris / libFuzzer) with the property's oracle inside.

    python -B -m vf.fuzz.target <C02|C03|C05> <shard> <nshards> <findings.jsonl> [libFuzzer arguments ...]

The first two bytes of an input select the parse target inside the shard, the rest is the payload.  The oracle is the
check_case() of the property module: a finding whose key was not yet seen in this process is appended (one JSON line:
key, detail, case) to the findings file and the target returns normally, so libFuzzer keeps searching behind it
(every key is excluded by construction after its first occurrence).  The target never raises.

atexit handlers do not run under libFuzzer, so everything is written as it happens.  libFuzzer's own SIGALRM time-out
must be off (-timeout=0): the watchdog of vf.core.targets owns SIGALRM."""
import json
import os
import sys


def _make_case(prop, target, payload):
    if prop == 'C05':
        return {'cls': target.name, 'hex': payload.hex(), 'origin': 'mutant'}
    return {'target': target.name, 'entry': 'immutable', 'hex': payload.hex()}


def shard_targets(prop, shard, nshards):
    from vf.core import targets  # pylint: disable=import-outside-toplevel
    every = targets.all_targets() if prop == 'C02' else targets.class_targets()
    return every[shard::nshards]


def main(argv):
    prop, shard, nshards, out_path = argv[1], int(argv[2]), int(argv[3]), argv[4]
    from vf.core import env  # pylint: disable=import-outside-toplevel
    env.bootstrap()
    import atheris  # pylint: disable=import-outside-toplevel,import-error
    with atheris.instrument_imports(include=['cryptoparser'], enable_loader_override=False):
        from vf.core import lib  # pylint: disable=import-outside-toplevel
        lib.all_classes()          # imports every cryptoparser module (instrumented)
    import importlib  # pylint: disable=import-outside-toplevel
    from vf.core import targets  # pylint: disable=import-outside-toplevel
    module = importlib.import_module('vf.props.' + prop.lower())
    mine = shard_targets(prop, shard, nshards)
    seen = set()
    out = open(out_path, 'a')
    counters = {'executions': 0, 'findings': 0}

    def test_one_input(data):
        if len(data) < 2 or not mine:
            return
        target = mine[((data[0] << 8) | data[1]) % len(mine)]
        case = _make_case(prop, target, data[2:])
        counters['executions'] += 1
        try:
            findings = module.check_case(case)
        except targets.Hang:
            findings = []           # non-termination is judged by C02 (hang/...) and C19, not here
            counters['hangs'] = counters.get('hangs', 0) + 1
        except BaseException as e:  # pylint: disable=broad-except
            findings = []
            key = 'harness-error:%s' % type(e).__name__
            if key not in seen:
                seen.add(key)
                out.write(json.dumps({'harness_error': repr(e)[:300], 'case': case}) + '\n')
                out.flush()
        for finding in findings:
            if finding.key not in seen:
                seen.add(finding.key)
                counters['findings'] += 1
                out.write(json.dumps({'key': finding.key, 'detail': finding.detail, 'case': case}, default=repr) + '\n')
                out.flush()

    atheris.Setup([argv[0]] + argv[5:], test_one_input)
    atheris.Fuzz()


if __name__ == '__main__':
    main(sys.argv)
