# -*- coding: utf-8 -*-
"""Launches the atheris campaigns of a thorough tier (vf.fuzz.target) and collects what they found.

Per shard two campaigns: one from a corpus of the shard's valid seeds (unit-test inputs and composed examples, each
prefixed with the two selector bytes of its target) and one from an empty corpus.  libFuzzer pins a campaign only
approximately (-seed, -runs); the reproducible unit is the saved case of every finding."""
import json
import os
import re
import shutil
import subprocess
import sys
import tempfile

from vf.core import env
from vf.core.stats import Finding


def available():
    try:
        sys.path.append(env.DEPS_DIR) if env.DEPS_DIR not in sys.path else None
        import atheris  # pylint: disable=import-outside-toplevel,unused-import,import-error
        return True
    except Exception:  # pylint: disable=broad-except
        return False


def _write_corpus(prop, shard, nshards, directory, max_len):
    from vf.fuzz.target import shard_targets  # pylint: disable=import-outside-toplevel
    from vf.gen import registry, seeds  # pylint: disable=import-outside-toplevel
    count = 0
    for index, target in enumerate(shard_targets(prop, shard, nshards)):
        base = list(seeds.seeds_for(target.seeds_class)) if target.seeds_class is not None else []
        if target.is_class:
            base += registry.composed_examples(target.cls)
        if target.seed_transform is not None:
            base = [target.seed_transform(b) for b in base]
        for number, data in enumerate(sorted(set(base), key=lambda b: (len(b), b))[:24]):
            if len(data) + 2 <= max_len:
                with open(os.path.join(directory, '%04d_%02d' % (index, number)), 'wb') as handle:
                    handle.write(bytes([(index >> 8) & 0xff, index & 0xff]) + data)
                count += 1
    return count


def run(prop, derive_seed, stats, nshards=16, runs=300000, max_len=4096, timeout_s=7200):
    """Run 2 * nshards campaigns (all shards in parallel, the seeded ones first), record findings into stats."""
    if not available():
        stats.notes.append('atheris is not importable: coverage-guided campaigns skipped')
        stats.extra['atheris'] = 'not available'
        return
    work = tempfile.mkdtemp(prefix='vf_atheris_', dir=env.SCRATCH_DIR if env.SCRATCH_DIR and os.path.isdir(env.SCRATCH_DIR) else None)
    summary = {'campaigns': 0, 'executions': 0, 'corpus_seed_files': 0, 'runs_per_campaign': runs, 'max_len': max_len,
               'new_units_added': 0}
    try:
        for flavour in ('seeded', 'empty'):
            procs = []
            for shard in range(nshards):
                corpus = os.path.join(work, '%s_%02d' % (flavour, shard))
                os.makedirs(corpus)
                if flavour == 'seeded':
                    summary['corpus_seed_files'] += _write_corpus(prop, shard, nshards, corpus, max_len)
                found = os.path.join(work, '%s_%02d.jsonl' % (flavour, shard))
                command = [sys.executable, '-B', '-m', 'vf.fuzz.target', prop, str(shard), str(nshards), found,
                           '-runs=%d' % runs, '-seed=%d' % (derive_seed('atheris', flavour, shard) % (2 ** 31 - 1) + 1),
                           '-max_len=%d' % max_len, '-timeout=0', '-rss_limit_mb=6144', '-print_final_stats=1',
                           '-verbosity=0', '-artifact_prefix=%s/' % work, corpus]
                procs.append((shard, found, subprocess.Popen(command, cwd=env.VERIF_DIR, stdout=subprocess.DEVNULL,
                                                             stderr=subprocess.PIPE, env=dict(os.environ))))
            for shard, found, proc in procs:
                try:
                    _out, err = proc.communicate(timeout=timeout_s)
                except subprocess.TimeoutExpired:
                    proc.kill()
                    _out, err = proc.communicate()
                    stats.notes.append('atheris campaign %s/%d stopped after %d s (inconclusive, not a violation)' % (flavour, shard, timeout_s))
                text = err.decode(errors='replace')
                summary['campaigns'] += 1
                match = re.search(r'stat::number_of_executed_units:\s*(\d+)', text)
                if match:
                    summary['executions'] += int(match.group(1))
                match = re.search(r'stat::new_units_added:\s*(\d+)', text)
                if match:
                    summary['new_units_added'] += int(match.group(1))
                if proc.returncode not in (0, None) and not os.path.exists(found):
                    raise RuntimeError('atheris campaign %s/%d failed (exit %s): %s' % (flavour, shard, proc.returncode, text[-1500:]))
                if os.path.exists(found):
                    for line in open(found):
                        entry = json.loads(line)
                        if 'harness_error' in entry:
                            raise RuntimeError('atheris target harness error: %s on %r' % (entry['harness_error'], entry['case']))
                        stats.finding(Finding(entry['key'], entry['detail']), entry['case'])
        stats.evaluations += summary['executions']
        stats.labels['atheris'] += summary['executions']
    finally:
        shutil.rmtree(work, ignore_errors=True)
    stats.extra['atheris'] = summary
