# -*- coding: utf-8 -*-
"""Catalogue of public parse entry points ("targets").  A target has a name (json-able reference) and up to
three callables with the library's parse_* signatures."""
import signal

from vf.core import lib


class Hang(Exception):
    pass


def _on_alarm(_signum, _frame):
    raise Hang()


class watchdog(object):  # pylint: disable=invalid-name
    """Turns a non-terminating library call into a Hang exception (main thread of a worker process)."""

    def __init__(self, seconds=20):
        self.seconds = seconds

    def __enter__(self):
        self._old = signal.signal(signal.SIGALRM, _on_alarm)
        signal.setitimer(signal.ITIMER_REAL, self.seconds)

    def __exit__(self, *exc):
        signal.setitimer(signal.ITIMER_REAL, 0)
        # a handler installed from C (libFuzzer) reads back as None and cannot be put back from Python
        signal.signal(signal.SIGALRM, self._old if self._old is not None else signal.SIG_DFL)
        return False


class Target(object):
    def __init__(self, name, cls=None, immutable=None, seeds_class=None, seed_transform=None):
        self.name = name
        self.seed_transform = seed_transform
        self.cls = cls
        self._immutable = immutable
        self.seeds_class = seeds_class or cls

    @property
    def is_class(self):
        return self.cls is not None

    def parse_immutable(self, data):
        if self.cls is not None:
            return self.cls.parse_immutable(data)
        return self._immutable(data)

    def parse_exact_size(self, data):
        return self.cls.parse_exact_size(data)

    def parse_mutable(self, data):
        return self.cls.parse_mutable(data)


_CACHE = {}


def class_targets():
    if 'classes' not in _CACHE:
        _CACHE['classes'] = [Target(lib.ref_of(cls), cls=cls) for cls in lib.concrete_classes()]
    return _CACHE['classes']


def extra_targets():
    """Public entry points that are not parse_* class methods but take peer-controlled bytes."""
    if 'extra' in _CACHE:
        return _CACHE['extra']
    from cryptoparser.tls.subprotocol import (  # pylint: disable=import-outside-toplevel
        SslMessageType, SslSubprotocolMessageParser, TlsContentType, TlsSubprotocolMessageParser,
        TlsHandshakeMessageVariant, SslHandshakeClientHello)
    from cryptoparser.dnsrec.record import DnsRecordDnskey  # pylint: disable=import-outside-toplevel
    from cryptodatahub.dnsrec.algorithm import DnsSecAlgorithm  # pylint: disable=import-outside-toplevel
    from cryptodatahub.common.algorithm import Signature  # pylint: disable=import-outside-toplevel
    out = []
    for member in TlsContentType:
        out.append(Target('entry:TlsSubprotocolMessageParser:' + member.name,
                          immutable=TlsSubprotocolMessageParser(member).parse, seeds_class=TlsHandshakeMessageVariant))
    for member in SslMessageType:
        out.append(Target('entry:SslSubprotocolMessageParser:' + member.name,
                          immutable=SslSubprotocolMessageParser(member).parse, seeds_class=SslHandshakeClientHello))
    for member in DnsSecAlgorithm:
        if not isinstance(member.value.algorithm, Signature):
            # DnsRecordDnskey refuses such algorithms in its constructor; parse_key is only reached through _parse
            continue

        def parse_key(data, _member=member):
            return DnsRecordDnskey.parse_key(data, _member), len(data)
        out.append(Target('entry:DnsRecordDnskey.parse_key:' + member.name, immutable=parse_key, seeds_class=DnsRecordDnskey,
                          seed_transform=lambda data: data[4:]))
    _CACHE['extra'] = out
    return out


def all_targets():
    return class_targets() + extra_targets()


def by_name(name):
    if 'index' not in _CACHE:
        _CACHE['index'] = {t.name: t for t in all_targets()}
    return _CACHE['index'][name]
