# -*- coding: utf-8 -*-
"""Mergeable run statistics: what was evaluated, what was non-trivial, which findings were seen."""
import collections
import hashlib
import json


def jdump(obj):
    return json.dumps(obj, sort_keys=True, separators=(',', ':'), default=_json_default)


def _json_default(obj):
    if isinstance(obj, (bytes, bytearray)):
        return {'hex': bytes(obj).hex()}
    if isinstance(obj, (set, frozenset)):
        return sorted(obj, key=repr)
    if isinstance(obj, tuple):
        return list(obj)
    return repr(obj)


def digest(obj):
    if not isinstance(obj, (bytes, bytearray)):
        obj = jdump(obj).encode()
    return int.from_bytes(hashlib.blake2b(bytes(obj), digest_size=8).digest(), 'big')


class Finding(object):
    """An observed deviation.  `key` is <clause>/<locus> (root-cause identity, never an input)."""
    __slots__ = ('key', 'detail')

    def __init__(self, key, detail=None):
        self.key = key
        self.detail = detail or {}

    def __repr__(self):
        return 'Finding(%r, %r)' % (self.key, self.detail)


class Stats(object):
    MAX_SAMPLES_PER_LABEL = 3
    MAX_SAMPLES = 40

    def __init__(self):
        self.evaluations = 0
        self.nontrivial = set()
        self.nontrivial_enumerated = 0   # distinct by construction (exhaustive enumerations)
        self.labels = collections.Counter()
        self.classes = collections.Counter()
        self.samples = {}          # label -> list of rendered cases
        self.findings = {}         # key -> {'case':…, 'detail':…, 'count': n, 'size': n}
        self.extra = {}            # free-form, merged by update()/sum for numbers
        self.budget_reached = False
        self.notes = []

    # -- recording -------------------------------------------------------------------------------
    def evaluated(self, n=1):
        self.evaluations += n

    def label(self, name, n=1):
        self.labels[name] += n

    def cls(self, name, n=1):
        self.classes[name] += n

    def nontriv(self, ident):
        """Record one non-trivial case, identified by bytes / json-able identity."""
        self.nontrivial.add(digest(ident))

    def nontrivial_count(self):
        return len(self.nontrivial) + self.nontrivial_enumerated

    def sample(self, label, rendered):
        lst = self.samples.setdefault(label, [])
        if len(lst) < self.MAX_SAMPLES_PER_LABEL:
            lst.append(rendered)

    def finding(self, finding, case):
        size = len(jdump(case))
        cur = self.findings.get(finding.key)
        if cur is None:
            self.findings[finding.key] = {'case': case, 'detail': finding.detail, 'count': 1, 'size': size}
        else:
            cur['count'] += 1
            if size < cur['size']:
                cur.update(case=case, detail=finding.detail, size=size)

    def add(self, name, n=1):
        self.extra[name] = self.extra.get(name, 0) + n

    # -- merging ---------------------------------------------------------------------------------
    def merge(self, other):
        self.evaluations += other.evaluations
        self.nontrivial |= other.nontrivial
        self.nontrivial_enumerated += other.nontrivial_enumerated
        self.labels.update(other.labels)
        self.classes.update(other.classes)
        for label, lst in other.samples.items():
            mine = self.samples.setdefault(label, [])
            for item in lst:
                if len(mine) < self.MAX_SAMPLES_PER_LABEL:
                    mine.append(item)
        for key, val in other.findings.items():
            cur = self.findings.get(key)
            if cur is None:
                self.findings[key] = dict(val)
            else:
                cur['count'] += val['count']
                if val['size'] < cur['size']:
                    cur.update(case=val['case'], detail=val['detail'], size=val['size'])
        for name, val in other.extra.items():
            if isinstance(val, (int, float)):
                self.extra[name] = self.extra.get(name, 0) + val
            elif isinstance(val, (set, frozenset)):
                self.extra[name] = set(self.extra.get(name, set())) | set(val)
            elif isinstance(val, dict):
                cur = self.extra.setdefault(name, {})
                for k, v in val.items():
                    if isinstance(v, (int, float)):
                        cur[k] = cur.get(k, 0) + v
                    else:
                        cur.setdefault(k, v)
            elif isinstance(val, list):
                self.extra.setdefault(name, []).extend(val)
            else:
                self.extra.setdefault(name, val)
        self.budget_reached = self.budget_reached or other.budget_reached
        self.notes.extend(other.notes)
        return self

    def flat_samples(self):
        out = []
        # round-robin over labels so that every label is represented
        labels = sorted(self.samples)
        depth = 0
        while len(out) < self.MAX_SAMPLES:
            added = False
            for label in labels:
                lst = self.samples[label]
                if depth < len(lst):
                    out.append({'label': label, 'case': lst[depth]})
                    added = True
                    if len(out) >= self.MAX_SAMPLES:
                        break
            if not added:
                break
            depth += 1
        return out
