# -*- coding: utf-8 -*-
"""Deterministic work meter: counts interpreter LINE events (all Python code executed by a call - cryptoparser and
its dependencies) and tracks the Python stack depth with sys.monitoring (PEP 669)."""
import sys

_TOOL = 4          # a free tool id (0 debugger, 1 coverage, 2 profiler, 5 optimizer are reserved names)


class Meter(object):
    def __init__(self):
        self.lines = 0
        self.depth = 0
        self.max_depth = 0
        self.limit = None
        self.exceeded = False

    def _on_line(self, _code, _line):
        self.lines += 1
        if self.limit is not None and self.lines > self.limit:
            # raised once now, and again only if the measured code swallows it and carries on: the lines of the
            # handlers that unwind (measure()'s own included) must not trip it a second time
            self.exceeded = True
            self.limit = self.lines + 50000
            raise WorkLimitExceeded()

    def _on_start(self, _code, _offset):
        self.depth += 1
        if self.depth > self.max_depth:
            self.max_depth = self.depth

    def _on_leave(self, _code, _offset, _value):
        self.depth -= 1

    def measure(self, func, *args, limit=None):
        """Run func(*args); return (outcome kind, lines, max depth).  Exceptions of func are swallowed except the
        meter's own WorkLimitExceeded, which is reported as kind 'limit'."""
        monitoring = sys.monitoring
        events = monitoring.events
        self.lines = 0
        self.depth = 0
        self.max_depth = 0
        self.limit = limit
        self.exceeded = False
        monitoring.use_tool_id(_TOOL, 'vf-meter')
        try:
            monitoring.register_callback(_TOOL, events.LINE, self._on_line)
            monitoring.register_callback(_TOOL, events.PY_START, self._on_start)
            monitoring.register_callback(_TOOL, events.PY_RETURN, self._on_leave)
            monitoring.register_callback(_TOOL, events.PY_UNWIND, self._on_leave)
            monitoring.set_events(_TOOL, events.LINE | events.PY_START | events.PY_RETURN | events.PY_UNWIND)
            try:
                func(*args)
                kind = 'ok'
            except WorkLimitExceeded:
                kind = 'limit'
            except RecursionError:
                kind = 'recursion'
            except BaseException as e:  # pylint: disable=broad-except
                kind = 'raises:' + type(e).__name__
        finally:
            monitoring.set_events(_TOOL, 0)
            for event in (events.LINE, events.PY_START, events.PY_RETURN, events.PY_UNWIND):
                monitoring.register_callback(_TOOL, event, None)
            monitoring.free_tool_id(_TOOL)
        return kind, self.lines, self.max_depth


class WorkLimitExceeded(BaseException):
    pass
