# -*- coding: utf-8 -*-
"""Uniform view of the code under test: class discovery, parse outcomes, structural equality."""
import collections
import datetime
import enum
import importlib
import inspect
import pkgutil
import traceback

import attr

_CACHE = {}

# Classes that are concrete for Python's ABC machinery but abstract in practice (no members / no fields /
# mix-in halves of a diamond).  They are excluded by the registry, never by catching their errors.
ABSTRACT_IN_PRACTICE = {
    'cryptoparser.common.base:StringEnumParsableBase': 'enum mix-in without members',
    'cryptoparser.common.base:StringEnumParsable': 'enum mix-in without members',
    'cryptoparser.common.base:StringEnumCaseInsensitiveParsable': 'enum mix-in without members',
    'cryptoparser.httpx.header:StringEnumHashParsableBase': 'enum mix-in without members',
    'cryptoparser.common.field:FieldsCommaSeparated': 'multi-field base without fields',
    'cryptoparser.common.field:FieldsSemicolonSeparated': 'multi-field base without fields',
    'cryptoparser.common.field:FieldsJson': 'multi-field base without fields',
    'cryptoparser.ssh.key:SshHostCertificateV00DSSBase': 'mix-in half of the certificate classes',
    'cryptoparser.ssh.key:SshHostCertificateV00RSABase': 'mix-in half of the certificate classes',
    'cryptoparser.ssh.key:SshHostCertificateV01DSSBase': 'mix-in half of the certificate classes',
    'cryptoparser.ssh.key:SshHostCertificateV01RSABase': 'mix-in half of the certificate classes',
    'cryptoparser.ssh.key:SshHostCertificateV01ECDSABase': 'mix-in half of the certificate classes',
    'cryptoparser.ssh.key:SshHostCertificateV01EDDSABase': 'mix-in half of the certificate classes',
}


def import_all():
    if 'imported' in _CACHE:
        return
    import cryptoparser  # pylint: disable=import-outside-toplevel
    for module in pkgutil.walk_packages(cryptoparser.__path__, 'cryptoparser.'):
        importlib.import_module(module.name)
    _CACHE['imported'] = True


def ref_of(cls):
    return '%s:%s' % (cls.__module__, cls.__qualname__)


def resolve(ref):
    module, name = ref.split(':')
    obj = importlib.import_module(module)
    for part in name.split('.'):
        obj = getattr(obj, part)
    return obj


def all_classes():
    """Every class reachable from ParsableBaseNoABC inside the cryptoparser package, sorted by reference."""
    if 'all' not in _CACHE:
        import_all()
        from cryptoparser.common.parse import ParsableBaseNoABC  # pylint: disable=import-outside-toplevel
        seen = set()
        stack = [ParsableBaseNoABC]
        while stack:
            for sub in stack.pop().__subclasses__():
                if sub not in seen:
                    seen.add(sub)
                    stack.append(sub)
        _CACHE['all'] = sorted((c for c in seen if c.__module__.startswith('cryptoparser.')), key=ref_of)
    return _CACHE['all']


def concrete_classes():
    if 'concrete' not in _CACHE:
        _CACHE['concrete'] = [
            c for c in all_classes() if not inspect.isabstract(c) and ref_of(c) not in ABSTRACT_IN_PRACTICE]
    return _CACHE['concrete']


def errors():
    if 'errors' not in _CACHE:
        from cryptodatahub.common.exception import InvalidValue  # pylint: disable=import-outside-toplevel
        from cryptoparser.common.exception import (  # pylint: disable=import-outside-toplevel
            InvalidDataLength, InvalidType, NotEnoughData, TooMuchData)
        _CACHE['errors'] = collections.namedtuple('Errors', 'InvalidValue InvalidType NotEnoughData TooMuchData InvalidDataLength documented')(
            InvalidValue, InvalidType, NotEnoughData, TooMuchData, InvalidDataLength,
            (InvalidValue, InvalidType, NotEnoughData, TooMuchData))
    return _CACHE['errors']


def innermost_repo_frame(exc):
    """module:function of the innermost frame inside the cryptoparser package (root-cause locus of a leak)."""
    locus = None
    for frame, _lineno in traceback.walk_tb(exc.__traceback__):
        filename = frame.f_code.co_filename.replace('\\', '/')
        if '/cryptoparser/' in filename:
            module = filename.split('/cryptoparser/', 1)[1].rsplit('.', 1)[0].replace('/', '.')
            locus = '%s:%s' % (module, getattr(frame.f_code, 'co_qualname', frame.f_code.co_name))
    return locus or 'outside-cryptoparser'


def raise_locus(exc):
    """Root-cause locus of an exception raised during serialisation: the innermost frame inside cryptoparser or
    cryptodatahub, marked when the exception was actually born deeper, in a third-party package."""
    locus, deeper = None, None
    for frame, _lineno in traceback.walk_tb(exc.__traceback__):
        filename = frame.f_code.co_filename.replace('\\', '/')
        for package in ('cryptoparser', 'cryptodatahub'):
            marker = '/%s/' % package
            if marker in filename and '/site-packages/' + package in filename + '/' or (package == 'cryptoparser' and marker in filename):
                module = filename.split(marker, 1)[1].rsplit('.', 1)[0].replace('/', '.')
                locus = '%s.%s:%s' % (package, module, getattr(frame.f_code, 'co_qualname', frame.f_code.co_name))
                deeper = None
                break
        else:
            if '/site-packages/' in filename:
                deeper = filename.split('/site-packages/', 1)[1].split('/')[0]
    if locus is None:
        return 'outside'
    return locus + ('<-' + deeper if deeper else '')


class Outcome(object):
    """Result of one library call: ('ok', value) | ('documented', exception) | ('leak', exception)."""
    __slots__ = ('kind', 'value', 'exc')

    def __init__(self, kind, value=None, exc=None):
        self.kind, self.value, self.exc = kind, value, exc

    @property
    def ok(self):
        return self.kind == 'ok'

    def signature(self):
        if self.kind == 'ok':
            return 'ok'
        return '%s:%s' % (self.kind, type(self.exc).__name__)


def call(func, *args, **kwargs):
    try:
        return Outcome('ok', func(*args, **kwargs))
    except errors().documented as e:
        return Outcome('documented', exc=e)
    except (KeyboardInterrupt, SystemExit, MemoryError):
        raise
    except BaseException as e:  # pylint: disable=broad-except
        return Outcome('leak', exc=e)


# ---------------------------------------------------------------------------------------------------
# structural equality
# ---------------------------------------------------------------------------------------------------

def _fields_of(obj):
    """Ordered (name, value) pairs that make up the state of a library object."""
    cls = type(obj)
    if attr.has(cls):
        return [(f.name, getattr(obj, f.name)) for f in attr.fields(cls)]
    if hasattr(obj, '__dict__'):
        return sorted(vars(obj).items())
    return None


def dump(obj, depth=0):
    """Deterministic, json-able structural dump of a library object (private fields included)."""
    if depth > 40:
        return '<depth>'
    if obj is None or isinstance(obj, (bool, int, str)):
        return obj
    if isinstance(obj, float):
        return repr(obj)
    if isinstance(obj, (bytes, bytearray)):
        return {'bytes': bytes(obj).hex()}
    if isinstance(obj, enum.Enum):
        return {'enum': '%s.%s' % (type(obj).__name__, obj.name)}
    if isinstance(obj, datetime.datetime):
        try:
            if obj.tzinfo is not None:
                return {'datetime': obj.astimezone(datetime.timezone.utc).isoformat(), 'aware': True}
            return {'datetime': obj.isoformat(), 'aware': False}
        except (ValueError, OverflowError, TypeError):
            return {'datetime': repr(obj.replace(tzinfo=None)), 'tzinfo': repr(obj.tzinfo)}
    if isinstance(obj, datetime.timedelta):
        return {'timedelta': obj.total_seconds()}
    if isinstance(obj, (set, frozenset)):
        return {'set': sorted((dump(i, depth + 1) for i in obj), key=repr)}
    if isinstance(obj, dict):
        return {'dict': [[dump(k, depth + 1), dump(v, depth + 1)] for k, v in obj.items()],
                'ordered': isinstance(obj, collections.OrderedDict)}
    if isinstance(obj, (list, tuple)):
        return [dump(i, depth + 1) for i in obj]
    from cryptoparser.common.base import ArrayBase  # pylint: disable=import-outside-toplevel
    if isinstance(obj, ArrayBase):
        return {'class': type(obj).__name__, 'items': [dump(i, depth + 1) for i in obj],
                'recorded_size': getattr(obj, '_items_size', None)}
    if type(obj).__module__.startswith('asn1crypto') and hasattr(obj, 'dump'):
        try:
            return {'der': obj.dump().hex()}
        except Exception as e:  # pylint: disable=broad-except
            return {'der-error': repr(e)}
    fields = _fields_of(obj)
    if fields is not None and type(obj).__module__.split('.')[0] in ('cryptoparser', 'cryptodatahub', 'vf'):
        return {'class': type(obj).__name__, 'fields': [[n, dump(v, depth + 1)] for n, v in fields]}
    return {'repr': repr(obj), 'type': type(obj).__name__}


def _norm_seq(value):
    return list(value)


def diff(a, b, path=''):
    """First structural difference between two library values, or None.  bytes == bytearray, list == tuple,
    vectors by items, attrs objects field by field, datetimes as instants (naive == naive only)."""
    from cryptoparser.common.base import ArrayBase  # pylint: disable=import-outside-toplevel
    if a is b:
        return None
    if isinstance(a, (bytes, bytearray)) and isinstance(b, (bytes, bytearray)):
        return None if bytes(a) == bytes(b) else path + ': bytes differ'
    if isinstance(a, enum.Enum) or isinstance(b, enum.Enum):
        return None if a is b or (type(a) is type(b) and a == b) else '%s: %r != %r' % (path, _short(a), _short(b))
    if isinstance(a, bool) or isinstance(b, bool):
        # True == 1 for the library's own == as well; only the value is compared
        return None if (isinstance(a, (bool, int)) and isinstance(b, (bool, int)) and a == b) else '%s: %r != %r' % (path, a, b)
    if isinstance(a, (int, float, str)) and isinstance(b, (int, float, str)):
        if type(a) is not type(b) and not (isinstance(a, (int, float)) and isinstance(b, (int, float))):
            return '%s: type %s != %s' % (path, type(a).__name__, type(b).__name__)
        return None if a == b else '%s: %r != %r' % (path, _short(a), _short(b))
    if isinstance(a, datetime.datetime) and isinstance(b, datetime.datetime):
        if (a.tzinfo is None) != (b.tzinfo is None):
            return path + ': naive vs aware datetime'
        try:
            return None if a == b else '%s: %s != %s' % (path, a.isoformat(), b.isoformat())
        except (ValueError, OverflowError, TypeError) as e:      # e.g. a tzinfo with an offset beyond 24 h
            return None if a is b else '%s: datetimes cannot be compared (%r)' % (path, e)
    if isinstance(a, ArrayBase) or isinstance(b, ArrayBase):
        if type(a) is not type(b):
            # a vector and a plain sequence holding the same items are different kinds of value
            return '%s: class %s != %s' % (path, type(a).__name__, type(b).__name__)
        return diff(list(a), list(b), path)
    if isinstance(a, (list, tuple)) and isinstance(b, (list, tuple)):
        if len(a) != len(b):
            return '%s: length %d != %d' % (path, len(a), len(b))
        for index, (x, y) in enumerate(zip(a, b)):
            found = diff(x, y, '%s[%d]' % (path, index))
            if found:
                return found
        return None
    if isinstance(a, (set, frozenset)) and isinstance(b, (set, frozenset)):
        da = sorted((repr(dump(i)) for i in a))
        db = sorted((repr(dump(i)) for i in b))
        return None if da == db else path + ': sets differ'
    if isinstance(a, dict) and isinstance(b, dict):
        if isinstance(a, collections.OrderedDict) and isinstance(b, collections.OrderedDict):
            ka, kb = list(a), list(b)
        else:
            ka, kb = sorted(a, key=repr), sorted(b, key=repr)
        if [repr(dump(k)) for k in ka] != [repr(dump(k)) for k in kb]:
            return path + ': dict keys differ'
        for x, y in zip(ka, kb):
            found = diff(a[x], b[y], '%s[%r]' % (path, _short(x)))
            if found:
                return found
        return None
    if type(a) is not type(b):
        return '%s: class %s != %s' % (path, type(a).__name__, type(b).__name__)
    if type(a).__module__.startswith('asn1crypto') and hasattr(a, 'dump'):
        try:
            return None if a.dump() == b.dump() else path + ': DER differs'
        except Exception as e:  # pylint: disable=broad-except
            return '%s: dump() raised %r' % (path, e)
    fields_a, fields_b = _fields_of(a), _fields_of(b)
    if fields_a is not None and fields_b is not None and \
            type(a).__module__.split('.')[0] in ('cryptoparser', 'cryptodatahub'):
        if [n for n, _ in fields_a] != [n for n, _ in fields_b]:
            return path + ': field names differ'
        for (name, x), (_, y) in zip(fields_a, fields_b):
            found = diff(x, y, '%s.%s' % (path, name))
            if found:
                return found
        return None
    try:
        return None if a == b else '%s: %s != %s' % (path, _short(a), _short(b))
    except Exception as e:  # pylint: disable=broad-except
        return '%s: == raised %r' % (path, e)


def _short(value):
    if isinstance(value, enum.Enum):
        return '%s.%s' % (type(value).__name__, value.name)
    text = repr(value)
    return text if len(text) <= 80 else text[:77] + '...'


def defines_eq(cls):
    """True when the class (or a library base) defines __eq__, i.e. == is part of what the code claims."""
    for base in cls.__mro__:
        if base is object:
            return False
        if '__eq__' in vars(base):
            return True
    return False


def graph_has_class_without_eq(obj, depth=0):
    """True when a library object without __eq__ (e.g. LanguageTag) is reachable: then == of the enclosing
    object compares identities somewhere and says nothing about field-by-field equality."""
    from cryptoparser.common.base import ArrayBase  # pylint: disable=import-outside-toplevel
    if depth > 30 or obj is None or isinstance(obj, (bool, int, float, str, bytes, bytearray, enum.Enum,
                                                      datetime.datetime, datetime.timedelta)):
        return False
    if isinstance(obj, (list, tuple, set, frozenset, ArrayBase)):
        return any(graph_has_class_without_eq(item, depth + 1) for item in obj)
    if isinstance(obj, dict):
        return any(graph_has_class_without_eq(item, depth + 1) for item in obj.values())
    module = type(obj).__module__
    if module.startswith('cryptoparser.') or module.startswith('cryptodatahub.'):
        if not defines_eq(type(obj)):
            return True
        fields = _fields_of(obj) or []
        return any(graph_has_class_without_eq(value, depth + 1) for _name, value in fields)
    return not defines_eq(type(obj))


def same(a, b):
    """'equal, field by field': structural equality, plus the library's own == where it defines one (and where
    every nested library object defines one too)."""
    found = diff(a, b)
    if found:
        return found
    if type(a) is type(b) and defines_eq(type(a)) and not isinstance(a, (int, float, str, bytes, bytearray)) \
            and not graph_has_class_without_eq(a):
        try:
            if not a == b:
                return '==: structurally equal objects compare unequal'
        except Exception as e:  # pylint: disable=broad-except
            return '==: raised %r' % (e,)
    return None


def field_of_diff(text):
    """'.a.b[3].c: x != y' -> 'a.b.c' (for finding keys)."""
    import re  # pylint: disable=import-outside-toplevel
    head = text.split(':', 1)[0]
    head = re.sub(r'\[[^\]]*\]', '', head).strip('.')
    return head or '-'


def library_exceptions_are_findings(check_case):
    """Wrap a check_case(): an exception *born inside the library* (innermost frame in cryptoparser / cryptodatahub)
    that an adapter of the harness did not expect - a constructor refusing an in-domain value, an accessor raising -
    is reported as a finding of its own root cause instead of ending the run as a harness error.  Exceptions born in
    harness code (wrong keyword, failed self-check of a reference codec) still end the run with exit 2."""
    import functools  # pylint: disable=import-outside-toplevel
    from vf.core.stats import Finding  # pylint: disable=import-outside-toplevel

    @functools.wraps(check_case)
    def guarded(case, *args, **kwargs):
        try:
            return check_case(case, *args, **kwargs)
        except AssertionError:
            raise
        except Exception as exc:  # pylint: disable=broad-except
            if type(exc).__name__ in ('Hang', 'WorkLimitExceeded', 'NotACase', 'HarnessError', 'BuildError'):
                raise
            innermost = None
            for frame, _lineno in traceback.walk_tb(exc.__traceback__):
                innermost = frame.f_code.co_filename.replace('\\', '/')
            if innermost is None or not ('/cryptoparser/' in innermost or '/cryptodatahub/' in innermost):
                raise
            return [Finding('library-raises:%s@%s' % (type(exc).__name__, raise_locus(exc)),
                            {'error': repr(exc)[:300], 'case_kind': case.get('kind') if isinstance(case, dict) else None})]
    return guarded
