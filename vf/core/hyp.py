# -*- coding: utf-8 -*-
"""Hypothesis drivers.

explore(): generate cases, evaluate them, *collect* findings by key and keep going (Hypothesis stops
at the first failure otherwise, which would hide everything behind a shallow defect).
shrink(): for one new finding key, re-run the same seeded generation with the property "no finding
with this key" so that Hypothesis shrinks exactly that root cause; time-boxed.
"""
import time

import hypothesis
from hypothesis import HealthCheck, Phase, given, settings

from vf.core.stats import Stats, jdump

_SUPPRESS = [HealthCheck.too_slow, HealthCheck.data_too_large, HealthCheck.large_base_example,
             HealthCheck.function_scoped_fixture, HealthCheck.differing_executors]
if hasattr(HealthCheck, 'nested_given'):
    _SUPPRESS.append(HealthCheck.nested_given)


class _Stop(Exception):
    pass


class _Found(Exception):
    pass


def _settings(max_examples, phases):
    return settings(
        max_examples=max_examples, database=None, deadline=None, derandomize=False,
        report_multiple_bugs=False, suppress_health_check=_SUPPRESS, phases=phases,
        print_blob=False, verbosity=hypothesis.Verbosity.quiet,
        stateful_step_count=50,
    )


def explore(strategy, case_fn, stats, max_examples, seed_value, budget_s=None):
    """case_fn(case, stats) -> iterable of Finding.  Returns number of examples executed."""
    started = time.time()
    executed = [0]

    @hypothesis.seed(seed_value)
    @_settings(max_examples, [Phase.generate])
    @given(strategy)
    def prop(case):
        if budget_s is not None and time.time() - started > budget_s:
            stats.budget_reached = True
            raise _Stop()
        executed[0] += 1
        for finding in case_fn(case, stats) or ():
            stats.finding(finding, case)

    try:
        prop()
    except _Stop:
        pass
    except hypothesis.errors.Flaky:  # raised when the replay of _Stop differs — budget only
        if not stats.budget_reached:
            raise
    return executed[0]


def shrink(strategy, case_fn, key, max_examples, seed_value, box_s=30.0, match=None):
    """Return the smallest case (json size) that still yields finding `key`, or None."""
    started = time.time()
    best = {'case': None, 'size': None, 'detail': None}
    match = match or (lambda finding: finding.key == key)

    @hypothesis.seed(seed_value)
    @_settings(max_examples, [Phase.generate, Phase.shrink])
    @given(strategy)
    def prop(case):
        if best['size'] is not None and time.time() - started > box_s:
            # box expired: only the recorded minimum keeps failing, so Hypothesis terminates
            if jdump(case) == best['json']:
                raise _Found()
            return
        scratch = Stats()
        hit = None
        for finding in case_fn(case, scratch) or ():
            if match(finding):
                hit = finding
                break
        if hit is None:
            return
        text = jdump(case)
        if best['size'] is None or len(text) <= best['size']:
            best.update(case=case, size=len(text), detail=hit.detail, json=text)
        raise _Found()

    try:
        prop()
    except _Found:
        pass
    except hypothesis.errors.HypothesisException:
        pass
    return best['case'], best['detail']
