# -*- coding: utf-8 -*-
"""Process environment of a check run: paths, seed, tier, import of the code under test.

Everything a check needs to know about *where* it runs lives here so that the property modules are
pure functions of (code under test, VERIF_SEED, tier).
"""
import hashlib
import os
import sys
import warnings

VERIF_DIR = os.path.dirname(os.path.dirname(os.path.dirname(os.path.abspath(__file__))))
REPO_DIR = os.environ.get('VERIF_REPO', '/repo')
DEPS_DIR = os.path.join(VERIF_DIR, '.deps')
CACHE_DIR = os.path.join(VERIF_DIR, '.cache')
# VERIF_SCRATCH (developer runs against seeded changes only): evidence and new replay files are written there so
# that an experiment never touches the committed evidence / regression replays
SCRATCH_DIR = os.environ.get('VERIF_SCRATCH')
EVIDENCE_DIR = os.path.join(SCRATCH_DIR or VERIF_DIR, 'evidence')
REPLAY_DIR = os.path.join(VERIF_DIR, 'replays')
NEW_REPLAY_DIR = os.path.join(SCRATCH_DIR, 'replays') if SCRATCH_DIR else REPLAY_DIR
KNOWN_FINDINGS = os.path.join(VERIF_DIR, 'known_findings.json')
GUARD = 'CRYPTOPARSER_VERIF'

NPROC = int(os.environ.get('VERIF_NPROC', '0')) or min(16, os.cpu_count() or 1)


def seed():
    try:
        return int(os.environ.get('VERIF_SEED', '1'))
    except ValueError:
        return 1


def derive_seed(*parts):
    """Deterministic 63-bit seed derived from VERIF_SEED and the given parts (id, shard, ...)."""
    text = ':'.join([str(seed())] + [str(p) for p in parts])
    return int.from_bytes(hashlib.sha256(text.encode()).digest()[:8], 'big') >> 1


def bootstrap():
    """Make `cryptoparser` importable from REPO_DIR's *working tree* and nothing else.

    The repository is installed in editable mode in /venv, so a plain import already resolves to
    /repo; for the mutant self-test VERIF_REPO points somewhere else and must win.  Nothing is ever
    written into the repository (no byte code).
    """
    sys.dont_write_bytecode = True
    warnings.simplefilter('ignore')     # dateutil warns about unknown zone names on fuzzed dates
    os.environ.setdefault('PYTHONDONTWRITEBYTECODE', '1')
    os.environ[GUARD] = '1'
    if REPO_DIR not in sys.path:
        sys.path.insert(0, REPO_DIR)
    if os.path.isdir(DEPS_DIR) and DEPS_DIR not in sys.path:
        sys.path.append(DEPS_DIR)
    import cryptoparser  # pylint: disable=import-outside-toplevel
    real = os.path.realpath(os.path.dirname(os.path.dirname(cryptoparser.__file__)))
    if real != os.path.realpath(REPO_DIR):
        raise RuntimeError('cryptoparser imported from %s, expected %s' % (real, REPO_DIR))
    return cryptoparser
