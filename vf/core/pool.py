# -*- coding: utf-8 -*-
"""Sharded execution.  Hypothesis and the byte mutators are single-core; a check splits its work
into shards (function + json-able argument), each shard gets its own derived seed, and the partial
Stats are merged in shard order so the merged result does not depend on scheduling."""
import concurrent.futures
import multiprocessing
import os
import time
import traceback

from vf.core import env
from vf.core.stats import Stats


class HarnessError(Exception):
    pass


def _call(job):
    func, arg, index = job
    started = time.time()
    try:
        stats = func(arg)
        if not isinstance(stats, Stats):
            raise HarnessError('shard function %r returned %r' % (func, type(stats)))
        stats.add('shard_wall_s', time.time() - started)
        return index, stats, None
    except BaseException:  # pylint: disable=broad-except
        return index, None, traceback.format_exc()


def run_shards(func, args, nproc=None):
    """Run func(arg) for every arg (possibly in parallel) and merge the returned Stats."""
    nproc = nproc or env.NPROC
    jobs = [(func, arg, index) for index, arg in enumerate(args)]
    results = [None] * len(jobs)
    if nproc <= 1 or len(jobs) <= 1 or os.environ.get('VERIF_SERIAL'):
        for job in jobs:
            index, stats, err = _call(job)
            if err:
                raise HarnessError('shard %d failed:\n%s' % (index, err))
            results[index] = stats
    else:
        # an executor, not multiprocessing.Pool: a worker that dies (killed, crashed interpreter) breaks the executor
        # and is reported as a harness error, whereas Pool would wait for the lost task forever
        ctx = multiprocessing.get_context('fork')
        with concurrent.futures.ProcessPoolExecutor(max_workers=min(nproc, len(jobs)), mp_context=ctx) as executor:
            futures = [executor.submit(_call, job) for job in jobs]
            try:
                for future in concurrent.futures.as_completed(futures):
                    index, stats, err = future.result()
                    if err:
                        raise HarnessError('shard %d failed:\n%s' % (index, err))
                    results[index] = stats
            except BaseException:
                for future in futures:
                    future.cancel()
                for process in list(getattr(executor, '_processes', {}).values()):
                    process.terminate()
                raise
    merged = Stats()
    for stats in results:
        merged.merge(stats)
    return merged
