# -*- coding: utf-8 -*-
"""Independent reference codec for DNS record data (RDATA), written from the RFC text.

No cryptoparser / cryptodatahub imports: plain ints, bytes, lists and dicts only.

    domain names (uncompressed)   RFC 1035 section 3.1
    MX, TXT                       RFC 1035 sections 3.3.9, 3.3.14
    DNSKEY, RRSIG, DS             RFC 4034 sections 2, 3, 5
    key tag                       RFC 4034 Appendix B (the C function) and B.1 (algorithm 1)
    RSA public keys               RFC 3110 section 2 (RFC 2537 for RSA/MD5: same layout)
    DSA public keys               RFC 2536 section 2
    GOST R 34.10-2001 keys        RFC 5933 section 2.1 (little-endian x, then little-endian y)
    ECDSA P-256 / P-384 keys      RFC 6605 section 4 (x | y, fixed width, big-endian)
    Ed25519 / Ed448 keys          RFC 8080 section 3 (32 / 57 octets)

A *model* of a record is a dict of ints/bytes/lists (see the encode_* functions).  Every encoder has a strict
decoder which accepts exactly the conformant encodings (no leftover octets, no leading zero octets where the RFC
prohibits them, fixed sizes where the RFC fixes them).
"""


class RefError(ValueError):
    """Input is not a conformant encoding / model is not encodable."""


# --------------------------------------------------------------------------------------------------------------------
# algorithm numbers (IANA "DNS Security Algorithm Numbers") and the public key format each of them uses

ALG_RSAMD5 = 1
ALG_DSA = 3
ALG_RSASHA1 = 5
ALG_DSA_NSEC3_SHA1 = 6
ALG_RSASHA1_NSEC3_SHA1 = 7
ALG_RSASHA256 = 8
ALG_RSASHA512 = 10
ALG_ECC_GOST = 12
ALG_ECDSAP256SHA256 = 13
ALG_ECDSAP384SHA384 = 14
ALG_ED25519 = 15
ALG_ED448 = 16

KEY_FORMAT = {
    ALG_RSAMD5: 'rsa',                  # RFC 2537 / RFC 4034 A.1
    ALG_DSA: 'dsa',                     # RFC 2536
    ALG_RSASHA1: 'rsa',                 # RFC 3110
    ALG_DSA_NSEC3_SHA1: 'dsa',          # RFC 5155 section 2: alias of algorithm 3
    ALG_RSASHA1_NSEC3_SHA1: 'rsa',      # RFC 5155 section 2: alias of algorithm 5
    ALG_RSASHA256: 'rsa',               # RFC 5702 section 2: format of RFC 3110
    ALG_RSASHA512: 'rsa',               # RFC 5702 section 2
    ALG_ECC_GOST: 'gost',               # RFC 5933
    ALG_ECDSAP256SHA256: 'ecdsa',       # RFC 6605
    ALG_ECDSAP384SHA384: 'ecdsa',       # RFC 6605
    ALG_ED25519: 'eddsa',               # RFC 8080
    ALG_ED448: 'eddsa',                 # RFC 8080
}

ECDSA_COORDINATE_OCTETS = {ALG_ECDSAP256SHA256: 32, ALG_ECDSAP384SHA384: 48}
EDDSA_KEY_OCTETS = {ALG_ED25519: 32, ALG_ED448: 57}
GOST_COORDINATE_OCTETS = 32

# RFC 4034 section 2.1.1 (bit 7 = Zone Key, bit 15 = Secure Entry Point), RFC 5011 section 2.1 (bit 8 = REVOKE);
# bit 0 is the most significant bit of the 16-bit field.
FLAG_ZONE_KEY = 0x0100
FLAG_REVOKE = 0x0080
FLAG_SEP = 0x0001

# IANA "DS RR Type Digest Algorithms": digest type -> digest size
DS_DIGEST_OCTETS = {1: 20, 2: 32, 3: 32, 4: 48}

# Curve equations y^2 = x^3 + a*x + b (mod p) of the curves whose points are carried by algorithms 12, 13, 14.
# P-256 / P-384: FIPS 186-4 D.1.2.3 / D.1.2.4.  GOST: id-GostR3410-2001-CryptoPro-A-ParamSet, RFC 4357 section 11.4.
CURVES = {
    ALG_ECDSAP256SHA256: {
        'p': 0xffffffff00000001000000000000000000000000ffffffffffffffffffffffff,
        'a': 0xffffffff00000001000000000000000000000000fffffffffffffffffffffffc,
        'b': 0x5ac635d8aa3a93e7b3ebbd55769886bc651d06b0cc53b0f63bce3c3e27d2604b,
        'gx': 0x6b17d1f2e12c4247f8bce6e563a440f277037d812deb33a0f4a13945d898c296,
        'gy': 0x4fe342e2fe1a7f9b8ee7eb4a7c0f9e162bce33576b315ececbb6406837bf51f5,
    },
    ALG_ECDSAP384SHA384: {
        'p': 2 ** 384 - 2 ** 128 - 2 ** 96 + 2 ** 32 - 1,
        'a': 2 ** 384 - 2 ** 128 - 2 ** 96 + 2 ** 32 - 1 - 3,
        'b': 0xb3312fa7e23ee7e4988e056be3f82d19181d9c6efe8141120314088f5013875ac656398d8a2ed19d2a85c8edd3ec2aef,
        'gx': 0xaa87ca22be8b05378eb1c71ef320ad746e1d3b628ba79b9859f741e082542a385502f25dbf55296c3a545e3872760ab7,
        'gy': 0x3617de4a96262c6f5d9e98bf9292dc29f8f41dbd289a147ce9da3113b5f0b8c00a60b1ce1d7e819d7a431d7c90ea0e5f,
    },
    ALG_ECC_GOST: {
        'p': 2 ** 256 - 617,
        'a': 2 ** 256 - 617 - 3,
        'b': 166,
        'gx': 1,
        'gy': 0x8d91e471e0989cda27df505a453f2b7635294f2ddf23e3b122acc99c9e9f1e14,
    },
}


def on_curve(algorithm, x, y):
    curve = CURVES[algorithm]
    p = curve['p']
    return 0 <= x < p and 0 <= y < p and (y * y - (x * x * x + curve['a'] * x + curve['b'])) % p == 0


def curve_y(algorithm, x):
    """One root y of the curve equation at x, or None when x is not the abscissa of a point (all p = 3 mod 4)."""
    curve = CURVES[algorithm]
    p = curve['p']
    rhs = (x * x * x + curve['a'] * x + curve['b']) % p
    y = pow(rhs, (p + 1) // 4, p)
    if (y * y) % p != rhs:
        return None
    return y


# --------------------------------------------------------------------------------------------------------------------
# integers

def _u(value, size, what):
    if not isinstance(value, int) or isinstance(value, bool) or not 0 <= value < (1 << (8 * size)):
        raise RefError('%s out of range for %d octets: %r' % (what, size, value))
    return value.to_bytes(size, 'big')


def _minimal(value, what):
    """Unsigned big-endian integer without leading zero octets (RFC 3110: "leading zero octets are prohibited")."""
    if not isinstance(value, int) or value < 1:
        raise RefError('%s must be a positive integer' % what)
    return value.to_bytes((value.bit_length() + 7) // 8, 'big')


class _Reader(object):
    def __init__(self, data):
        self.data = bytes(data)
        self.pos = 0

    def take(self, count, what):
        if count < 0 or self.pos + count > len(self.data):
            raise RefError('truncated %s' % what)
        chunk = self.data[self.pos:self.pos + count]
        self.pos += count
        return chunk

    def u(self, size, what):
        return int.from_bytes(self.take(size, what), 'big')

    def rest(self):
        chunk = self.data[self.pos:]
        self.pos = len(self.data)
        return chunk

    def end(self, what):
        if self.pos != len(self.data):
            raise RefError('%d octet(s) after %s' % (len(self.data) - self.pos, what))


# --------------------------------------------------------------------------------------------------------------------
# RFC 1035 section 3.1: domain names, uncompressed

MAX_LABEL_OCTETS = 63
MAX_NAME_OCTETS = 255


def encode_name(labels):
    """labels: list of byte strings (1..63 octets each); the root label terminates the name."""
    out = bytearray()
    for label in labels:
        label = bytes(label)
        if not 1 <= len(label) <= MAX_LABEL_OCTETS:
            raise RefError('label of %d octets' % len(label))
        out.append(len(label))
        out += label
    out.append(0)
    if len(out) > MAX_NAME_OCTETS:
        raise RefError('name of %d octets' % len(out))
    return bytes(out)


def _read_name(reader):
    labels = []
    start = reader.pos
    while True:
        length = reader.u(1, 'label length')
        if length == 0:
            break
        if length > MAX_LABEL_OCTETS:
            raise RefError('label length octet 0x%02x (compression pointers / extended labels are not allowed)' % length)
        labels.append(reader.take(length, 'label'))
    if reader.pos - start > MAX_NAME_OCTETS:
        raise RefError('name longer than 255 octets')
    return labels


def decode_name(data):
    reader = _Reader(data)
    labels = _read_name(reader)
    reader.end('name')
    return labels


# --------------------------------------------------------------------------------------------------------------------
# RFC 1035 section 3.3.9 MX, section 3.3.14 TXT

def encode_mx(preference, exchange_labels):
    return _u(preference, 2, 'preference') + encode_name(exchange_labels)


def decode_mx(rdata):
    reader = _Reader(rdata)
    preference = reader.u(2, 'preference')
    labels = _read_name(reader)
    reader.end('MX')
    return {'preference': preference, 'exchange': labels}


def encode_txt(strings):
    """TXT-DATA: one or more <character-string>s, each a length octet followed by up to 255 octets."""
    if not strings:
        raise RefError('TXT needs at least one character-string')
    out = bytearray()
    for item in strings:
        item = bytes(item)
        if len(item) > 255:
            raise RefError('character-string of %d octets' % len(item))
        out.append(len(item))
        out += item
    return bytes(out)


def decode_txt(rdata):
    reader = _Reader(rdata)
    strings = []
    while reader.pos < len(reader.data):
        length = reader.u(1, 'character-string length')
        strings.append(reader.take(length, 'character-string'))
    if not strings:
        raise RefError('TXT without character-string')
    return strings


# --------------------------------------------------------------------------------------------------------------------
# public key formats

def encode_key_rsa(exponent, modulus):
    exponent_octets = _minimal(exponent, 'exponent')
    modulus_octets = _minimal(modulus, 'modulus')
    if len(exponent_octets) <= 255:
        prefix = bytes([len(exponent_octets)])
    elif len(exponent_octets) <= 0xffff:
        prefix = b'\x00' + len(exponent_octets).to_bytes(2, 'big')
    else:
        raise RefError('exponent too long')
    return prefix + exponent_octets + modulus_octets


def decode_key_rsa(data):
    reader = _Reader(data)
    length = reader.u(1, 'exponent length')
    if length == 0:
        length = reader.u(2, 'exponent length (3-octet form)')
        if length <= 255:
            raise RefError('3-octet exponent length form used for %d octets' % length)
    exponent = reader.take(length, 'exponent')
    modulus = reader.rest()
    if not exponent or not modulus:
        raise RefError('empty exponent or modulus')
    if exponent[0] == 0 or modulus[0] == 0:
        raise RefError('leading zero octet')
    return {'e': int.from_bytes(exponent, 'big'), 'n': int.from_bytes(modulus, 'big')}


def encode_key_dsa(t, q, p, g, y):
    if not isinstance(t, int) or not 0 <= t <= 8:
        raise RefError('T = %r' % (t,))
    size = 64 + t * 8
    return bytes([t]) + _u(q, 20, 'Q') + _u(p, size, 'P') + _u(g, size, 'G') + _u(y, size, 'Y')


def decode_key_dsa(data):
    reader = _Reader(data)
    t = reader.u(1, 'T')
    if t > 8:
        raise RefError('T = %d' % t)
    size = 64 + t * 8
    q = reader.u(20, 'Q')
    p = reader.u(size, 'P')
    g = reader.u(size, 'G')
    y = reader.u(size, 'Y')
    reader.end('DSA key')
    return {'t': t, 'q': q, 'p': p, 'g': g, 'y': y}


def encode_key_ecdsa(algorithm, x, y):
    size = ECDSA_COORDINATE_OCTETS[algorithm]
    return _u(x, size, 'x') + _u(y, size, 'y')


def decode_key_ecdsa(algorithm, data):
    size = ECDSA_COORDINATE_OCTETS[algorithm]
    reader = _Reader(data)
    x = reader.u(size, 'x')
    y = reader.u(size, 'y')
    reader.end('ECDSA key')
    return {'x': x, 'y': y}


def encode_key_gost(x, y):
    for name, value in (('x', x), ('y', y)):
        if not isinstance(value, int) or not 0 <= value < (1 << (8 * GOST_COORDINATE_OCTETS)):
            raise RefError('%s out of range' % name)
    return x.to_bytes(GOST_COORDINATE_OCTETS, 'little') + y.to_bytes(GOST_COORDINATE_OCTETS, 'little')


def decode_key_gost(data):
    reader = _Reader(data)
    x = int.from_bytes(reader.take(GOST_COORDINATE_OCTETS, 'x'), 'little')
    y = int.from_bytes(reader.take(GOST_COORDINATE_OCTETS, 'y'), 'little')
    reader.end('GOST key')
    return {'x': x, 'y': y}


def encode_key_eddsa(algorithm, raw):
    raw = bytes(raw)
    if len(raw) != EDDSA_KEY_OCTETS[algorithm]:
        raise RefError('EdDSA key of %d octets for algorithm %d' % (len(raw), algorithm))
    return raw


def decode_key_eddsa(algorithm, data):
    data = bytes(data)
    if len(data) != EDDSA_KEY_OCTETS[algorithm]:
        raise RefError('EdDSA key of %d octets for algorithm %d' % (len(data), algorithm))
    return {'raw': data}


def encode_key(algorithm, key):
    """key: dict as returned by decode_key (rsa: e, n; dsa: t, q, p, g, y; ecdsa/gost: x, y; eddsa: raw)."""
    fmt = KEY_FORMAT[algorithm]
    if fmt == 'rsa':
        return encode_key_rsa(key['e'], key['n'])
    if fmt == 'dsa':
        return encode_key_dsa(key['t'], key['q'], key['p'], key['g'], key['y'])
    if fmt == 'ecdsa':
        return encode_key_ecdsa(algorithm, key['x'], key['y'])
    if fmt == 'gost':
        return encode_key_gost(key['x'], key['y'])
    return encode_key_eddsa(algorithm, key['raw'])


def decode_key(algorithm, data):
    fmt = KEY_FORMAT[algorithm]
    if fmt == 'rsa':
        return decode_key_rsa(data)
    if fmt == 'dsa':
        return decode_key_dsa(data)
    if fmt == 'ecdsa':
        return decode_key_ecdsa(algorithm, data)
    if fmt == 'gost':
        return decode_key_gost(data)
    return decode_key_eddsa(algorithm, data)


# --------------------------------------------------------------------------------------------------------------------
# RFC 4034 section 2: DNSKEY

def encode_dnskey(flags, protocol, algorithm, key):
    return _u(flags, 2, 'flags') + _u(protocol, 1, 'protocol') + _u(algorithm, 1, 'algorithm') + \
        encode_key(algorithm, key)


def decode_dnskey(rdata):
    reader = _Reader(rdata)
    flags = reader.u(2, 'flags')
    protocol = reader.u(1, 'protocol')
    algorithm = reader.u(1, 'algorithm')
    if protocol != 3:
        raise RefError('protocol %d' % protocol)
    if algorithm not in KEY_FORMAT:
        raise RefError('algorithm %d' % algorithm)
    return {'flags': flags, 'protocol': protocol, 'algorithm': algorithm, 'key': decode_key(algorithm, reader.rest())}


# --------------------------------------------------------------------------------------------------------------------
# RFC 4034 Appendix B: key tag

def keytag_appendix_b(rdata):
    """Transcription of the C function of RFC 4034 Appendix B:

        for ( ac = 0, i = 0; i < keysize; ++i )
                ac += (i & 1) ? key[i] : key[i] << 8;
        ac += (ac >> 16) & 0xFFFF;
        return ac & 0xFFFF;
    """
    key = bytes(rdata)
    ac = 0
    for i in range(len(key)):  # pylint: disable=consider-using-enumerate
        ac += key[i] if (i & 1) else key[i] << 8
    ac += (ac >> 16) & 0xffff
    return ac & 0xffff


def keytag_b1(modulus):
    """RFC 4034 B.1: "the most significant 16 bits of the least significant 24 bits of the public key modulus"."""
    return (modulus & 0xffffff) >> 8


def keytag(rdata):
    """Key tag of a DNSKEY RDATA: Appendix B.1 for algorithm 1, Appendix B otherwise."""
    rdata = bytes(rdata)
    if len(rdata) < 4:
        raise RefError('DNSKEY RDATA shorter than its fixed part')
    if rdata[3] == ALG_RSAMD5:
        return keytag_b1(decode_key_rsa(rdata[4:])['n'])
    return keytag_appendix_b(rdata)


# --------------------------------------------------------------------------------------------------------------------
# RFC 4034 section 5: DS

def encode_ds(key_tag, algorithm, digest_type, digest):
    return _u(key_tag, 2, 'key tag') + _u(algorithm, 1, 'algorithm') + _u(digest_type, 1, 'digest type') + \
        bytes(digest)


def decode_ds(rdata):
    reader = _Reader(rdata)
    key_tag = reader.u(2, 'key tag')
    algorithm = reader.u(1, 'algorithm')
    digest_type = reader.u(1, 'digest type')
    digest = reader.rest()
    if digest_type in DS_DIGEST_OCTETS and len(digest) != DS_DIGEST_OCTETS[digest_type]:
        raise RefError('digest of %d octets for digest type %d' % (len(digest), digest_type))
    return {'key_tag': key_tag, 'algorithm': algorithm, 'digest_type': digest_type, 'digest': digest}


# --------------------------------------------------------------------------------------------------------------------
# RFC 4034 section 3: RRSIG

PRIVATE_RR_TYPES = (0xff00, 0xfffe)     # RFC 6895 section 3.1: 65280-65534 "Private Use"


def encode_rrsig(type_covered, algorithm, labels, original_ttl, expiration, inception, key_tag, signer_labels,
                 signature):
    """expiration / inception: unsigned 32-bit seconds since 1 January 1970 00:00:00 UTC (section 3.1.5)."""
    return (
        _u(type_covered, 2, 'type covered') + _u(algorithm, 1, 'algorithm') + _u(labels, 1, 'labels') +
        _u(original_ttl, 4, 'original TTL') + _u(expiration, 4, 'expiration') + _u(inception, 4, 'inception') +
        _u(key_tag, 2, 'key tag') + encode_name(signer_labels) + bytes(signature)
    )


def decode_rrsig(rdata):
    reader = _Reader(rdata)
    model = {
        'type_covered': reader.u(2, 'type covered'),
        'algorithm': reader.u(1, 'algorithm'),
        'labels': reader.u(1, 'labels'),
        'original_ttl': reader.u(4, 'original TTL'),
        'expiration': reader.u(4, 'expiration'),
        'inception': reader.u(4, 'inception'),
        'key_tag': reader.u(2, 'key tag'),
    }
    model['signer'] = _read_name(reader)
    model['signature'] = reader.rest()
    return model


# --------------------------------------------------------------------------------------------------------------------
# self-test against the examples printed in the RFCs (run: python -m vf.ref.dns)

def _selftest():
    import base64  # pylint: disable=import-outside-toplevel

    # RFC 4034 section 5.4: DNSKEY 256 3 5 (...) ; key id = 60485
    key = base64.b64decode(
        'AQOeiiR0GOMYkDshWoSKz9XzfwJr1AYtsmx3TGkJaNXVbfi/2pHm822aJ5iI9BMzNXxeYCmZDRD99WYwYqUSdjMmmAphXdvx'
        'egXd/M5+X7OrzKBaMbCVdFLUUh6DhweJBjEVv5f2wwjM9XzcnOf+EPbtG9DMBmADjFDc2w/rljwvFw==')
    rdata = b'\x01\x00\x03\x05' + key
    assert keytag(rdata) == 60485
    model = decode_dnskey(rdata)
    assert model['flags'] == FLAG_ZONE_KEY and model['key']['e'] == 3
    assert encode_dnskey(**model) == rdata
    # RFC 4034 section 2.3: key tag 2642 (from the RRSIG example of section 3.3)
    key = base64.b64decode(
        'AQPSKmynfzW4kyBv015MUG2DeIQ3Cbl+BBZH4b/0PY1kxkmvHjcZc8nokfzj31GajIQKY+5CptLr3buXA10hWqTkF7H6RfoR'
        'qXQeogmMHfpftf6zMv1LyBUgia7za6ZEzOJBOztyvhjL742iU/TpPSEDhm2SNKLijfUppn1UaNvv4w==')
    assert keytag(b'\x01\x00\x03\x05' + key) == 2642
    # RFC 6605 section 6.1: DNSKEY 257 3 13, DS 55648
    key = base64.b64decode('GojIhhXUN/u4v54ZQqGSnyhWJwaubCvTmeexv7bR6edbkrSqQpF64cYbcB7wNcP+e+MAnLr+Wi9xMWyQLc8NAA==')
    rdata = b'\x01\x01\x03\x0d' + key
    assert keytag(rdata) == 55648
    model = decode_dnskey(rdata)
    assert on_curve(ALG_ECDSAP256SHA256, model['key']['x'], model['key']['y'])
    assert encode_dnskey(**model) == rdata
    # RFC 6605 section 6.2: DNSKEY 257 3 14, DS 10771
    key = base64.b64decode('xKYaNhWdGOfJ+nPrL8/arkwf2EY3MDJ+SErKivBVSum1w/egsXvSADtNJhyem5RCOpgQ6K8X1DRSEkrbYQ+OB+v8'
                           '/uX45NBwY8rp65F6Glur8I/mlVNgF6W/qTI37m40')
    rdata = b'\x01\x01\x03\x0e' + key
    assert keytag(rdata) == 10771
    model = decode_dnskey(rdata)
    assert on_curve(ALG_ECDSAP384SHA384, model['key']['x'], model['key']['y'])
    # RFC 8080 section 6.1: Ed25519, DS 3613 ; section 6.2: Ed448, DS 9713 (odd RDATA length: 4 + 57)
    key = base64.b64decode('l02Woi0iS8Aa25FQkUd9RMzZHJpBoRQwAQEX1SxZJA4=')
    assert keytag(b'\x01\x01\x03\x0f' + key) == 3613
    key = base64.b64decode('3kgROaDjrh0H2iuixWBrc8g2EpBBLCdGzHmn+G2MpTPhpj/OiBVHHSfPodx1FYYUcJKm1MDpJtIA')
    assert len(key) == 57
    assert keytag(b'\x01\x01\x03\x10' + key) == 9713
    assert decode_dnskey(b'\x01\x01\x03\x10' + key)['key']['raw'] == key
    # RFC 5933 section 2.2: DNSKEY 256 3 12, key tag 59732; the point must be on the CryptoPro-A curve when the
    # coordinates are read little-endian
    key = base64.b64decode('aRS/DcPWGQj2wVJydT8EcAVoC0kXn5pDVm2IMvDDPXeD32dsSKcmq8KNVzigjL4OXZTV+t/6w4X1gpNrZiC01g==')
    rdata = b'\x01\x00\x03\x0c' + key
    assert keytag(rdata) == 59732
    model = decode_dnskey(rdata)
    assert on_curve(ALG_ECC_GOST, model['key']['x'], model['key']['y'])
    big_x, big_y = int.from_bytes(key[:32], 'big'), int.from_bytes(key[32:], 'big')
    assert not on_curve(ALG_ECC_GOST, big_x, big_y)
    for algorithm, curve in CURVES.items():
        assert on_curve(algorithm, curve['gx'], curve['gy'])
    # RFC 5702 section 6.1: RSASHA256, key tag 9033
    key = base64.b64decode('AwEAAcFcGsaxxdgiuuGmCkVImy4h99CqT7jwY3pexPGcnUFtR2Fh36BponcwtkZ4cAgtvd4Qs8PkxUdp6p/DlUmObdk=')
    assert keytag(b'\x01\x00\x03\x08' + key) == 9033
    # names / TXT / MX
    assert encode_name([]) == b'\x00' and decode_name(b'\x03www\x07example\x00') == [b'www', b'example']
    assert decode_txt(encode_txt([b'a' * 255, b'b'])) == [b'a' * 255, b'b']
    assert encode_mx(10, [b'mail']) == b'\x00\x0a\x04mail\x00'
    # RFC 4034 section 3.3 RRSIG example header: A 5 3 86400 20030322173103 20030220173103 2642 example.com.
    rdata = encode_rrsig(1, 5, 3, 86400, 1048354263, 1045762263, 2642, [b'example', b'com'], b'\x01\x02')
    assert rdata[:8] == bytes.fromhex('0001' '05' '03' '00015180') and rdata[16:18] == bytes.fromhex('0a52')
    assert rdata[8:12] == (1048354263).to_bytes(4, 'big') and rdata[12:16] == (1045762263).to_bytes(4, 'big')
    assert rdata[18:] == b'\x07example\x03com\x00\x01\x02'
    assert decode_rrsig(rdata)['signer'] == [b'example', b'com']
    return True


if __name__ == '__main__':
    _selftest()
    print('vf.ref.dns self-test ok')
