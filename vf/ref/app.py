# -*- coding: utf-8 -*-
"""Independent reference codec for the application messages that precede an opportunistic TLS handshake.

No cryptoparser / cryptodatahub / asn1crypto imports: plain ints, bytes, lists and dicts only.

    MySQL      packet header, Protocol::HandshakeV10, Protocol::SSLRequest
               (MySQL Internals Manual "Connection Phase Packets" / MySQL 8 source documentation, page_protocol_*)
    RDP        TPKT (RFC 1006 section 6, RFC 2126 section 4.3), X.224 CR / CC TPDU (ISO/IEC 8073 = ITU-T X.224
               section 13.3 / 13.4, MS-RDPBCGR 2.2.1.1 / 2.2.1.2), RDP_NEG_REQ / RDP_NEG_RSP (MS-RDPBCGR 2.2.1.1.1,
               2.2.1.2.1)
    OpenVPN    control channel packets without tls-auth (OpenVPN "Network protocol" documentation, ssl.h /
               ssl_pkt.h: P_CONTROL_HARD_RESET_CLIENT_V2, P_CONTROL_HARD_RESET_SERVER_V2, P_CONTROL_V1, P_ACK_V1) and
               the 16-bit packet length that prefixes every packet on TCP
    PostgreSQL SSLRequest (PostgreSQL documentation, "Message Formats")
    LDAP       StartTLS extended request / response (RFC 4511 sections 4.1.1, 4.1.9, 4.12, 4.14.1, 5.1), BER written
               by hand
"""


class RefError(ValueError):
    """Input is not a conformant encoding / model is not encodable."""


def _u(value, size, order, what):
    if not isinstance(value, int) or isinstance(value, bool) or not 0 <= value < (1 << (8 * size)):
        raise RefError('%s out of range for %d octets: %r' % (what, size, value))
    return value.to_bytes(size, order)


class _Reader(object):
    def __init__(self, data):
        self.data = bytes(data)
        self.pos = 0

    def take(self, count, what):
        if count < 0 or self.pos + count > len(self.data):
            raise RefError('truncated %s' % what)
        chunk = self.data[self.pos:self.pos + count]
        self.pos += count
        return chunk

    def u(self, size, order, what):
        return int.from_bytes(self.take(size, what), order)

    def until_nul(self, what):
        end = self.data.find(b'\x00', self.pos)
        if end < 0:
            raise RefError('unterminated %s' % what)
        chunk = self.data[self.pos:end]
        self.pos = end + 1
        return chunk

    @property
    def left(self):
        return len(self.data) - self.pos

    def rest(self):
        return self.take(self.left, 'rest')

    def end(self, what):
        if self.left:
            raise RefError('%d octet(s) after %s' % (self.left, what))


# ====================================================================================================================
# MySQL

# capability flags (include/mysql_com.h / "Capabilities Flags")
CLIENT_LONG_PASSWORD = 0x00000001
CLIENT_PROTOCOL_41 = 0x00000200
CLIENT_SSL = 0x00000800
CLIENT_SECURE_CONNECTION = 0x00008000      # "CLIENT_RESERVED2" in MySQL 8
CLIENT_PLUGIN_AUTH = 0x00080000

MYSQL_CAPABILITIES = {
    'CLIENT_LONG_PASSWORD': 0x00000001, 'CLIENT_FOUND_ROWS': 0x00000002, 'CLIENT_LONG_FLAG': 0x00000004,
    'CLIENT_CONNECT_WITH_DB': 0x00000008, 'CLIENT_NO_SCHEMA': 0x00000010, 'CLIENT_COMPRESS': 0x00000020,
    'CLIENT_ODBC': 0x00000040, 'CLIENT_LOCAL_FILES': 0x00000080, 'CLIENT_IGNORE_SPACE': 0x00000100,
    'CLIENT_PROTOCOL_41': 0x00000200, 'CLIENT_INTERACTIVE': 0x00000400, 'CLIENT_SSL': 0x00000800,
    'CLIENT_IGNORE_SIGPIPE': 0x00001000, 'CLIENT_TRANSACTIONS': 0x00002000, 'CLIENT_RESERVED': 0x00004000,
    'CLIENT_SECURE_CONNECTION': 0x00008000, 'CLIENT_MULTI_STATEMENTS': 0x00010000,
    'CLIENT_MULTI_RESULTS': 0x00020000, 'CLIENT_PS_MULTI_RESULTS': 0x00040000, 'CLIENT_PLUGIN_AUTH': 0x00080000,
    'CLIENT_CONNECT_ATTRS': 0x00100000, 'CLIENT_PLUGIN_AUTH_LENENC_CLIENT_DATA': 0x00200000,
    'CLIENT_CAN_HANDLE_EXPIRED_PASSWORDS': 0x00400000, 'CLIENT_SESSION_TRACK': 0x00800000,
    'CLIENT_DEPRECATE_EOF': 0x01000000,
}

# server status flags (include/mysql_com.h SERVER_STATUS_flags_enum)
MYSQL_STATUS = {
    'SERVER_STATUS_IN_TRANS': 0x0001, 'SERVER_STATUS_AUTOCOMMIT': 0x0002, 'SERVER_MORE_RESULTS_EXISTS': 0x0008,
    'SERVER_STATUS_NO_GOOD_INDEX_USED': 0x0010, 'SERVER_STATUS_NO_INDEX_USED': 0x0020,
    'SERVER_STATUS_CURSOR_EXISTS': 0x0040, 'SERVER_STATUS_LAST_ROW_SENT': 0x0080, 'SERVER_STATUS_DB_DROPPED': 0x0100,
    'SERVER_STATUS_NO_BACKSLASH_ESCAPES': 0x0200, 'SERVER_STATUS_METADATA_CHANGED': 0x0400,
    'SERVER_QUERY_WAS_SLOW': 0x0800, 'SERVER_PS_OUT_PARAMS': 0x1000, 'SERVER_STATUS_IN_TRANS_READONLY': 0x2000,
    'SERVER_SESSION_STATE_CHANGED': 0x4000,
}


def mysql_packet(sequence_id, payload):
    """int<3> payload_length (little-endian), int<1> sequence_id, payload."""
    payload = bytes(payload)
    return _u(len(payload), 3, 'little', 'payload_length') + _u(sequence_id, 1, 'little', 'sequence_id') + payload


def mysql_packet_decode(data):
    reader = _Reader(data)
    length = reader.u(3, 'little', 'payload_length')
    sequence_id = reader.u(1, 'little', 'sequence_id')
    payload = reader.take(length, 'payload')
    reader.end('packet')
    return {'sequence_id': sequence_id, 'payload': payload}


def mysql_handshake_docs_agree(capabilities, auth_plugin_data_len):
    """True where every published version of Protocol::HandshakeV10 describes the same octets after the reserved
    filler: the 5.x internals manual makes auth-plugin-data-part-2 conditional on CLIENT_SECURE_CONNECTION, the
    MySQL 8 documentation has it unconditionally; both give it the length MAX(13, auth_plugin_data_len - 8) and both
    make the length octet and the plugin name conditional on CLIENT_PLUGIN_AUTH.  They coincide when both
    capabilities are set and the declared length is at least 21 (so that MAX() selects the declared length)."""
    return bool(capabilities & CLIENT_SECURE_CONNECTION) and bool(capabilities & CLIENT_PLUGIN_AUTH) and \
        auth_plugin_data_len >= 21


def mysql_handshake_v10_head(protocol_version, server_version, thread_id, auth_plugin_data_1, capabilities,
                             character_set, status_flags, auth_plugin_data_len):
    """The part of Protocol::HandshakeV10 that is the same in every version of the documentation:

        int<1> protocol version, string<NUL> server version, int<4> thread id, string[8] auth-plugin-data-part-1,
        int<1> filler (00), int<2> capability_flags_1 (lower 16 bits), int<1> character_set, int<2> status_flags,
        int<2> capability_flags_2 (upper 16 bits), int<1> auth_plugin_data_len (00 without CLIENT_PLUGIN_AUTH),
        string[10] reserved (all 00)
    """
    server_version = bytes(server_version)
    auth_plugin_data_1 = bytes(auth_plugin_data_1)
    if b'\x00' in server_version:
        raise RefError('NUL inside server version')
    if len(auth_plugin_data_1) != 8:
        raise RefError('auth-plugin-data-part-1 must have 8 octets')
    if not capabilities & CLIENT_PLUGIN_AUTH and auth_plugin_data_len:
        raise RefError('auth_plugin_data_len without CLIENT_PLUGIN_AUTH')
    return (
        _u(protocol_version, 1, 'little', 'protocol version') + server_version + b'\x00' +
        _u(thread_id, 4, 'little', 'thread id') + auth_plugin_data_1 + b'\x00' +
        _u(capabilities & 0xffff, 2, 'little', 'capability_flags_1') + _u(character_set, 1, 'little', 'character_set') +
        _u(status_flags, 2, 'little', 'status_flags') + _u(capabilities >> 16, 2, 'little', 'capability_flags_2') +
        _u(auth_plugin_data_len, 1, 'little', 'auth_plugin_data_len') + b'\x00' * 10
    )


def mysql_handshake_v10(protocol_version, server_version, thread_id, auth_plugin_data_1, capabilities, character_set,
                        status_flags, auth_plugin_data_2, auth_plugin_name):
    """Complete Protocol::HandshakeV10 inside the region where the documentation versions agree
    (mysql_handshake_docs_agree): part 2 has auth_plugin_data_len - 8 octets, the plugin name is NUL terminated."""
    auth_plugin_data_2 = bytes(auth_plugin_data_2)
    auth_plugin_name = bytes(auth_plugin_name)
    auth_plugin_data_len = 8 + len(auth_plugin_data_2)
    if not mysql_handshake_docs_agree(capabilities, auth_plugin_data_len):
        raise RefError('outside the region where the documentation versions agree')
    if b'\x00' in auth_plugin_name:
        raise RefError('NUL inside plugin name')
    head = mysql_handshake_v10_head(protocol_version, server_version, thread_id, auth_plugin_data_1, capabilities,
                                    character_set, status_flags, auth_plugin_data_len)
    return head + auth_plugin_data_2 + auth_plugin_name + b'\x00'


def mysql_handshake_v10_head_decode(data):
    """Decodes the common part; returns (model, offset of the first octet after the reserved filler)."""
    reader = _Reader(data)
    model = {'protocol_version': reader.u(1, 'little', 'protocol version')}
    model['server_version'] = reader.until_nul('server version')
    model['thread_id'] = reader.u(4, 'little', 'thread id')
    model['auth_plugin_data_1'] = reader.take(8, 'auth-plugin-data-part-1')
    if reader.u(1, 'little', 'filler'):
        raise RefError('filler is not 00')
    low = reader.u(2, 'little', 'capability_flags_1')
    model['character_set'] = reader.u(1, 'little', 'character_set')
    model['status_flags'] = reader.u(2, 'little', 'status_flags')
    model['capabilities'] = low | reader.u(2, 'little', 'capability_flags_2') << 16
    model['auth_plugin_data_len'] = reader.u(1, 'little', 'auth_plugin_data_len')
    if reader.take(10, 'reserved') != b'\x00' * 10:
        raise RefError('reserved is not all 00')
    return model, reader.pos


def mysql_ssl_request(capabilities, max_packet_size, character_set=None):
    """Protocol::SSLRequest.  With CLIENT_PROTOCOL_41: int<4> client_flag, int<4> max_packet_size,
    int<1> character_set, string[23] filler (all 00).  Without: int<2> client_flag, int<3> max_packet_size."""
    if capabilities & CLIENT_PROTOCOL_41:
        return (_u(capabilities, 4, 'little', 'client_flag') + _u(max_packet_size, 4, 'little', 'max_packet_size') +
                _u(character_set, 1, 'little', 'character_set') + b'\x00' * 23)
    return _u(capabilities, 2, 'little', 'client_flag') + _u(max_packet_size, 3, 'little', 'max_packet_size')


def mysql_ssl_request_decode(data):
    reader = _Reader(data)
    low = reader.u(2, 'little', 'client_flag')
    if low & CLIENT_PROTOCOL_41:
        model = {'capabilities': low | reader.u(2, 'little', 'client_flag high') << 16}
        model['max_packet_size'] = reader.u(4, 'little', 'max_packet_size')
        model['character_set'] = reader.u(1, 'little', 'character_set')
        if reader.take(23, 'filler') != b'\x00' * 23:
            raise RefError('filler is not all 00')
    else:
        model = {'capabilities': low, 'max_packet_size': reader.u(3, 'little', 'max_packet_size'),
                 'character_set': None}
    reader.end('SSLRequest')
    return model


# ====================================================================================================================
# RDP: TPKT, X.224, negotiation

TPKT_VERSION = 3
X224_CR = 0xe       # ISO 8073 13.3.1: CR code 1110
X224_CC = 0xd       # ISO 8073 13.4.1: CC code 1101
X224_MAX_LI = 254   # ISO 8073 13.2.1: 1111 1111 is reserved for possible extensions
X224_FIXED = 6      # code, DST-REF (2), SRC-REF (2), class option

RDP_NEG_REQ = 0x01
RDP_NEG_RSP = 0x02
RDP_NEG_LENGTH = 8
RDP_PROTOCOLS = {'SSL': 0x00000001, 'HYBRID': 0x00000002, 'RDSTLS': 0x00000004, 'HYBRID_EX': 0x00000008}
RDP_REQUEST_FLAGS = {'RESTRICTED_ADMIN_MODE_REQUIRED': 0x01, 'REDIRECTED_AUTHENTICATION_MODE_REQUIRED': 0x02,
                     'CORRELATION_INFO_PRESENT': 0x08}
RDP_RESPONSE_FLAGS = {'EXTENDED_CLIENT_DATA_SUPPORTED': 0x01, 'DYNVC_GFX_PROTOCOL_SUPPORTED': 0x02,
                      'NEGRSP_FLAG_RESERVED': 0x04, 'RESTRICTED_ADMIN_MODE_SUPPORTED': 0x08,
                      'REDIRECTED_AUTHENTICATION_MODE_SUPPORTED': 0x10}


def tpkt(payload):
    """RFC 1006 section 6: vrsn = 3, reserved = 0, 16-bit packet length (big-endian, header included), TPDU."""
    payload = bytes(payload)
    return bytes([TPKT_VERSION, 0]) + _u(len(payload) + 4, 2, 'big', 'packet length') + payload


def tpkt_decode(data):
    reader = _Reader(data)
    if reader.u(1, 'big', 'vrsn') != TPKT_VERSION:
        raise RefError('vrsn')
    if reader.u(1, 'big', 'reserved') != 0:
        raise RefError('reserved')
    length = reader.u(2, 'big', 'packet length')
    if length < 4:
        raise RefError('packet length %d' % length)
    payload = reader.take(length - 4, 'TPDU')
    reader.end('TPKT')
    return payload


def x224_connection(code, dst_ref, src_ref, class_option, data):
    """CR / CC TPDU: LI, code (4 bits) + CDT (4 bits, 0000 in class 0), DST-REF, SRC-REF, class option, then the
    octets up to LI (ISO 8073 calls them the variable part; MS-RDPBCGR puts the cookie / routing token and the
    negotiation structure there and counts them in LI)."""
    data = bytes(data)
    if code not in (X224_CR, X224_CC):
        raise RefError('code')
    length_indicator = X224_FIXED + len(data)
    if length_indicator > X224_MAX_LI:
        raise RefError('LI %d' % length_indicator)
    return (bytes([length_indicator, code << 4]) + _u(dst_ref, 2, 'big', 'DST-REF') + _u(src_ref, 2, 'big', 'SRC-REF') +
            _u(class_option, 1, 'big', 'class option') + data)


def x224_connection_decode(data):
    reader = _Reader(data)
    length_indicator = reader.u(1, 'big', 'LI')
    if not X224_FIXED <= length_indicator <= X224_MAX_LI:
        raise RefError('LI %d' % length_indicator)
    code = reader.u(1, 'big', 'code')
    model = {'code': code >> 4, 'cdt': code & 0xf}
    if model['code'] not in (X224_CR, X224_CC):
        raise RefError('not a CR / CC TPDU')
    model['dst_ref'] = reader.u(2, 'big', 'DST-REF')
    model['src_ref'] = reader.u(2, 'big', 'SRC-REF')
    model['class_option'] = reader.u(1, 'big', 'class option')
    model['data'] = reader.take(length_indicator - X224_FIXED, 'variable part')
    reader.end('TPDU')
    return model


def rdp_negotiation(packet_type, flags, protocols):
    """RDP_NEG_REQ / RDP_NEG_RSP: type (1), flags (1), length (2, little-endian, always 8), requestedProtocols /
    selectedProtocol (4, little-endian)."""
    if packet_type not in (RDP_NEG_REQ, RDP_NEG_RSP):
        raise RefError('type')
    return (bytes([packet_type]) + _u(flags, 1, 'little', 'flags') + _u(RDP_NEG_LENGTH, 2, 'little', 'length') +
            _u(protocols, 4, 'little', 'protocols'))


def rdp_negotiation_decode(data):
    reader = _Reader(data)
    model = {'type': reader.u(1, 'little', 'type'), 'flags': reader.u(1, 'little', 'flags')}
    if model['type'] not in (RDP_NEG_REQ, RDP_NEG_RSP):
        raise RefError('type')
    if reader.u(2, 'little', 'length') != RDP_NEG_LENGTH:
        raise RefError('length')
    model['protocols'] = reader.u(4, 'little', 'protocols')
    reader.end('negotiation structure')
    return model


# ====================================================================================================================
# OpenVPN

P_CONTROL_HARD_RESET_CLIENT_V2 = 7
P_CONTROL_HARD_RESET_SERVER_V2 = 8
P_CONTROL_V1 = 4
P_ACK_V1 = 5
OPENVPN_OPCODES = (P_CONTROL_HARD_RESET_CLIENT_V2, P_CONTROL_HARD_RESET_SERVER_V2, P_CONTROL_V1, P_ACK_V1)
P_OPCODE_SHIFT = 3      # "the opcode is the high 5 bits, the key_id the low 3 bits" of the first octet


def openvpn_packet(opcode, key_id, session_id, acks, remote_session_id, packet_id=None, payload=b''):
    """opcode/key_id (1), local session_id (8), acked packet-id array length (1), acked packet-ids (4 each) and the
    remote session_id (8) when the array is not empty, then - except in P_ACK_V1 - the message packet-id (4) and,
    in P_CONTROL_V1, the TLS payload."""
    if opcode not in OPENVPN_OPCODES or not 0 <= key_id <= 7:
        raise RefError('opcode / key_id')
    if len(acks) > 255:
        raise RefError('too many acks')
    out = bytes([opcode << P_OPCODE_SHIFT | key_id]) + _u(session_id, 8, 'big', 'session_id') + bytes([len(acks)])
    for ack in acks:
        out += _u(ack, 4, 'big', 'acked packet-id')
    if acks:
        out += _u(remote_session_id, 8, 'big', 'remote session_id')
    elif remote_session_id is not None:
        raise RefError('remote session_id without acks')
    if opcode == P_ACK_V1:
        if packet_id is not None or payload:
            raise RefError('P_ACK_V1 has neither packet-id nor payload')
        return out
    out += _u(packet_id, 4, 'big', 'packet-id')
    if opcode == P_CONTROL_V1:
        out += bytes(payload)
    elif payload:
        raise RefError('hard reset without payload')
    return out


def openvpn_packet_decode(data):
    reader = _Reader(data)
    first = reader.u(1, 'big', 'opcode/key_id')
    model = {'opcode': first >> P_OPCODE_SHIFT, 'key_id': first & 7}
    if model['opcode'] not in OPENVPN_OPCODES:
        raise RefError('opcode %d' % model['opcode'])
    model['session_id'] = reader.u(8, 'big', 'session_id')
    count = reader.u(1, 'big', 'ack array length')
    model['acks'] = [reader.u(4, 'big', 'acked packet-id') for _ in range(count)]
    model['remote_session_id'] = reader.u(8, 'big', 'remote session_id') if count else None
    if model['opcode'] == P_ACK_V1:
        model['packet_id'], model['payload'] = None, b''
    else:
        model['packet_id'] = reader.u(4, 'big', 'packet-id')
        model['payload'] = reader.rest() if model['opcode'] == P_CONTROL_V1 else b''
    reader.end('packet')
    return model


def openvpn_tcp(packet):
    """On TCP every packet is preceded by its length as a 16-bit unsigned integer in network byte order."""
    packet = bytes(packet)
    return _u(len(packet), 2, 'big', 'packet length') + packet


def openvpn_tcp_decode(data):
    reader = _Reader(data)
    packet = reader.take(reader.u(2, 'big', 'packet length'), 'packet')
    reader.end('packet')
    return packet


# ====================================================================================================================
# PostgreSQL

POSTGRESQL_SSL_REQUEST_CODE = 80877103      # 1234 << 16 | 5679


def postgresql_ssl_request():
    """SSLRequest: Int32(8) length of message contents in bytes, including self; Int32(80877103) request code."""
    return (8).to_bytes(4, 'big') + POSTGRESQL_SSL_REQUEST_CODE.to_bytes(4, 'big')


# ====================================================================================================================
# LDAP (RFC 4511), BER by hand

LDAP_START_TLS_OID = b'1.3.6.1.4.1.1466.20037'     # RFC 4511 section 4.14.1
LDAP_MAX_INT = 2147483647                         # RFC 4511 section 4.1.1: maxInt

# RFC 4511 section 4.1.9 / Appendix A
LDAP_RESULT_CODES = {
    0: 'success', 1: 'operationsError', 2: 'protocolError', 3: 'timeLimitExceeded', 4: 'sizeLimitExceeded',
    5: 'compareFalse', 6: 'compareTrue', 7: 'authMethodNotSupported', 8: 'strongerAuthRequired', 10: 'referral',
    11: 'adminLimitExceeded', 12: 'unavailableCriticalExtension', 13: 'confidentialityRequired',
    14: 'saslBindInProgress', 16: 'noSuchAttribute', 17: 'undefinedAttributeType', 18: 'inappropriateMatching',
    19: 'constraintViolation', 20: 'attributeOrValueExists', 21: 'invalidAttributeSyntax', 32: 'noSuchObject',
    33: 'aliasProblem', 34: 'invalidDNSyntax', 36: 'aliasDereferencingProblem', 48: 'inappropriateAuthentication',
    49: 'invalidCredentials', 50: 'insufficientAccessRights', 51: 'busy', 52: 'unavailable',
    53: 'unwillingToPerform', 54: 'loopDetect', 64: 'namingViolation', 65: 'objectClassViolation',
    66: 'notAllowedOnNonLeaf', 67: 'notAllowedOnRDN', 68: 'entryAlreadyExists', 69: 'objectClassModsProhibited',
    71: 'affectsMultipleDSAs', 80: 'other',
}

TAG_INTEGER = 0x02
TAG_OCTET_STRING = 0x04
TAG_ENUMERATED = 0x0a
TAG_SEQUENCE = 0x30
TAG_EXTENDED_REQUEST = 0x77       # [APPLICATION 23] constructed
TAG_EXTENDED_RESPONSE = 0x78      # [APPLICATION 24] constructed
TAG_REQUEST_NAME = 0x80           # [0] primitive
TAG_REQUEST_VALUE = 0x81          # [1] primitive
TAG_REFERRAL = 0xa3               # [3] constructed
TAG_RESPONSE_NAME = 0x8a          # [10] primitive
TAG_RESPONSE_VALUE = 0x8b         # [11] primitive
TAG_CONTROLS = 0xa0               # [0] constructed


def ber_length(length, extra_octets=0):
    """Definite length.  extra_octets = 0 gives the shortest form (DER).  RFC 4511 section 5.1 only demands the
    definite form, so the long form is conformant LDAP for every length, with more length octets than necessary as
    well: extra_octets = k > 0 selects the long form with (shortest number of length octets + k - 1) octets."""
    if not extra_octets:
        if length < 0x80:
            return bytes([length])
        extra_octets = 1
    octets = max(1, (length.bit_length() + 7) // 8) + extra_octets - 1
    return bytes([0x80 | octets]) + length.to_bytes(octets, 'big')


def ber_tlv(tag, content, extra_octets=0):
    content = bytes(content)
    return bytes([tag]) + ber_length(len(content), extra_octets) + content


def ber_integer(value):
    """Two's complement, shortest form (X.690 8.3.2)."""
    size = 1
    while not -(1 << (8 * size - 1)) <= value < (1 << (8 * size - 1)):
        size += 1
    return value.to_bytes(size, 'big', signed=True)


def ldap_message(message_id, protocol_op, extra_octets=0):
    if not 0 <= message_id <= LDAP_MAX_INT:
        raise RefError('messageID %r' % (message_id,))
    return ber_tlv(TAG_SEQUENCE, ber_tlv(TAG_INTEGER, ber_integer(message_id)) + protocol_op, extra_octets)


def ldap_start_tls_request(message_id, extra_octets=0):
    """LDAPMessage { messageID, extendedReq [APPLICATION 23] { requestName [0] "1.3.6.1.4.1.1466.20037" } };
    the requestValue field is absent (RFC 4511 section 4.14.1)."""
    operation = ber_tlv(TAG_EXTENDED_REQUEST, ber_tlv(TAG_REQUEST_NAME, LDAP_START_TLS_OID), extra_octets)
    return ldap_message(message_id, operation, extra_octets)


def ldap_start_tls_response(message_id, result_code, matched_dn=b'', diagnostic_message=b'', referral=None,
                            response_name=False, extra_octets=0):
    """LDAPMessage { messageID, extendedResp [APPLICATION 24] { resultCode, matchedDN, diagnosticMessage,
    referral [3] OPTIONAL, responseName [10] OPTIONAL } }; responseValue is absent, responseName - if present - is
    the StartTLS OID (RFC 4511 section 4.14.1)."""
    if result_code not in LDAP_RESULT_CODES:
        raise RefError('result code %r' % (result_code,))
    content = (ber_tlv(TAG_ENUMERATED, ber_integer(result_code)) + ber_tlv(TAG_OCTET_STRING, matched_dn) +
               ber_tlv(TAG_OCTET_STRING, diagnostic_message))
    if referral:
        content += ber_tlv(TAG_REFERRAL, b''.join(ber_tlv(TAG_OCTET_STRING, uri) for uri in referral))
    if response_name:
        content += ber_tlv(TAG_RESPONSE_NAME, LDAP_START_TLS_OID)
    return ldap_message(message_id, ber_tlv(TAG_EXTENDED_RESPONSE, content, extra_octets), extra_octets)


def _ber_read(reader, what):
    """One TLV with a definite length (short or long form, not necessarily minimal): (tag, content)."""
    tag = reader.u(1, 'big', what + ' tag')
    if tag & 0x1f == 0x1f:
        raise RefError('high tag number')
    first = reader.u(1, 'big', what + ' length')
    if first < 0x80:
        length = first
    elif first == 0x80:
        raise RefError('indefinite length (RFC 4511 5.1 allows the definite form only)')
    elif first == 0xff:
        raise RefError('reserved length octet')
    else:
        length = reader.u(first & 0x7f, 'big', what + ' length')
    return tag, reader.take(length, what)


def _ber_integer_value(content, what):
    if not content:
        raise RefError('empty %s' % what)
    if len(content) > 1 and ((content[0] == 0 and content[1] < 0x80) or (content[0] == 0xff and content[1] >= 0x80)):
        raise RefError('%s not in shortest form' % what)
    return int.from_bytes(content, 'big', signed=True)


def ldap_message_decode(data):
    """Decodes a StartTLS request or response; returns a model with 'kind' = 'request' | 'response'."""
    outer = _Reader(data)
    tag, content = _ber_read(outer, 'LDAPMessage')
    outer.end('LDAPMessage')
    if tag != TAG_SEQUENCE:
        raise RefError('LDAPMessage tag 0x%02x' % tag)
    reader = _Reader(content)
    tag, value = _ber_read(reader, 'messageID')
    if tag != TAG_INTEGER:
        raise RefError('messageID tag 0x%02x' % tag)
    model = {'message_id': _ber_integer_value(value, 'messageID')}
    if not 0 <= model['message_id'] <= LDAP_MAX_INT:
        raise RefError('messageID out of range')
    tag, operation = _ber_read(reader, 'protocolOp')
    if reader.left:
        tag_controls, _ = _ber_read(reader, 'controls')
        if tag_controls != TAG_CONTROLS:
            raise RefError('unexpected element after protocolOp')
        reader.end('LDAPMessage content')
    body = _Reader(operation)
    if tag == TAG_EXTENDED_REQUEST:
        model['kind'] = 'request'
        tag, name = _ber_read(body, 'requestName')
        if tag != TAG_REQUEST_NAME:
            raise RefError('requestName tag 0x%02x' % tag)
        model['request_name'] = name
        model['request_value'] = None
        if body.left:
            tag, value = _ber_read(body, 'requestValue')
            if tag != TAG_REQUEST_VALUE:
                raise RefError('requestValue tag 0x%02x' % tag)
            model['request_value'] = value
        body.end('ExtendedRequest')
    elif tag == TAG_EXTENDED_RESPONSE:
        model['kind'] = 'response'
        tag, value = _ber_read(body, 'resultCode')
        if tag != TAG_ENUMERATED:
            raise RefError('resultCode tag 0x%02x' % tag)
        model['result_code'] = _ber_integer_value(value, 'resultCode')
        tag, model['matched_dn'] = _ber_read(body, 'matchedDN')
        if tag != TAG_OCTET_STRING:
            raise RefError('matchedDN tag 0x%02x' % tag)
        tag, model['diagnostic_message'] = _ber_read(body, 'diagnosticMessage')
        if tag != TAG_OCTET_STRING:
            raise RefError('diagnosticMessage tag 0x%02x' % tag)
        model['referral'], model['response_name'], model['response_value'] = None, None, None
        expected = [TAG_REFERRAL, TAG_RESPONSE_NAME, TAG_RESPONSE_VALUE]
        while body.left:
            tag, value = _ber_read(body, 'optional element')
            if tag not in expected:
                raise RefError('unexpected tag 0x%02x in ExtendedResponse' % tag)
            del expected[:expected.index(tag) + 1]
            if tag == TAG_REFERRAL:
                uris, inner = [], _Reader(value)
                while inner.left:
                    tag_uri, uri = _ber_read(inner, 'URI')
                    if tag_uri != TAG_OCTET_STRING:
                        raise RefError('URI tag')
                    uris.append(uri)
                model['referral'] = uris
            elif tag == TAG_RESPONSE_NAME:
                model['response_name'] = value
            else:
                model['response_value'] = value
    else:
        raise RefError('protocolOp tag 0x%02x' % tag)
    return model


# ====================================================================================================================
# self-test against octets printed in the specifications (run: python -m vf.ref.app)

def _selftest():
    # MS-RDPBCGR 4.1.1 "Client X.224 Connection Request PDU" (TPKT, X.224 CR with cookie, RDP_NEG_REQ)
    cookie = b'Cookie: mstshash=eltons\r\n'
    example = bytes.fromhex('0300002c' '27e00000000000') + cookie + bytes.fromhex('0100080000000000')
    request = rdp_negotiation(RDP_NEG_REQ, 0, 0)
    assert tpkt(x224_connection(X224_CR, 0, 0, 0, cookie + request)) == example
    decoded = x224_connection_decode(tpkt_decode(example))
    assert decoded['code'] == X224_CR and decoded['data'] == cookie + request
    # MS-RDPBCGR 4.1.2 "Server X.224 Connection Confirm PDU": 03 00 00 13 0e d0 00 00 12 34 00 02 00 08 00 00 00 00 00
    example = bytes.fromhex('03000013' '0ed00000123400' '0200080000000000')
    assert tpkt(x224_connection(X224_CC, 0, 0x1234, 0, rdp_negotiation(RDP_NEG_RSP, 0, 0))) == example
    assert x224_connection_decode(tpkt_decode(example))['src_ref'] == 0x1234
    # PostgreSQL: 00 00 00 08 04 d2 16 2f
    assert postgresql_ssl_request() == bytes.fromhex('0000000804d2162f')
    # OpenVPN: a client hard reset as sent by every 2.x client (opcode 7 << 3 = 0x38), packet-id 0, no acks
    packet = openvpn_packet(P_CONTROL_HARD_RESET_CLIENT_V2, 0, 0x0102030405060708, [], None, 0)
    assert packet == bytes.fromhex('38' '0102030405060708' '00' '00000000')
    assert openvpn_tcp(packet)[:2] == b'\x00\x0e'
    packet = openvpn_packet(P_ACK_V1, 0, 1, [0, 1], 2)
    assert packet == bytes.fromhex('28' '0000000000000001' '02' '00000000' '00000001' '0000000000000002')
    assert openvpn_packet_decode(packet)['acks'] == [0, 1]
    # LDAP StartTLS request as sent by OpenLDAP's ldapsearch -ZZ: 30 1d 02 01 01 77 18 80 16 <oid>
    assert ldap_start_tls_request(1) == bytes.fromhex('301d020101' '7718' '8016') + LDAP_START_TLS_OID
    assert ldap_start_tls_response(1, 0) == bytes.fromhex('300c020101' '7807' '0a0100' '0400' '0400')
    long_form = ldap_start_tls_response(300, 53, b'dc=x', b'no', response_name=True, extra_octets=2)
    decoded = ldap_message_decode(long_form)
    assert decoded['message_id'] == 300 and decoded['result_code'] == 53 and decoded['matched_dn'] == b'dc=x'
    assert decoded['response_name'] == LDAP_START_TLS_OID and long_form[1] == 0x82 and long_form[2] == 0
    assert ldap_message_decode(ldap_start_tls_request(LDAP_MAX_INT))['message_id'] == LDAP_MAX_INT
    # MySQL: packet header of a 78-octet handshake with sequence id 0: 4e 00 00 00
    assert mysql_packet(0, b'\x0a' * 78)[:4] == bytes.fromhex('4e000000')
    capabilities = 0x81ffffff & 0x01ffffff
    head = mysql_handshake_v10_head(10, b'8.0.33', 8, b'abcdefgh', capabilities, 0xff, 2, 21)
    assert head[:7] == b'\x0a8.0.33' and head[7] == 0 and head[8:12] == b'\x08\x00\x00\x00'
    assert head[21:23] == b'\xff\xff' and head[23] == 0xff and head[24:26] == b'\x02\x00' and head[26:28] == b'\xff\x01'
    assert head[28] == 21 and head[29:] == b'\x00' * 10
    model, offset = mysql_handshake_v10_head_decode(head)
    assert offset == len(head) and model['capabilities'] == capabilities and model['thread_id'] == 8
    full = mysql_handshake_v10(10, b'8.0.33', 8, b'abcdefgh', capabilities, 0xff, 2, b'ijklmnopqrst\x00',
                               b'caching_sha2_password')
    assert full == head + b'ijklmnopqrst\x00' + b'caching_sha2_password\x00'
    assert mysql_ssl_request(CLIENT_PROTOCOL_41 | CLIENT_SSL, 1 << 24, 0x21) == \
        bytes.fromhex('000a0000' '00000001' '21') + b'\x00' * 23
    assert mysql_ssl_request(CLIENT_SSL | CLIENT_LONG_PASSWORD, 0x010203) == bytes.fromhex('0108' '030201')
    assert mysql_ssl_request_decode(bytes.fromhex('0108' '030201'))['max_packet_size'] == 0x010203
    return True


if __name__ == '__main__':
    _selftest()
    print('vf.ref.app self-test ok')
