# -*- coding: utf-8 -*-
"""JA3 of a ClientHello, computed from the wire bytes by the published definition (salesforce/ja3 README):

    SSLVersion,Cipher,SSLExtension,EllipticCurve,EllipticCurvePointFormat

decimal values, in the order they appear in the hello, '-' between the values of a section and ',' between
the sections; a section without values stays empty; the values of RFC 8701's GREASE table (0x0a0a, 0x1a1a,
..., 0xfafa) are ignored in every section.  Nothing else is added, removed or reordered.

Own TLV walk over the handshake message; no import of cryptoparser, cryptodatahub or vf.ref.tls.

The three keyword switches do not belong to the definition: each reproduces exactly one *documented
deviation* so that a mismatch can be attributed to it (see vf/props/c15.py).
"""

GREASE = frozenset(0x0a0a + 0x1010 * i for i in range(16))                  # RFC 8701 section 2
GREASE_LIKE_ONE_BYTE = frozenset(0x0b + 0x1f * i for i in range(8))         # no JA3 meaning, see c15
SCSV = frozenset((0x00ff, 0x5600))                                          # RFC 5746, RFC 7507

EXT_SUPPORTED_GROUPS = 10
EXT_EC_POINT_FORMATS = 11


class Ja3Error(Exception):
    pass


def _take(data, pos, size):
    if pos + size > len(data):
        raise Ja3Error('truncated at offset %d' % pos)
    return data[pos:pos + size], pos + size


def _uint(data, pos, size):
    chunk, pos = _take(data, pos, size)
    return int.from_bytes(chunk, 'big'), pos


def _block(data, pos, size):
    length, pos = _uint(data, pos, size)
    return _take(data, pos, length)


def _values(block, size):
    if len(block) % size:
        raise Ja3Error('list of %d bytes with %d-byte items' % (len(block), size))
    return [int.from_bytes(block[i:i + size], 'big') for i in range(0, len(block), size)]


def fields(hello):
    """(version, cipher suites, extension types, groups, point formats) exactly as on the wire."""
    data = bytes(hello)
    msg_type, pos = _uint(data, 0, 1)
    if msg_type != 1:
        raise Ja3Error('not a ClientHello (handshake type %d)' % msg_type)
    body, pos = _block(data, pos, 3)
    if pos != len(data):
        raise Ja3Error('trailing bytes after the handshake message')
    version, pos = _uint(body, 0, 2)
    _, pos = _take(body, pos, 32)                        # random
    _, pos = _block(body, pos, 1)                        # session id
    suites, pos = _block(body, pos, 2)
    _, pos = _block(body, pos, 1)                        # compression methods
    extension_types, groups, formats = [], [], []
    if pos < len(body):
        block, pos = _block(body, pos, 2)
        if pos != len(body):
            raise Ja3Error('trailing bytes after the extensions')
        offset = 0
        while offset < len(block):
            extension_type, offset = _uint(block, offset, 2)
            extension_data, offset = _block(block, offset, 2)
            extension_types.append(extension_type)
            if extension_type == EXT_SUPPORTED_GROUPS:
                inner, end = _block(extension_data, 0, 2)
                groups = _values(inner, 2)
            elif extension_type == EXT_EC_POINT_FORMATS:
                inner, end = _block(extension_data, 0, 1)
                formats = _values(inner, 1)
            else:
                continue
            if end != len(extension_data):
                raise Ja3Error('trailing bytes inside extension %d' % extension_type)
    return version, _values(suites, 2), extension_types, groups, formats


def ja3(hello, keep_grease_suites=False, drop_scsv=False, drop_grease_like_formats=False):
    version, suites, extension_types, groups, formats = fields(hello)
    if not keep_grease_suites:
        suites = [value for value in suites if value not in GREASE]
    if drop_scsv:
        suites = [value for value in suites if value not in SCSV]
    extension_types = [value for value in extension_types if value not in GREASE]
    groups = [value for value in groups if value not in GREASE]
    if drop_grease_like_formats:
        formats = [value for value in formats if value not in GREASE_LIKE_ONE_BYTE]
    return ','.join([str(version)] + ['-'.join(str(value) for value in section)
                                      for section in (suites, extension_types, groups, formats)])
