# -*- coding: utf-8 -*-
"""Independent reference encoder and strict decoder for the SSL 2.0 / SSL 3.0 / TLS wire formats.

Written from the presentation-language declarations of RFC 5246 / RFC 8446 (sections 3 and 4: numbers are
big-endian, a variable-length vector <floor..ceiling> is preceded by a length that occupies as many bytes
as are needed to hold the *ceiling*), RFC 6101, the SSL 2.0 draft (draft-hickman-netscape-ssl-00), RFC 6066
(server_name, status_request), RFC 7301 (ALPN), RFC 8422 / RFC 7919 (supported_groups, ec_point_formats),
RFC 7627, RFC 7366, RFC 5746, RFC 5077, RFC 8449, RFC 8879, RFC 6962, RFC 8472, RFC 7685, RFC 9345,
draft-agl-tls-nextprotoneg-04, draft-vvv-tls-alps and draft-balfanz-tls-channelid.

It deliberately imports neither cryptoparser nor cryptodatahub.  Models are plain JSON-able Python data:
dicts, lists, ints, bools, strings.  Opaque byte strings are carried as lower-case hex strings (``bytes`` and
the compact form ``{'fill': byte, 'len': n}`` are accepted on input as well); code points of the large IANA
registries (cipher suites, groups, signature schemes, versions, ...) are plain integers exactly as they
appear on the wire; the members of the small enumerations that the specifications define inline (content
type, alert level/description, handshake type, client certificate type, SSL 2.0 message and error codes,
...) are carried by their *specification name* and translated with the tables below.

    encode(model)                  -> bytes
    decode(kind, data, **context)  -> model        (strict: trailing bytes, truncation, bounds -> RefError)
"""

__all__ = ['RefError', 'VECTORS', 'prefix_width', 'encode', 'decode', 'encode_extension', 'decode_extension',
           'canon', 'GREASE_TWO_BYTE', 'GREASE_ONE_BYTE', 'SCSV_RENEGOTIATION', 'SCSV_FALLBACK']


class RefError(Exception):
    """The model cannot be carried by the wire format / the bytes are not a conformant encoding."""


# ---------------------------------------------------------------------------------------------------------
# vector bounds, as declared in the specifications
# ---------------------------------------------------------------------------------------------------------

VECTORS = {
    # RFC 5246 7.4.1.2 / RFC 8446 4.1.2
    'session_id': (0, 32),                                  # opaque SessionID<0..32>
    'cipher_suites': (2, 2 ** 16 - 2),                      # CipherSuite cipher_suites<2..2^16-2>
    'compression_methods': (1, 2 ** 8 - 1),                 # CompressionMethod compression_methods<1..2^8-1>
    'extensions': (0, 2 ** 16 - 1),                         # Extension extensions<0..2^16-1>
    'extension_data': (0, 2 ** 16 - 1),                     # opaque extension_data<0..2^16-1>
    # RFC 5246 7.4.2, 7.4.4
    'certificate_list': (0, 2 ** 24 - 1),                   # ASN.1Cert certificate_list<0..2^24-1>
    'asn1_cert': (1, 2 ** 24 - 1),                          # opaque ASN.1Cert<1..2^24-1>
    'certificate_types': (1, 2 ** 8 - 1),                   # ClientCertificateType certificate_types<1..2^8-1>
    'supported_signature_algorithms': (2, 2 ** 16 - 2),     # SignatureAndHashAlgorithm ...<2..2^16-2>
    'certificate_authorities': (0, 2 ** 16 - 1),            # DistinguishedName certificate_authorities<0..2^16-1>
    'distinguished_name': (1, 2 ** 16 - 1),                 # opaque DistinguishedName<1..2^16-1>
    # RFC 6066
    'server_name_list': (1, 2 ** 16 - 1),                   # ServerName server_name_list<1..2^16-1>
    'host_name': (1, 2 ** 16 - 1),                          # opaque HostName<1..2^16-1>
    'responder_id_list': (0, 2 ** 16 - 1),                  # ResponderID responder_id_list<0..2^16-1>
    'responder_id': (1, 2 ** 16 - 1),                       # opaque ResponderID<1..2^16-1>
    'request_extensions': (0, 2 ** 16 - 1),                 # opaque Extensions<0..2^16-1>
    'ocsp_response': (1, 2 ** 24 - 1),                      # opaque OCSPResponse<1..2^24-1>
    # RFC 8422 / RFC 7919 / RFC 8446
    'ec_point_format_list': (1, 2 ** 8 - 1),                # ECPointFormat ec_point_format_list<1..2^8-1>
    'named_group_list': (2, 2 ** 16 - 1),                   # NamedGroup named_group_list<2..2^16-1>
    'versions': (2, 254),                                   # ProtocolVersion versions<2..254>
    'client_shares': (0, 2 ** 16 - 1),                      # KeyShareEntry client_shares<0..2^16-1>
    'key_exchange': (1, 2 ** 16 - 1),                       # opaque key_exchange<1..2^16-1>
    'ke_modes': (1, 255),                                   # PskKeyExchangeMode ke_modes<1..255>
    # RFC 5746
    'renegotiated_connection': (0, 255),                    # opaque renegotiated_connection<0..255>
    # RFC 7301 (and draft-vvv-tls-alps which reuses ProtocolName)
    'protocol_name_list': (2, 2 ** 16 - 1),                 # ProtocolName protocol_name_list<2..2^16-1>
    'protocol_name': (1, 2 ** 8 - 1),                       # opaque ProtocolName<1..2^8-1>
    # draft-agl-tls-nextprotoneg: 8-bit length prefixed, non-empty strings
    'npn_protocol_name': (1, 2 ** 8 - 1),
    # RFC 8472
    'key_parameters_list': (1, 2 ** 8 - 1),                 # TokenBindingKeyParameters key_parameters_list<1..2^8-1>
    # RFC 8879
    'compress_algorithms': (2, 2 ** 8 - 2),                 # CertificateCompressionAlgorithm algorithms<2..2^8-2>
    # RFC 6962 3.2, 3.3; RFC 5246 4.7 (digitally-signed)
    'sct_list': (1, 2 ** 16 - 1),                           # SerializedSCT sct_list<1..2^16-1>
    'serialized_sct': (1, 2 ** 16 - 1),                     # opaque SerializedSCT<1..2^16-1>
    'ct_extensions': (0, 2 ** 16 - 1),                      # opaque CtExtensions<0..2^16-1>
    'signature': (0, 2 ** 16 - 1),                          # opaque signature<0..2^16-1>
}


def prefix_width(ceiling):
    """Number of bytes of the length prefix of a vector <..ceiling> (RFC 5246 section 4.3)."""
    width = 1
    while ceiling >= 1 << (8 * width):
        width += 1
    return width


# ---------------------------------------------------------------------------------------------------------
# inline enumerations of the specifications
# ---------------------------------------------------------------------------------------------------------

CONTENT_TYPE = {                       # RFC 5246 6.2.1, RFC 6520
    'change_cipher_spec': 20, 'alert': 21, 'handshake': 22, 'application_data': 23, 'heartbeat': 24,
}
ALERT_LEVEL = {'warning': 1, 'fatal': 2}
ALERT_DESCRIPTION = {                  # RFC 5246 7.2, RFC 8446 6, RFC 6066, RFC 7507, RFC 4279, RFC 7301
    'close_notify': 0, 'unexpected_message': 10, 'bad_record_mac': 20, 'decryption_failed': 21,
    'record_overflow': 22, 'decompression_failure': 30, 'handshake_failure': 40, 'no_certificate': 41,
    'bad_certificate': 42, 'unsupported_certificate': 43, 'certificate_revoked': 44, 'certificate_expired': 45,
    'certificate_unknown': 46, 'illegal_parameter': 47, 'unknown_ca': 48, 'access_denied': 49,
    'decode_error': 50, 'decrypt_error': 51, 'export_restriction': 60, 'protocol_version': 70,
    'insufficient_security': 71, 'internal_error': 80, 'inappropriate_fallback': 86, 'user_canceled': 90,
    'no_renegotiation': 100, 'missing_extension': 109, 'unsupported_extension': 110,
    'certificate_unobtainable': 111, 'unrecognized_name': 112, 'bad_certificate_status_response': 113,
    'bad_certificate_hash_value': 114, 'unknown_psk_identity': 115, 'certificate_required': 116,
    'no_application_protocol': 120,
}
HANDSHAKE_TYPE = {                     # RFC 5246 7.4, RFC 6066, RFC 8446 4
    'hello_request': 0, 'client_hello': 1, 'server_hello': 2, 'certificate': 11, 'server_key_exchange': 12,
    'certificate_request': 13, 'server_hello_done': 14, 'certificate_verify': 15, 'client_key_exchange': 16,
    'finished': 20, 'certificate_status': 22,
}
CLIENT_CERTIFICATE_TYPE = {            # RFC 5246 7.4.4, RFC 8422 5.5, RFC 9189
    'rsa_sign': 1, 'dss_sign': 2, 'rsa_fixed_dh': 3, 'dss_fixed_dh': 4, 'rsa_ephemeral_dh': 5,
    'dss_ephemeral_dh': 6, 'fortezza_dms': 20, 'ecdsa_sign': 64, 'rsa_fixed_ecdh': 65,
    'ecdsa_fixed_ecdh': 66, 'gost_sign256': 67, 'gost_sign512': 68,
}
CERTIFICATE_STATUS_TYPE = {'ocsp': 1}  # RFC 6066 8
SERVER_NAME_TYPE = {'host_name': 0}    # RFC 6066 3
CT_VERSION = {'v1': 0}                 # RFC 6962 3.2
CHANGE_CIPHER_SPEC_TYPE = {'change_cipher_spec': 1}

SSL2_MESSAGE_TYPE = {                  # SSL 2.0 draft, "Protocol Constant Values"
    'error': 0, 'client_hello': 1, 'client_master_key': 2, 'client_finished': 3, 'server_hello': 4,
    'server_verify': 5, 'server_finished': 6, 'request_certificate': 7, 'client_certificate': 8,
}
SSL2_ERROR = {                         # SSL_PE_* of the SSL 2.0 draft
    'no_cipher': 0x0001, 'no_certificate': 0x0002, 'bad_certificate': 0x0004,
    'unsupported_certificate_type': 0x0006,
}
SSL2_CERTIFICATE_TYPE = {'x509': 1}    # SSL_CT_X509_CERTIFICATE
SSL2_VERSION = 0x0002                  # SSL_CLIENT_VERSION / SSL_SERVER_VERSION

EXTENSION_TYPE = {                     # IANA "TLS ExtensionType Values" and the individual drafts
    'server_name': 0, 'status_request': 5, 'supported_groups': 10, 'ec_point_formats': 11,
    'signature_algorithms': 13, 'application_layer_protocol_negotiation': 16,
    'signed_certificate_timestamp': 18, 'padding': 21, 'encrypt_then_mac': 22, 'extended_master_secret': 23,
    'token_binding': 24, 'compress_certificate': 27, 'record_size_limit': 28, 'delegated_credentials': 34,
    'session_ticket': 35, 'key_share_reserved': 40, 'supported_versions': 43, 'psk_key_exchange_modes': 45,
    'signature_algorithms_cert': 50, 'key_share': 51, 'next_protocol_negotiation': 13172,
    'application_layer_protocol_settings': 17513, 'channel_id': 30032, 'renegotiation_info': 65281,
    'short_record_header': 65283,
}
_EXTENSION_NAME = dict((code, name) for name, code in EXTENSION_TYPE.items())

GREASE_TWO_BYTE = tuple(0x0a0a + 0x1010 * i for i in range(16))      # RFC 8701 section 2
GREASE_ONE_BYTE = tuple(0x0b + 0x1f * i for i in range(8))           # RFC 8701 (PskKeyExchangeModes, ...)
SCSV_RENEGOTIATION = 0x00ff            # RFC 5746 TLS_EMPTY_RENEGOTIATION_INFO_SCSV
SCSV_FALLBACK = 0x5600                 # RFC 7507 TLS_FALLBACK_SCSV


def _rev(table):
    return dict((code, name) for name, code in table.items())


# ---------------------------------------------------------------------------------------------------------
# primitives
# ---------------------------------------------------------------------------------------------------------

def _b(value):
    """Opaque field of a model -> bytes."""
    if isinstance(value, (bytes, bytearray)):
        return bytes(value)
    if isinstance(value, str):
        try:
            return bytes.fromhex(value)
        except ValueError:
            raise RefError('not a hex string: %r' % value[:40])
    if isinstance(value, dict) and set(value) == {'fill', 'len'}:
        return bytes([value['fill']]) * value['len']
    raise RefError('not an opaque value: %r' % (value,))


def _hex(data):
    return bytes(data).hex()


def _uint(value, size):
    if isinstance(value, bool) or not isinstance(value, int) or not 0 <= value < 1 << (8 * size):
        raise RefError('%r does not fit uint%d' % (value, 8 * size))
    return value.to_bytes(size, 'big')


def _named(table, name, what):
    try:
        return table[name]
    except (KeyError, TypeError):
        raise RefError('unknown %s %r' % (what, name))


def _vector(name, body):
    floor, ceiling = VECTORS[name]
    if not floor <= len(body) <= ceiling:
        raise RefError('%s<%d..%d> cannot hold %d bytes' % (name, floor, ceiling, len(body)))
    return len(body).to_bytes(prefix_width(ceiling), 'big') + body


def _uint_list(values, size):
    return b''.join(_uint(value, size) for value in values)


class _Reader(object):
    def __init__(self, data):
        self.data = bytes(data)
        self.pos = 0

    @property
    def left(self):
        return len(self.data) - self.pos

    def raw(self, size):
        if size < 0 or self.left < size:
            raise RefError('truncated: need %d bytes at offset %d, have %d' % (size, self.pos, self.left))
        chunk = self.data[self.pos:self.pos + size]
        self.pos += size
        return chunk

    def uint(self, size):
        return int.from_bytes(self.raw(size), 'big')

    def named(self, table, size, what):
        code = self.uint(size)
        for name, value in table.items():
            if value == code:
                return name
        raise RefError('unknown %s code %d' % (what, code))

    def vector(self, name):
        floor, ceiling = VECTORS[name]
        length = self.uint(prefix_width(ceiling))
        if not floor <= length <= ceiling:
            raise RefError('%s<%d..%d> declared with %d bytes' % (name, floor, ceiling, length))
        return self.raw(length)

    def uint_vector(self, name, size):
        body = self.vector(name)
        if len(body) % size:
            raise RefError('%s: %d bytes is not a multiple of the item size %d' % (name, len(body), size))
        return [int.from_bytes(body[i:i + size], 'big') for i in range(0, len(body), size)]

    def rest(self):
        return self.raw(self.left)

    def end(self, what):
        if self.left:
            raise RefError('%s: %d trailing bytes' % (what, self.left))


def _sub(data, fn, what):
    reader = _Reader(data)
    value = fn(reader)
    reader.end(what)
    return value


def _items(reader, fn):
    out = []
    while reader.left:
        out.append(fn(reader))
    return out


# ---------------------------------------------------------------------------------------------------------
# extensions (RFC 5246 7.4.1.4:  struct { ExtensionType extension_type; opaque extension_data<0..2^16-1>; })
# ---------------------------------------------------------------------------------------------------------

def _enc_empty(ext):  # pylint: disable=unused-argument
    return b''


def _dec_empty(reader):  # pylint: disable=unused-argument
    return {}


def _enc_server_name(ext):
    entry = _uint(_named(SERVER_NAME_TYPE, ext.get('name_type', 'host_name'), 'name type'), 1)
    entry += _vector('host_name', _b(ext['host_name']))
    return _vector('server_name_list', entry)


def _dec_server_name(reader):
    def entry(sub):
        return {'name_type': sub.named(SERVER_NAME_TYPE, 1, 'name type'), 'host_name': _hex(sub.vector('host_name'))}
    entries = _sub(reader.vector('server_name_list'), lambda sub: _items(sub, entry), 'server_name_list')
    if len(entries) != 1:
        # RFC 6066: not more than one name of the same type, and host_name is the only type
        raise RefError('server_name_list with %d entries' % len(entries))
    return entries[0]


def _enc_uint_vector(field, vector, size):
    def enc(ext):
        return _vector(vector, _uint_list(ext[field], size))
    return enc


def _dec_uint_vector(field, vector, size):
    def dec(reader):
        return {field: reader.uint_vector(vector, size)}
    return dec


def _enc_share(share):
    return _uint(share['group'], 2) + _vector('key_exchange', _b(share['key_exchange']))


def _dec_share(reader):
    return {'group': reader.uint(2), 'key_exchange': _hex(reader.vector('key_exchange'))}


def _enc_key_share_client(ext):
    return _vector('client_shares', b''.join(_enc_share(share) for share in ext['shares']))


def _dec_key_share_client(reader):
    return {'shares': _sub(reader.vector('client_shares'), lambda sub: _items(sub, _dec_share), 'client_shares')}


def _enc_key_share_server(ext):
    if 'selected_group' in ext:                       # KeyShareHelloRetryRequest
        if 'share' in ext:
            raise RefError('key_share with both selected_group and share')
        return _uint(ext['selected_group'], 2)
    return _enc_share(ext['share'])                   # KeyShareServerHello


def _dec_key_share_server(reader):
    if reader.left == 2:
        return {'selected_group': reader.uint(2)}
    return {'share': _dec_share(reader)}


def _enc_status_request(ext):
    data = _uint(_named(CERTIFICATE_STATUS_TYPE, ext.get('status_type', 'ocsp'), 'status type'), 1)
    data += _vector('responder_id_list', b''.join(_vector('responder_id', _b(rid)) for rid in ext['responder_ids']))
    data += _vector('request_extensions', _b(ext['request_extensions']))
    return data


def _dec_status_request(reader):
    status_type = reader.named(CERTIFICATE_STATUS_TYPE, 1, 'status type')
    ids = _sub(reader.vector('responder_id_list'),
               lambda sub: _items(sub, lambda s: _hex(s.vector('responder_id'))), 'responder_id_list')
    return {'status_type': status_type, 'responder_ids': ids,
            'request_extensions': _hex(reader.vector('request_extensions'))}


def _enc_renegotiation_info(ext):
    return _vector('renegotiated_connection', _b(ext['renegotiated_connection']))


def _dec_renegotiation_info(reader):
    return {'renegotiated_connection': _hex(reader.vector('renegotiated_connection'))}


def _enc_session_ticket(ext):
    return _b(ext['ticket'])                          # RFC 5077 3.2: the ticket is the whole extension_data


def _dec_session_ticket(reader):
    return {'ticket': _hex(reader.rest())}


def _enc_protocol_names(ext):
    return _vector('protocol_name_list', b''.join(_vector('protocol_name', _b(p)) for p in ext['protocols']))


def _dec_protocol_names(reader):
    names = _sub(reader.vector('protocol_name_list'),
                 lambda sub: _items(sub, lambda s: _hex(s.vector('protocol_name'))), 'protocol_name_list')
    return {'protocols': names}


def _enc_npn_server(ext):
    # draft-agl-tls-nextprotoneg-04 section 3: extension_data is the bare concatenation of 8-bit length
    # prefixed, non-empty strings; the list itself may be empty
    return b''.join(_vector('npn_protocol_name', _b(p)) for p in ext['protocols'])


def _dec_npn_server(reader):
    return {'protocols': _items(reader, lambda s: _hex(s.vector('npn_protocol_name')))}


def _enc_token_binding(ext):
    return _uint(ext['major'], 1) + _uint(ext['minor'], 1) + \
        _vector('key_parameters_list', _uint_list(ext['parameters'], 1))


def _dec_token_binding(reader):
    return {'major': reader.uint(1), 'minor': reader.uint(1),
            'parameters': reader.uint_vector('key_parameters_list', 1)}


def _enc_record_size_limit(ext):
    return _uint(ext['limit'], 2)


def _dec_record_size_limit(reader):
    return {'limit': reader.uint(2)}


def _enc_supported_versions_server(ext):
    return _uint(ext['selected'], 2)


def _dec_supported_versions_server(reader):
    return {'selected': reader.uint(2)}


def _enc_sct(sct):
    body = _uint(_named(CT_VERSION, sct.get('version', 'v1'), 'SCT version'), 1)
    log_id = _b(sct['log_id'])
    if len(log_id) != 32:
        raise RefError('LogID is opaque key_id[32]')
    body += log_id
    body += _uint(sct['timestamp'], 8)                # uint64, milliseconds since the epoch
    body += _vector('ct_extensions', _b(sct['extensions']))
    body += _uint(sct['algorithm'], 2)                # digitally-signed: SignatureAndHashAlgorithm
    body += _vector('signature', _b(sct['signature']))
    return _vector('serialized_sct', body)


def _dec_sct(reader):
    def body(sub):
        return {'version': sub.named(CT_VERSION, 1, 'SCT version'), 'log_id': _hex(sub.raw(32)),
                'timestamp': sub.uint(8), 'extensions': _hex(sub.vector('ct_extensions')),
                'algorithm': sub.uint(2), 'signature': _hex(sub.vector('signature'))}
    return _sub(reader.vector('serialized_sct'), body, 'SerializedSCT')


def _enc_sct_server(ext):
    return _vector('sct_list', b''.join(_enc_sct(sct) for sct in ext['scts']))


def _dec_sct_server(reader):
    return {'scts': _sub(reader.vector('sct_list'), lambda sub: _items(sub, _dec_sct), 'sct_list')}


def _enc_padding(ext):
    length = ext['length']
    if isinstance(length, bool) or not isinstance(length, int) or length < 0:
        raise RefError('padding length %r' % (length,))
    return b'\x00' * length                           # RFC 7685: all zero


def _dec_padding(reader):
    data = reader.rest()
    if data.strip(b'\x00'):
        raise RefError('padding extension with non-zero bytes')
    return {'length': len(data)}


_VEC = (_enc_uint_vector, _dec_uint_vector)
_SIGALGS = (_enc_uint_vector('algorithms', 'supported_signature_algorithms', 2),
            _dec_uint_vector('algorithms', 'supported_signature_algorithms', 2))
_EMPTY = (_enc_empty, _dec_empty)

# (extension name, side) -> (encoder of extension_data, decoder of extension_data)
_EXTENSION_CODECS = {
    ('server_name', 'client'): (_enc_server_name, _dec_server_name),
    ('server_name', 'server'): _EMPTY,                                       # RFC 6066 3: empty in the reply
    ('ec_point_formats', 'client'): tuple(f('formats', 'ec_point_format_list', 1) for f in _VEC),
    ('ec_point_formats', 'server'): tuple(f('formats', 'ec_point_format_list', 1) for f in _VEC),
    ('supported_groups', 'client'): tuple(f('groups', 'named_group_list', 2) for f in _VEC),
    ('supported_versions', 'client'): tuple(f('versions', 'versions', 2) for f in _VEC),
    ('supported_versions', 'server'): (_enc_supported_versions_server, _dec_supported_versions_server),
    ('signature_algorithms', 'client'): _SIGALGS,
    ('signature_algorithms_cert', 'client'): _SIGALGS,
    ('delegated_credentials', 'client'): _SIGALGS,                           # RFC 9345 3
    ('key_share', 'client'): (_enc_key_share_client, _dec_key_share_client),
    ('key_share', 'server'): (_enc_key_share_server, _dec_key_share_server),
    ('key_share_reserved', 'client'): (_enc_key_share_client, _dec_key_share_client),
    ('status_request', 'client'): (_enc_status_request, _dec_status_request),
    ('status_request', 'server'): _EMPTY,                                    # RFC 6066 8
    ('renegotiation_info', 'client'): (_enc_renegotiation_info, _dec_renegotiation_info),
    ('renegotiation_info', 'server'): (_enc_renegotiation_info, _dec_renegotiation_info),
    ('session_ticket', 'client'): (_enc_session_ticket, _dec_session_ticket),
    ('session_ticket', 'server'): (_enc_session_ticket, _dec_session_ticket),
    ('application_layer_protocol_negotiation', 'client'): (_enc_protocol_names, _dec_protocol_names),
    ('application_layer_protocol_negotiation', 'server'): (_enc_protocol_names, _dec_protocol_names),
    ('application_layer_protocol_settings', 'client'): (_enc_protocol_names, _dec_protocol_names),
    ('next_protocol_negotiation', 'client'): _EMPTY,
    ('next_protocol_negotiation', 'server'): (_enc_npn_server, _dec_npn_server),
    ('channel_id', 'client'): _EMPTY,
    ('channel_id', 'server'): _EMPTY,
    ('encrypt_then_mac', 'client'): _EMPTY,                                  # RFC 7366 2
    ('encrypt_then_mac', 'server'): _EMPTY,
    ('extended_master_secret', 'client'): _EMPTY,                            # RFC 7627 5.1
    ('extended_master_secret', 'server'): _EMPTY,
    ('short_record_header', 'client'): _EMPTY,
    ('token_binding', 'client'): (_enc_token_binding, _dec_token_binding),
    ('psk_key_exchange_modes', 'client'): tuple(f('modes', 'ke_modes', 1) for f in _VEC),
    ('record_size_limit', 'client'): (_enc_record_size_limit, _dec_record_size_limit),
    ('record_size_limit', 'server'): (_enc_record_size_limit, _dec_record_size_limit),
    ('signed_certificate_timestamp', 'client'): _EMPTY,                      # RFC 6962 3.3.1
    ('signed_certificate_timestamp', 'server'): (_enc_sct_server, _dec_sct_server),
    ('compress_certificate', 'client'): tuple(f('algorithms', 'compress_algorithms', 2) for f in _VEC),
    ('padding', 'client'): (_enc_padding, _dec_padding),
}


def structured_extensions(side):
    """Names of the extensions this codec knows the inner structure of, for one side."""
    return sorted(name for name, codec_side in _EXTENSION_CODECS if codec_side == side)


def extension_type_code(ext):
    if ext['ext'] == 'opaque':
        return ext['type']
    return _named(EXTENSION_TYPE, ext['ext'], 'extension')


def encode_extension(ext, side):
    """One Extension struct: type, 16-bit length, extension_data."""
    name = ext['ext']
    if name == 'opaque':
        return _uint(ext['type'], 2) + _vector('extension_data', _b(ext['data']))
    try:
        encoder = _EXTENSION_CODECS[name, side][0]
    except KeyError:
        raise RefError('no %s-side layout for extension %r' % (side, name))
    return _uint(EXTENSION_TYPE[name], 2) + _vector('extension_data', encoder(ext))


def _read_extension(reader, side, structured):
    code = reader.uint(2)
    data = reader.vector('extension_data')
    name = _EXTENSION_NAME.get(code)
    if name is not None and (name, side) in _EXTENSION_CODECS and (structured is None or name in structured):
        decoder = _EXTENSION_CODECS[name, side][1]
        model = _sub(data, decoder, 'extension ' + name)
        model['ext'] = name
        return model
    return {'ext': 'opaque', 'type': code, 'data': _hex(data)}


def decode_extension(data, side, structured=None):
    """Strictly decode one Extension struct.  `structured` (iterable of names) restricts which extension
    types are decoded structurally; every other type is returned as an opaque {'type', 'data'} model."""
    structured = None if structured is None else set(structured)
    return _sub(data, lambda reader: _read_extension(reader, side, structured), 'extension')


def _encode_extension_block(extensions, side):
    if extensions is None:
        return b''
    return _vector('extensions', b''.join(encode_extension(ext, side) for ext in extensions))


def _read_extension_block(reader, side, structured):
    if not reader.left:
        return None                                   # select (extensions_present) { case false: struct {}; }
    block = reader.vector('extensions')
    return _sub(block, lambda sub: _items(sub, lambda s: _read_extension(s, side, structured)), 'extensions')


# ---------------------------------------------------------------------------------------------------------
# handshake messages (RFC 5246 7.4:  HandshakeType msg_type; uint24 length; body)
# ---------------------------------------------------------------------------------------------------------

def _handshake(name, body):
    return _uint(HANDSHAKE_TYPE[name], 1) + _uint(len(body), 3) + body


def _random(model):
    random = _b(model['random'])
    if len(random) != 32:
        raise RefError('Random is uint32 gmt_unix_time + opaque random_bytes[28]')
    return random


def _enc_client_hello(model):
    body = _uint(model['version'], 2) + _random(model) + _vector('session_id', _b(model['session_id']))
    body += _vector('cipher_suites', _uint_list(model['cipher_suites'], 2))
    body += _vector('compression_methods', _uint_list(model['compression_methods'], 1))
    body += _encode_extension_block(model.get('extensions'), 'client')
    return _handshake('client_hello', body)


def _dec_client_hello(reader, structured=None, **_):
    model = {'kind': 'client_hello', 'version': reader.uint(2), 'random': _hex(reader.raw(32)),
             'session_id': _hex(reader.vector('session_id')),
             'cipher_suites': reader.uint_vector('cipher_suites', 2),
             'compression_methods': reader.uint_vector('compression_methods', 1)}
    model['extensions'] = _read_extension_block(reader, 'client', structured)
    return model


def _enc_server_hello(model):
    body = _uint(model['version'], 2) + _random(model) + _vector('session_id', _b(model['session_id']))
    body += _uint(model['cipher_suite'], 2) + _uint(model['compression_method'], 1)
    body += _encode_extension_block(model.get('extensions'), 'server')
    return _handshake('server_hello', body)


def _dec_server_hello(reader, structured=None, **_):
    model = {'kind': 'server_hello', 'version': reader.uint(2), 'random': _hex(reader.raw(32)),
             'session_id': _hex(reader.vector('session_id')), 'cipher_suite': reader.uint(2),
             'compression_method': reader.uint(1)}
    model['extensions'] = _read_extension_block(reader, 'server', structured)
    return model


def _enc_certificate(model):
    chain = b''.join(_vector('asn1_cert', _b(cert)) for cert in model['certificates'])
    return _handshake('certificate', _vector('certificate_list', chain))


def _dec_certificate(reader, **_):
    certs = _sub(reader.vector('certificate_list'),
                 lambda sub: _items(sub, lambda s: _hex(s.vector('asn1_cert'))), 'certificate_list')
    return {'kind': 'certificate', 'certificates': certs}


def _enc_certificate_status(model):
    body = _uint(_named(CERTIFICATE_STATUS_TYPE, model.get('status_type', 'ocsp'), 'status type'), 1)
    return _handshake('certificate_status', body + _vector('ocsp_response', _b(model['response'])))


def _dec_certificate_status(reader, **_):
    return {'kind': 'certificate_status', 'status_type': reader.named(CERTIFICATE_STATUS_TYPE, 1, 'status type'),
            'response': _hex(reader.vector('ocsp_response'))}


def _enc_server_key_exchange(model):
    return _handshake('server_key_exchange', _b(model['params']))


def _dec_server_key_exchange(reader, **_):
    return {'kind': 'server_key_exchange', 'params': _hex(reader.rest())}


def _enc_certificate_request(model):
    body = _vector('certificate_types', _uint_list(
        [_named(CLIENT_CERTIFICATE_TYPE, name, 'client certificate type') for name in model['certificate_types']], 1))
    if model.get('signature_algorithms') is not None:       # TLS 1.2 layout (RFC 5246 7.4.4)
        body += _vector('supported_signature_algorithms', _uint_list(model['signature_algorithms'], 2))
    body += _vector('certificate_authorities', b''.join(
        _vector('distinguished_name', _b(name)) for name in model['certificate_authorities']))
    return _handshake('certificate_request', body)


def _dec_certificate_request(reader, with_signature_algorithms=None, **_):
    if with_signature_algorithms is None:
        raise RefError('certificate_request: the layout depends on the negotiated version; say which')
    types = _sub(reader.vector('certificate_types'),
                 lambda sub: _items(sub, lambda s: s.named(CLIENT_CERTIFICATE_TYPE, 1, 'client certificate type')),
                 'certificate_types')
    algorithms = None
    if with_signature_algorithms:
        algorithms = reader.uint_vector('supported_signature_algorithms', 2)
    names = _sub(reader.vector('certificate_authorities'),
                 lambda sub: _items(sub, lambda s: _hex(s.vector('distinguished_name'))), 'certificate_authorities')
    return {'kind': 'certificate_request', 'certificate_types': types, 'signature_algorithms': algorithms,
            'certificate_authorities': names}


def _enc_server_hello_done(model):  # pylint: disable=unused-argument
    return _handshake('server_hello_done', b'')


def _dec_server_hello_done(reader, **_):  # pylint: disable=unused-argument
    return {'kind': 'server_hello_done'}


_HANDSHAKE_CODECS = {
    'client_hello': (_enc_client_hello, _dec_client_hello),
    'server_hello': (_enc_server_hello, _dec_server_hello),
    'certificate': (_enc_certificate, _dec_certificate),
    'certificate_status': (_enc_certificate_status, _dec_certificate_status),
    'server_key_exchange': (_enc_server_key_exchange, _dec_server_key_exchange),
    'certificate_request': (_enc_certificate_request, _dec_certificate_request),
    'server_hello_done': (_enc_server_hello_done, _dec_server_hello_done),
}
HANDSHAKE_KINDS = tuple(sorted(_HANDSHAKE_CODECS))


def _dec_handshake(kind, data, **context):
    reader = _Reader(data)
    msg_type = reader.uint(1)
    if kind is None:
        kind = _rev(HANDSHAKE_TYPE).get(msg_type)
        if kind not in _HANDSHAKE_CODECS:
            raise RefError('handshake type %d has no layout here' % msg_type)
    elif msg_type != HANDSHAKE_TYPE[kind]:
        raise RefError('handshake type %d is not %s' % (msg_type, kind))
    length = reader.uint(3)
    body = reader.raw(length)
    reader.end('handshake message')
    return _sub(body, lambda sub: _HANDSHAKE_CODECS[kind][1](sub, **context), kind)


# ---------------------------------------------------------------------------------------------------------
# records and the small sub-protocols
# ---------------------------------------------------------------------------------------------------------

def _enc_tls_record(model):
    fragment = _b(model['fragment'])
    # struct { ContentType type; ProtocolVersion version; uint16 length; opaque fragment[length]; }
    return _uint(_named(CONTENT_TYPE, model['content_type'], 'content type'), 1) + _uint(model['version'], 2) + \
        _uint(len(fragment), 2) + fragment


def _dec_tls_record(reader, **_):
    content_type = reader.named(CONTENT_TYPE, 1, 'content type')
    version = reader.uint(2)
    return {'kind': 'tls_record', 'content_type': content_type, 'version': version,
            'fragment': _hex(reader.raw(reader.uint(2)))}


def _enc_alert(model):
    return _uint(_named(ALERT_LEVEL, model['level'], 'alert level'), 1) + \
        _uint(_named(ALERT_DESCRIPTION, model['description'], 'alert description'), 1)


def _dec_alert(reader, **_):
    return {'kind': 'alert', 'level': reader.named(ALERT_LEVEL, 1, 'alert level'),
            'description': reader.named(ALERT_DESCRIPTION, 1, 'alert description')}


def _enc_change_cipher_spec(model):
    return _uint(_named(CHANGE_CIPHER_SPEC_TYPE, model.get('type', 'change_cipher_spec'), 'ccs type'), 1)


def _dec_change_cipher_spec(reader, **_):
    return {'kind': 'change_cipher_spec', 'type': reader.named(CHANGE_CIPHER_SPEC_TYPE, 1, 'ccs type')}


def _enc_application_data(model):
    return _b(model['data'])


def _dec_application_data(reader, **_):
    return {'kind': 'application_data', 'data': _hex(reader.rest())}


# -- SSL 2.0 ------------------------------------------------------------------------------------------------

def _enc_ssl2_client_hello(model):
    specs = _uint_list(model['cipher_specs'], 3)
    session_id, challenge = _b(model['session_id']), _b(model['challenge'])
    # CLIENT-HELLO: version, cipher-specs-length, session-id-length, challenge-length, then the three fields
    return _uint(model.get('version', SSL2_VERSION), 2) + _uint(len(specs), 2) + _uint(len(session_id), 2) + \
        _uint(len(challenge), 2) + specs + session_id + challenge


def _dec_ssl2_client_hello(reader, **_):
    version = reader.uint(2)
    specs_length, session_id_length, challenge_length = reader.uint(2), reader.uint(2), reader.uint(2)
    if specs_length % 3:
        raise RefError('CIPHER-SPECS-LENGTH %d is not a multiple of 3' % specs_length)
    specs = reader.raw(specs_length)
    return {'kind': 'ssl2_client_hello', 'version': version,
            'cipher_specs': [int.from_bytes(specs[i:i + 3], 'big') for i in range(0, specs_length, 3)],
            'session_id': _hex(reader.raw(session_id_length)), 'challenge': _hex(reader.raw(challenge_length))}


def _enc_ssl2_server_hello(model):
    certificate, specs = _b(model['certificate']), _uint_list(model['cipher_specs'], 3)
    connection_id = _b(model['connection_id'])
    if not isinstance(model['session_id_hit'], bool):
        raise RefError('SESSION-ID-HIT is a flag')
    # SERVER-HELLO: session-id-hit, certificate-type, version, certificate-length, cipher-specs-length,
    # connection-id-length, then the three fields
    return _uint(1 if model['session_id_hit'] else 0, 1) + \
        _uint(_named(SSL2_CERTIFICATE_TYPE, model.get('certificate_type', 'x509'), 'certificate type'), 1) + \
        _uint(model.get('version', SSL2_VERSION), 2) + _uint(len(certificate), 2) + _uint(len(specs), 2) + \
        _uint(len(connection_id), 2) + certificate + specs + connection_id


def _dec_ssl2_server_hello(reader, **_):
    hit = reader.uint(1)
    if hit > 1:
        raise RefError('SESSION-ID-HIT %d' % hit)
    certificate_type = reader.named(SSL2_CERTIFICATE_TYPE, 1, 'certificate type')
    version = reader.uint(2)
    certificate_length, specs_length, connection_id_length = reader.uint(2), reader.uint(2), reader.uint(2)
    if specs_length % 3:
        raise RefError('CIPHER-SPECS-LENGTH %d is not a multiple of 3' % specs_length)
    certificate = reader.raw(certificate_length)
    specs = reader.raw(specs_length)
    return {'kind': 'ssl2_server_hello', 'session_id_hit': bool(hit), 'certificate_type': certificate_type,
            'version': version, 'certificate': _hex(certificate),
            'cipher_specs': [int.from_bytes(specs[i:i + 3], 'big') for i in range(0, specs_length, 3)],
            'connection_id': _hex(reader.raw(connection_id_length))}


def _enc_ssl2_error(model):
    return _uint(_named(SSL2_ERROR, model['error'], 'SSL 2.0 error'), 2)


def _dec_ssl2_error(reader, **_):
    return {'kind': 'ssl2_error', 'error': reader.named(SSL2_ERROR, 2, 'SSL 2.0 error')}


_SSL2_MESSAGE_OF_KIND = {'ssl2_client_hello': 'client_hello', 'ssl2_server_hello': 'server_hello',
                         'ssl2_error': 'error'}


def _enc_ssl2_record(model):
    message = model['message']
    kind = message.get('kind')
    if kind not in _SSL2_MESSAGE_OF_KIND:
        raise RefError('not an SSL 2.0 message: %r' % kind)
    data = _uint(SSL2_MESSAGE_TYPE[_SSL2_MESSAGE_OF_KIND[kind]], 1) + _CODECS[kind][0](message)
    padding = _b(model.get('padding', ''))
    header = model.get('header', 2)
    if header == 2:
        # two byte header: most significant bit set, 15 bit record length, no padding
        if padding:
            raise RefError('the two byte record header cannot announce padding')
        if len(data) >= 1 << 15:
            raise RefError('record of %d bytes does not fit the two byte header' % len(data))
        return _uint(0x8000 | len(data), 2) + data
    if header == 3:
        # three byte header: MSB clear, is-escape bit, 14 bit record length (includes the padding), padding length
        length = len(data) + len(padding)
        if length >= 1 << 14 or len(padding) > 255:
            raise RefError('record of %d bytes does not fit the three byte header' % length)
        first = (0x40 if model.get('escape') else 0) | (length >> 8)
        return bytes([first, length & 0xff, len(padding)]) + data + padding
    raise RefError('SSL 2.0 record header of %r bytes' % (header,))


def _dec_ssl2_record(reader, **_):
    first = reader.uint(1)
    if first & 0x80:
        header, escape = 2, False
        length = ((first & 0x7f) << 8) | reader.uint(1)
        padding_length = 0
    else:
        header, escape = 3, bool(first & 0x40)
        length = ((first & 0x3f) << 8) | reader.uint(1)
        padding_length = reader.uint(1)
    record = reader.raw(length)
    if not record or padding_length > len(record) - 1:
        raise RefError('padding longer than the record')
    data, padding = record[:len(record) - padding_length], record[len(record) - padding_length:]
    name = _rev(SSL2_MESSAGE_TYPE).get(data[0])
    kind = dict((v, k) for k, v in _SSL2_MESSAGE_OF_KIND.items()).get(name)
    if kind is None:
        raise RefError('SSL 2.0 message type %d has no layout here' % data[0])
    message = _sub(data[1:], _CODECS[kind][1], kind)
    model = {'kind': 'ssl2_record', 'header': header, 'message': message}
    if header == 3:
        model['escape'] = escape
        model['padding'] = _hex(padding)
    return model


_CODECS = {
    'tls_record': (_enc_tls_record, _dec_tls_record),
    'alert': (_enc_alert, _dec_alert),
    'change_cipher_spec': (_enc_change_cipher_spec, _dec_change_cipher_spec),
    'application_data': (_enc_application_data, _dec_application_data),
    'ssl2_record': (_enc_ssl2_record, _dec_ssl2_record),
    'ssl2_client_hello': (_enc_ssl2_client_hello, _dec_ssl2_client_hello),
    'ssl2_server_hello': (_enc_ssl2_server_hello, _dec_ssl2_server_hello),
    'ssl2_error': (_enc_ssl2_error, _dec_ssl2_error),
}
KINDS = tuple(sorted(list(_CODECS) + list(_HANDSHAKE_CODECS) + ['extension']))


# ---------------------------------------------------------------------------------------------------------
# public entry points
# ---------------------------------------------------------------------------------------------------------

def encode(model):
    """Model -> wire bytes.  Handshake kinds yield the complete handshake message (type, uint24 length,
    body); 'extension' yields one Extension struct and needs model['side']."""
    kind = model.get('kind')
    try:
        if kind == 'extension':
            return encode_extension(model, model['side'])
        if kind in _HANDSHAKE_CODECS:
            return _HANDSHAKE_CODECS[kind][0](model)
        if kind in _CODECS:
            return _CODECS[kind][0](model)
    except (KeyError, TypeError, AttributeError) as e:
        raise RefError('malformed %s model: %r' % (kind, e))
    raise RefError('unknown kind %r' % (kind,))


def decode(kind, data, **context):
    """Wire bytes -> model (strict).  Context: side= and structured= for 'extension'; structured= for the
    hellos; with_signature_algorithms= for 'certificate_request'; kind 'handshake' dispatches on the type."""
    data = bytes(data)
    if kind == 'extension':
        side = context['side']
        model = decode_extension(data, side, context.get('structured'))
        model['kind'] = 'extension'
        model['side'] = side
        return model
    if kind == 'handshake':
        return _dec_handshake(None, data, **context)
    if kind in _HANDSHAKE_CODECS:
        return _dec_handshake(kind, data, **context)
    if kind in _CODECS:
        return _sub(data, lambda reader: _CODECS[kind][1](reader, **context), kind)
    raise RefError('unknown kind %r' % (kind,))


def canon(model):
    """Normal form of a model for comparisons: opaque values as hex strings (bytes.hex()), tuples as lists."""
    if isinstance(model, dict):
        if set(model) == {'fill', 'len'}:
            return _hex(_b(model))
        return dict((key, canon(value)) for key, value in model.items())
    if isinstance(model, (list, tuple)):
        return [canon(item) for item in model]
    if isinstance(model, (bytes, bytearray)):
        return _hex(model)
    return model
