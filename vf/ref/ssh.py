# -*- coding: utf-8 -*-
"""Independent SSH reference codec (encoder + strict decoder) on plain Python values.

Written from the specification texts only; it imports neither cryptoparser nor cryptodatahub.

* RFC 4251 section 5     byte, boolean, uint32, uint64, string, mpint, name-list
* RFC 4251 section 6     algorithm / method names (printable US-ASCII, no comma, 1..64 characters)
* RFC 4253 section 4.2   identification string  SSH-protoversion-softwareversion SP comments CR LF
* RFC 4253 section 6     binary packet (no MAC, no compression, cipher "none": block size 8)
* RFC 4253 section 6.6   "ssh-rsa" and "ssh-dss" public key formats; RFC 8332 keeps the "ssh-rsa" key format
* RFC 4253 section 7.1   SSH_MSG_KEXINIT (20);  section 7.3  SSH_MSG_NEWKEYS (21)
* RFC 4253 section 8     SSH_MSG_KEXDH_INIT (30) / SSH_MSG_KEXDH_REPLY (31)
* RFC 4253 section 11    SSH_MSG_DISCONNECT (1), SSH_MSG_UNIMPLEMENTED (3)
* RFC 4419 section 3/5   SSH_MSG_KEX_DH_GEX_REQUEST (34), _GROUP (31), _INIT (32), _REPLY (33)
* RFC 5656 section 3.1   "ecdsa-sha2-*" key format (Q per SEC1 2.3.3, fixed field width; compression MAY be used),
                         section 4: SSH_MSG_KEX_ECDH_INIT (30) / _REPLY (31) carry Q_C / Q_S as strings
* RFC 8709 section 4     "ssh-ed25519" key format (32 octets)
* OpenSSH PROTOCOL.certkeys   *-cert-v01@openssh.com certificates (RSA, DSA, ECDSA, Ed25519); options are
                         (string name, string data) tuples where the data of a string-valued option is itself an
                         SSH string inside the data string, and the data of a flag option is empty
* legacy *-cert-v00@openssh.com (RSA, DSA): no published specification is left in current OpenSSH; the layout
  below is the one of OpenSSH 5.4-6.x (key.c cert_parse with v00: no serial, one "constraints" string instead of
  critical options + extensions, nonce placed after the constraints)

Models are plain dicts; integers are Python ints, octet strings are bytes, text is str, lists are lists.

    banner    {'proto': '2.0', 'software': 'OpenSSH_8.9p1', 'comment': None | 'text'}
    messages  {'t': 'kexinit', 'cookie': 16 bytes, 'kex': [...], 'hostkey': [...], 'enc_c2s': [...],
               'enc_s2c': [...], 'mac_c2s': [...], 'mac_s2c': [...], 'cmp_c2s': [...], 'cmp_s2c': [...],
               'lang_c2s': [...], 'lang_s2c': [...], 'follows': bool, 'reserved': uint32}
              {'t': 'disconnect', 'reason': uint32, 'description': str, 'language': str}
              {'t': 'unimplemented', 'seq': uint32}          {'t': 'newkeys'}
              {'t': 'kexdh_init', 'e': int}                  {'t': 'kexdh_reply', 'host_key': KEY, 'f': int, 'sig': bytes}
              {'t': 'ecdh_init', 'q': bytes}                 {'t': 'ecdh_reply', 'host_key': KEY, 'q': bytes, 'sig': bytes}
              {'t': 'gex_request', 'min': u32, 'n': u32, 'max': u32}   {'t': 'gex_group', 'p': int, 'g': int}
              {'t': 'gex_init', 'e': int}                    {'t': 'gex_reply', 'host_key': KEY, 'f': int, 'sig': bytes}
    keys      {'t': 'ssh-rsa', 'e': int, 'n': int}           {'t': 'ssh-dss', 'p': int, 'q': int, 'g': int, 'y': int}
              {'t': 'ecdsa-sha2-nistp256', 'curve': 'nistp256', 'x': int, 'y': int, 'compressed': bool}
              {'t': 'ssh-ed25519', 'pk': 32 bytes}
    v01 cert  {'t': '<plain type>-cert-v01@openssh.com', 'nonce': bytes, 'key': KEY-without-type-string (same dict
               layout as the plain key, its 't' is the plain type), 'serial': u64, 'type': u32, 'key_id': str,
               'principals': [str], 'valid_after': u64, 'valid_before': u64 (FOREVER = 2**64-1),
               'critical': [OPTION], 'extensions': [OPTION], 'reserved': bytes, 'signature_key': KEY,
               'signature': {'type': str, 'blob': bytes}}
    v00 cert  {'t': 'ssh-rsa-cert-v00@openssh.com' | 'ssh-dss-cert-v00@openssh.com', 'key', 'type', 'key_id',
               'principals', 'valid_after', 'valid_before', 'constraints': [OPTION], 'nonce', 'reserved',
               'signature_key', 'signature'}
    OPTION    {'name': str, 'kind': 'flag'} | {'name': str, 'kind': 'string', 'value': str}
              | {'name': str, 'kind': 'raw', 'data': bytes}
"""

FOREVER = 0xffffffffffffffff

MSG_DISCONNECT = 1
MSG_UNIMPLEMENTED = 3
MSG_KEXINIT = 20
MSG_NEWKEYS = 21
MSG_KEXDH_INIT = 30
MSG_KEXDH_REPLY = 31
MSG_KEX_DH_GEX_GROUP = 31
MSG_KEX_DH_GEX_INIT = 32
MSG_KEX_DH_GEX_REPLY = 33
MSG_KEX_DH_GEX_REQUEST = 34

# RFC 5656 section 10.1 (required curves) -> field element width in octets (SEC1 2.3.5: ceil(log2(q) / 8))
CURVES = {'nistp256': 32, 'nistp384': 48, 'nistp521': 66}
# domain parameters (FIPS 186-4 D.1.2) used only to build / expand compressed points: y^2 = x^3 - 3x + b (mod p)
CURVE_PARAMS = {
    'nistp256': (2 ** 256 - 2 ** 224 + 2 ** 192 + 2 ** 96 - 1,
                 0x5ac635d8aa3a93e7b3ebbd55769886bc651d06b0cc53b0f63bce3c3e27d2604b),
    'nistp384': (2 ** 384 - 2 ** 128 - 2 ** 96 + 2 ** 32 - 1,
                 0xb3312fa7e23ee7e4988e056be3f82d19181d9c6efe8141120314088f5013875ac656398d8a2ed19d2a85c8edd3ec2aef),
    'nistp521': (2 ** 521 - 1,
                 0x051953eb9618e1c9a1f929a21a0b68540eea2da725b99b315f3b8b489918ef109e156193951ec7e937b1652c0bd3bb1bf073573df883d2c34f1ef451fd46b503f00),
}

KEXINIT_LISTS = ('kex', 'hostkey', 'enc_c2s', 'enc_s2c', 'mac_c2s', 'mac_s2c', 'cmp_c2s', 'cmp_s2c', 'lang_c2s', 'lang_s2c')

PLAIN_KEY_TYPES = ('ssh-rsa', 'ssh-dss', 'ecdsa-sha2-nistp256', 'ecdsa-sha2-nistp384', 'ecdsa-sha2-nistp521',
                   'ssh-ed25519')
CERT_V01_SUFFIX = '-cert-v01@openssh.com'
CERT_V00_SUFFIX = '-cert-v00@openssh.com'


class RefError(Exception):
    """The strict decoder met bytes that are not a conformant encoding."""


# ---------------------------------------------------------------------------------------------------
# RFC 4251 section 5 — encoders
# ---------------------------------------------------------------------------------------------------

def enc_byte(value):
    if not 0 <= value <= 0xff:
        raise ValueError('byte out of range: %r' % (value,))
    return bytes([value])


def enc_boolean(value):
    # "The value 0 represents FALSE, and the value 1 represents TRUE. ... applications MUST NOT store values
    # other than 0 and 1."
    return b'\x01' if value else b'\x00'


def enc_uint32(value):
    if not 0 <= value <= 0xffffffff:
        raise ValueError('uint32 out of range: %r' % (value,))
    return value.to_bytes(4, 'big')


def enc_uint64(value):
    if not 0 <= value <= 0xffffffffffffffff:
        raise ValueError('uint64 out of range: %r' % (value,))
    return value.to_bytes(8, 'big')


def enc_string(data):
    if isinstance(data, str):
        raise TypeError('enc_string wants octets')
    data = bytes(data)
    return enc_uint32(len(data)) + data


def mpint_body(value):
    """Two's complement, MSB first, no unnecessary leading 0x00 / 0xff octets, zero = no octets."""
    if value == 0:
        return b''
    if value > 0:
        # a positive number whose top bit would be set is preceded by a zero octet
        return value.to_bytes(value.bit_length() // 8 + 1, 'big')
    # smallest n with -2**(8n-1) <= value
    return value.to_bytes((-value - 1).bit_length() // 8 + 1, 'big', signed=True)


def enc_mpint(value):
    return enc_string(mpint_body(value))


def check_name(name):
    """RFC 4251 section 6 / section 5 (name-list): non-empty, printable US-ASCII, no comma, at most 64 characters."""
    if not isinstance(name, str) or not name:
        raise ValueError('empty name')
    if len(name) > 64:
        raise ValueError('name longer than 64 characters')
    for char in name:
        if not 0x21 <= ord(char) <= 0x7e or char == ',':
            raise ValueError('character %r not allowed in a name' % char)
    return name


def enc_name_list(names, strict_names=True):
    for name in names:
        if strict_names:
            check_name(name)
        elif not name or ',' in name:
            raise ValueError('bad name %r' % (name,))
    return enc_string(','.join(names).encode('ascii'))


# ---------------------------------------------------------------------------------------------------
# RFC 4251 section 5 — strict reader
# ---------------------------------------------------------------------------------------------------

class Reader(object):
    def __init__(self, data, pos=0, end=None):
        self.data = bytes(data)
        self.pos = pos
        self.end = len(self.data) if end is None else end

    @property
    def left(self):
        return self.end - self.pos

    def raw(self, count):
        if count < 0 or count > self.left:
            raise RefError('truncated: need %d octets, have %d' % (count, self.left))
        out = self.data[self.pos:self.pos + count]
        self.pos += count
        return out

    def byte(self):
        return self.raw(1)[0]

    def boolean(self):
        # "All non-zero values MUST be interpreted as TRUE"
        return self.byte() != 0

    def uint32(self):
        return int.from_bytes(self.raw(4), 'big')

    def uint64(self):
        return int.from_bytes(self.raw(8), 'big')

    def string(self):
        return self.raw(self.uint32())

    def text(self, encoding):
        data = self.string()
        try:
            return data.decode(encoding)
        except UnicodeDecodeError as e:
            raise RefError('string is not %s: %s' % (encoding, e))

    def mpint(self):
        body = self.string()
        if not body:
            return 0
        if len(body) > 1:
            if body[0] == 0x00 and body[1] < 0x80:
                raise RefError('mpint with an unnecessary leading 0x00')
            if body[0] == 0xff and body[1] >= 0x80:
                raise RefError('mpint with an unnecessary leading 0xff')
        elif body[0] == 0x00:
            raise RefError('mpint zero must have no data octets')
        return int.from_bytes(body, 'big', signed=True)

    def name_list(self, strict_names=True):
        data = self.string()
        if not data:
            return []
        try:
            text = data.decode('ascii')
        except UnicodeDecodeError:
            raise RefError('name-list is not US-ASCII')
        names = text.split(',')
        for name in names:
            if not name:
                raise RefError('empty name in a name-list')
            if strict_names:
                try:
                    check_name(name)
                except ValueError as e:
                    raise RefError(str(e))
        return names

    def sub(self):
        """Reader over the contents of the next string."""
        length = self.uint32()
        if length > self.left:
            raise RefError('truncated: need %d octets, have %d' % (length, self.left))
        inner = Reader(self.data, self.pos, self.pos + length)
        self.pos += length
        return inner

    def expect_end(self):
        if self.left:
            raise RefError('%d trailing octets' % self.left)


# ---------------------------------------------------------------------------------------------------
# RFC 4253 section 4.2 — identification string
# ---------------------------------------------------------------------------------------------------

def _printable_ascii(text, what, allow_space):
    for char in text:
        code = ord(char)
        if code < 0x20 or code > 0x7e or (code == 0x20 and not allow_space):
            raise ValueError('%s holds %r' % (what, char))


def encode_banner(model):
    proto, software, comment = model['proto'], model['software'], model.get('comment')
    if not proto or not software:
        raise ValueError('empty protoversion / softwareversion')
    _printable_ascii(proto, 'protoversion', False)
    _printable_ascii(software, 'softwareversion', False)
    if '-' in proto:
        raise ValueError('minus sign in protoversion')
    line = 'SSH-' + proto + '-' + software
    if comment is not None:
        _printable_ascii(comment, 'comments', True)
        line += ' ' + comment
    data = line.encode('ascii') + b'\r\n'
    if len(data) > 255:
        raise ValueError('identification string longer than 255 octets including CR LF')
    return data


def decode_banner(data):
    data = bytes(data)
    if len(data) > 255:
        raise RefError('identification string longer than 255 octets')
    if not data.endswith(b'\r\n'):
        raise RefError('identification string does not end with CR LF')
    try:
        line = data[:-2].decode('ascii')
    except UnicodeDecodeError:
        raise RefError('identification string is not US-ASCII')
    if '\r' in line or '\n' in line or '\x00' in line:
        raise RefError('CR / LF / NUL inside the identification string')
    if not line.startswith('SSH-'):
        raise RefError('identification string does not start with SSH-')
    rest = line[4:]
    proto, dash, rest = rest.partition('-')
    if not dash or not proto:
        raise RefError('no protoversion')
    software, space, comment = rest.partition(' ')
    if not software:
        raise RefError('no softwareversion')
    return {'proto': proto, 'software': software, 'comment': comment if space else None}


# ---------------------------------------------------------------------------------------------------
# RFC 4253 section 6 — binary packet protocol (initial state: no MAC, block size 8)
# ---------------------------------------------------------------------------------------------------

def conformant_padding_lengths(payload_length, block=8):
    """Every padding length a sender may choose for this payload length."""
    block = max(block, 8)
    return [pad for pad in range(4, 256) if (4 + 1 + payload_length + pad) % block == 0]


def encode_packet(payload, padding):
    payload, padding = bytes(payload), bytes(padding)
    if not 4 <= len(padding) <= 255:
        raise ValueError('padding length %d' % len(padding))
    if (5 + len(payload) + len(padding)) % 8:
        raise ValueError('total length is not a multiple of 8')
    return enc_uint32(1 + len(payload) + len(padding)) + enc_byte(len(padding)) + payload + padding


def packet_violations(packet, payload=None, block=8, mac_length=0):
    """Names of the section 6 rules a complete packet violates (empty list = valid)."""
    packet = bytes(packet)
    block = max(block, 8)
    if len(packet) < 5 + mac_length:
        return ['too-short']
    rules = []
    total = len(packet) - mac_length
    packet_length = int.from_bytes(packet[:4], 'big')
    padding_length = packet[4]
    if total % block:
        rules.append('modulus')
    if padding_length < 4:
        rules.append('padding-min')
    if packet_length != total - 4:
        rules.append('packet-length')
    payload_length = packet_length - padding_length - 1
    if payload_length < 0 or 5 + payload_length + padding_length > total:
        rules.append('padding-overrun')
    elif payload is not None:
        if payload_length != len(payload):
            # packet_length must count exactly padding_length byte + payload + padding
            if 'packet-length' not in rules:
                rules.append('packet-length')
        if packet[5:5 + payload_length] != bytes(payload):
            rules.append('payload')
    return rules


def decode_packet(packet, block=8, mac_length=0):
    """-> (payload, padding, mac); strict."""
    rules = packet_violations(packet, None, block, mac_length)
    if rules:
        raise RefError('packet violates ' + ','.join(rules))
    packet = bytes(packet)
    padding_length = packet[4]
    end = len(packet) - mac_length
    return packet[5:end - padding_length], packet[end - padding_length:end], packet[end:]


# ---------------------------------------------------------------------------------------------------
# public keys and certificates
# ---------------------------------------------------------------------------------------------------

def is_cert_type(type_name):
    return type_name.endswith(CERT_V01_SUFFIX) or type_name.endswith(CERT_V00_SUFFIX)


def plain_type_of(type_name):
    for suffix in (CERT_V01_SUFFIX, CERT_V00_SUFFIX):
        if type_name.endswith(suffix):
            return type_name[:-len(suffix)]
    return type_name


def ec_point(curve, x, y, compressed=False):
    """SEC1 2.3.3 Elliptic-Curve-Point-to-Octet-String (the point at infinity is not a public key)."""
    width = CURVES[curve]
    if not 0 <= x < (1 << (8 * width)) or not 0 <= y < (1 << (8 * width)):
        raise ValueError('coordinate wider than the field')
    if compressed:
        return bytes([2 + (y & 1)]) + x.to_bytes(width, 'big')
    return b'\x04' + x.to_bytes(width, 'big') + y.to_bytes(width, 'big')


def ec_lift_x(curve, x, odd):
    """y with y^2 = x^3 - 3x + b (mod p) and the requested parity, or None when x is not on the curve."""
    prime, b = CURVE_PARAMS[curve]
    if not 0 <= x < prime:
        return None
    rhs = (pow(x, 3, prime) - 3 * x + b) % prime
    y = pow(rhs, (prime + 1) // 4, prime)      # all three primes are 3 mod 4
    if y * y % prime != rhs:
        return None
    if (y & 1) != (1 if odd else 0):
        y = prime - y
        if y == prime:                         # y == 0 has no odd twin
            return None
    return y


def ec_point_decode(curve, data):
    width = CURVES[curve]
    data = bytes(data)
    if len(data) == 2 * width + 1 and data[0] == 4:
        return int.from_bytes(data[1:1 + width], 'big'), int.from_bytes(data[1 + width:], 'big'), False
    if len(data) == width + 1 and data[0] in (2, 3):
        x = int.from_bytes(data[1:], 'big')
        y = ec_lift_x(curve, x, data[0] == 3)
        if y is None:
            raise RefError('compressed point is not on the curve')
        return x, y, True
    raise RefError('not a SEC1 point of %s' % curve)


def _enc_key_fields(key):
    """The key-type specific fields that follow the type string (and, in certificates, the nonce)."""
    kind = key['t']
    if kind == 'ssh-rsa':
        return enc_mpint(key['e']) + enc_mpint(key['n'])
    if kind == 'ssh-dss':
        return enc_mpint(key['p']) + enc_mpint(key['q']) + enc_mpint(key['g']) + enc_mpint(key['y'])
    if kind.startswith('ecdsa-sha2-'):
        curve = key['curve']
        if kind != 'ecdsa-sha2-' + curve or curve not in CURVES:
            raise ValueError('curve identifier %r does not belong to %r' % (curve, kind))
        return enc_string(curve.encode('ascii')) + enc_string(ec_point(curve, key['x'], key['y'], key.get('compressed', False)))
    if kind == 'ssh-ed25519':
        if len(key['pk']) != 32:
            raise ValueError('Ed25519 public keys have 32 octets')
        return enc_string(key['pk'])
    raise ValueError('unknown key type %r' % (kind,))


def _dec_key_fields(kind, reader):
    if kind == 'ssh-rsa':
        e = reader.mpint()
        return {'t': kind, 'e': e, 'n': reader.mpint()}
    if kind == 'ssh-dss':
        p = reader.mpint()
        q = reader.mpint()
        g = reader.mpint()
        return {'t': kind, 'p': p, 'q': q, 'g': g, 'y': reader.mpint()}
    if kind.startswith('ecdsa-sha2-'):
        curve = reader.text('ascii')
        if kind != 'ecdsa-sha2-' + curve or curve not in CURVES:
            raise RefError('curve identifier %r does not belong to %r' % (curve, kind))
        x, y, compressed = ec_point_decode(curve, reader.string())
        return {'t': kind, 'curve': curve, 'x': x, 'y': y, 'compressed': compressed}
    if kind == 'ssh-ed25519':
        pk = reader.string()
        if len(pk) != 32:
            raise RefError('Ed25519 public keys have 32 octets')
        return {'t': kind, 'pk': pk}
    raise RefError('unknown key type %r' % (kind,))


def encode_option(option):
    """One (string name, string data) tuple of critical options / extensions / v00 constraints."""
    name = option['name'].encode('ascii')
    kind = option['kind']
    if kind == 'flag':
        data = b''
    elif kind == 'string':
        data = enc_string(option['value'].encode('ascii'))     # the value is an SSH string *inside* the data string
    elif kind == 'raw':
        data = bytes(option['data'])
    else:
        raise ValueError(kind)
    return enc_string(name) + enc_string(data)


def option_data(option):
    kind = option['kind']
    if kind == 'flag':
        return b''
    if kind == 'string':
        return enc_string(option['value'].encode('ascii'))
    return bytes(option['data'])


def encode_options(options):
    return enc_string(b''.join(encode_option(option) for option in options))


def decode_options(reader):
    """-> [{'name': str, 'data': bytes}] (generic view; the typed meaning of data is the caller's business)."""
    inner = reader.sub()
    out = []
    while inner.left:
        name = inner.text('ascii')
        out.append({'name': name, 'data': inner.string()})
    return out


def encode_principals(principals):
    return enc_string(b''.join(enc_string(p.encode('ascii')) for p in principals))


def decode_principals(reader):
    inner = reader.sub()
    out = []
    while inner.left:
        out.append(inner.text('ascii'))
    return out


def encode_signature(signature):
    return enc_string(signature['type'].encode('ascii')) + enc_string(signature['blob'])


def encode_key(key):
    """RFC 4253 section 6.6 public key blob / OpenSSH certificate blob."""
    kind = key['t']
    if kind.endswith(CERT_V01_SUFFIX):
        inner = key['key']
        if inner['t'] != plain_type_of(kind):
            raise ValueError('certified key is a %r' % (inner['t'],))
        return b''.join([
            enc_string(kind.encode('ascii')),
            enc_string(key['nonce']),
            _enc_key_fields(inner),
            enc_uint64(key['serial']),
            enc_uint32(key['type']),
            enc_string(key['key_id'].encode('ascii')),
            encode_principals(key['principals']),
            enc_uint64(key['valid_after']),
            enc_uint64(key['valid_before']),
            encode_options(key['critical']),
            encode_options(key['extensions']),
            enc_string(key['reserved']),
            enc_string(encode_key(key['signature_key'])),
            enc_string(encode_signature(key['signature'])),
        ])
    if kind.endswith(CERT_V00_SUFFIX):
        inner = key['key']
        if inner['t'] != plain_type_of(kind) or inner['t'] not in ('ssh-rsa', 'ssh-dss'):
            raise ValueError('v00 certificates exist for RSA and DSA keys only')
        return b''.join([
            enc_string(kind.encode('ascii')),
            _enc_key_fields(inner),
            enc_uint32(key['type']),
            enc_string(key['key_id'].encode('ascii')),
            encode_principals(key['principals']),
            enc_uint64(key['valid_after']),
            enc_uint64(key['valid_before']),
            encode_options(key['constraints']),
            enc_string(key['nonce']),
            enc_string(key['reserved']),
            enc_string(encode_key(key['signature_key'])),
            enc_string(encode_signature(key['signature'])),
        ])
    return enc_string(kind.encode('ascii')) + _enc_key_fields(key)


def _decode_signature(reader):
    inner = reader.sub()
    sig_type = inner.text('ascii')
    blob = inner.string()
    inner.expect_end()
    return {'type': sig_type, 'blob': blob}


def decode_key(data):
    reader = Reader(data)
    key = _decode_key(reader)
    reader.expect_end()
    return key


def _decode_key(reader):
    kind = reader.text('ascii')
    if kind.endswith(CERT_V01_SUFFIX):
        out = {'t': kind, 'nonce': reader.string()}
        out['key'] = _dec_key_fields(plain_type_of(kind), reader)
        out['serial'] = reader.uint64()
        out['type'] = reader.uint32()
        out['key_id'] = reader.text('ascii')
        out['principals'] = decode_principals(reader)
        out['valid_after'] = reader.uint64()
        out['valid_before'] = reader.uint64()
        out['critical'] = decode_options(reader)
        out['extensions'] = decode_options(reader)
        out['reserved'] = reader.string()
        inner = reader.sub()
        out['signature_key'] = _decode_key(inner)
        inner.expect_end()
        out['signature'] = _decode_signature(reader)
        return out
    if kind.endswith(CERT_V00_SUFFIX):
        out = {'t': kind}
        out['key'] = _dec_key_fields(plain_type_of(kind), reader)
        out['type'] = reader.uint32()
        out['key_id'] = reader.text('ascii')
        out['principals'] = decode_principals(reader)
        out['valid_after'] = reader.uint64()
        out['valid_before'] = reader.uint64()
        out['constraints'] = decode_options(reader)
        out['nonce'] = reader.string()
        out['reserved'] = reader.string()
        inner = reader.sub()
        out['signature_key'] = _decode_key(inner)
        inner.expect_end()
        out['signature'] = _decode_signature(reader)
        return out
    return _dec_key_fields(kind, reader)


def generic_options(options):
    """Typed option models -> the generic view produced by decode_options."""
    return [{'name': option['name'], 'data': option_data(option)} for option in options]


def generic_key(key):
    """Model -> the shape decode_key() returns for its encoding (options in generic form, defaults filled)."""
    kind = key['t']
    out = dict(key)
    if is_cert_type(kind):
        out['key'] = generic_key(key['key'])
        out['signature_key'] = generic_key(key['signature_key'])
        out['signature'] = {'type': key['signature']['type'], 'blob': bytes(key['signature']['blob'])}
        for field in ('critical', 'extensions', 'constraints'):
            if field in key:
                out[field] = generic_options(key[field])
        for field in ('nonce', 'reserved'):
            out[field] = bytes(key[field])
    elif kind.startswith('ecdsa-sha2-'):
        out['compressed'] = bool(key.get('compressed', False))
    elif kind == 'ssh-ed25519':
        out['pk'] = bytes(key['pk'])
    return out


# ---------------------------------------------------------------------------------------------------
# transport layer messages
# ---------------------------------------------------------------------------------------------------

def encode_message(msg):
    kind = msg['t']
    if kind == 'kexinit':
        if len(msg['cookie']) != 16:
            raise ValueError('the cookie has 16 octets')
        parts = [enc_byte(MSG_KEXINIT), bytes(msg['cookie'])]
        for field in KEXINIT_LISTS:
            parts.append(enc_name_list(msg[field], strict_names=not field.startswith('lang')))
        parts.append(enc_boolean(msg['follows']))
        parts.append(enc_uint32(msg['reserved']))
        return b''.join(parts)
    if kind == 'disconnect':
        return (enc_byte(MSG_DISCONNECT) + enc_uint32(msg['reason']) + enc_string(msg['description'].encode('utf-8')) +
                enc_string(msg['language'].encode('ascii')))
    if kind == 'unimplemented':
        return enc_byte(MSG_UNIMPLEMENTED) + enc_uint32(msg['seq'])
    if kind == 'newkeys':
        return enc_byte(MSG_NEWKEYS)
    if kind == 'kexdh_init':
        return enc_byte(MSG_KEXDH_INIT) + enc_mpint(msg['e'])
    if kind == 'ecdh_init':
        return enc_byte(MSG_KEXDH_INIT) + enc_string(msg['q'])
    if kind == 'kexdh_reply':
        return (enc_byte(MSG_KEXDH_REPLY) + enc_string(encode_key(msg['host_key'])) + enc_mpint(msg['f']) +
                enc_string(msg['sig']))
    if kind == 'ecdh_reply':
        return (enc_byte(MSG_KEXDH_REPLY) + enc_string(encode_key(msg['host_key'])) + enc_string(msg['q']) +
                enc_string(msg['sig']))
    if kind == 'gex_request':
        return enc_byte(MSG_KEX_DH_GEX_REQUEST) + enc_uint32(msg['min']) + enc_uint32(msg['n']) + enc_uint32(msg['max'])
    if kind == 'gex_group':
        return enc_byte(MSG_KEX_DH_GEX_GROUP) + enc_mpint(msg['p']) + enc_mpint(msg['g'])
    if kind == 'gex_init':
        return enc_byte(MSG_KEX_DH_GEX_INIT) + enc_mpint(msg['e'])
    if kind == 'gex_reply':
        return (enc_byte(MSG_KEX_DH_GEX_REPLY) + enc_string(encode_key(msg['host_key'])) + enc_mpint(msg['f']) +
                enc_string(msg['sig']))
    raise ValueError('unknown message %r' % (kind,))


def decode_message(data, kex='dh'):
    """Strict decoder; `kex` in {'dh', 'ecdh', 'gex'} tells what the method specific numbers 30..34 mean."""
    reader = Reader(data)
    code = reader.byte()
    if code == MSG_KEXINIT:
        out = {'t': 'kexinit', 'cookie': reader.raw(16)}
        for field in KEXINIT_LISTS:
            out[field] = reader.name_list(strict_names=not field.startswith('lang'))
        out['follows'] = reader.boolean()
        out['reserved'] = reader.uint32()
    elif code == MSG_DISCONNECT:
        out = {'t': 'disconnect', 'reason': reader.uint32(), 'description': reader.text('utf-8')}
        out['language'] = reader.text('ascii')
    elif code == MSG_UNIMPLEMENTED:
        out = {'t': 'unimplemented', 'seq': reader.uint32()}
    elif code == MSG_NEWKEYS:
        out = {'t': 'newkeys'}
    elif code == 30 and kex == 'dh':
        out = {'t': 'kexdh_init', 'e': reader.mpint()}
    elif code == 30 and kex == 'ecdh':
        out = {'t': 'ecdh_init', 'q': reader.string()}
    elif code == 31 and kex == 'dh':
        out = {'t': 'kexdh_reply', 'host_key': decode_key(reader.string()), 'f': reader.mpint(), 'sig': reader.string()}
    elif code == 31 and kex == 'ecdh':
        out = {'t': 'ecdh_reply', 'host_key': decode_key(reader.string()), 'q': reader.string(), 'sig': reader.string()}
    elif code == 31 and kex == 'gex':
        out = {'t': 'gex_group', 'p': reader.mpint(), 'g': reader.mpint()}
    elif code == 32 and kex == 'gex':
        out = {'t': 'gex_init', 'e': reader.mpint()}
    elif code == 33 and kex == 'gex':
        out = {'t': 'gex_reply', 'host_key': decode_key(reader.string()), 'f': reader.mpint(), 'sig': reader.string()}
    elif code == 34 and kex == 'gex':
        out = {'t': 'gex_request', 'min': reader.uint32(), 'n': reader.uint32(), 'max': reader.uint32()}
    else:
        raise RefError('message number %d is not defined for %s' % (code, kex))
    reader.expect_end()
    return out


def generic_message(msg):
    out = dict(msg)
    if 'host_key' in msg:
        out['host_key'] = generic_key(msg['host_key'])
    for field in ('cookie', 'sig', 'q'):
        if field in msg:
            out[field] = bytes(msg[field])
    if 'follows' in msg:
        out['follows'] = bool(msg['follows'])
    return out


def kexinit_raw_name_lists(payload):
    """The ten name-lists of a KEXINIT payload as the raw octets between the length prefixes (for HASSH)."""
    reader = Reader(payload)
    if reader.byte() != MSG_KEXINIT:
        raise RefError('not a KEXINIT')
    reader.raw(16)
    lists = {}
    for field in KEXINIT_LISTS:
        lists[field] = reader.string()
    reader.boolean()
    reader.uint32()
    reader.expect_end()
    return lists


# ---------------------------------------------------------------------------------------------------
# self test: the worked examples of RFC 4251 section 5 and one real OpenSSH 9.2 certificate
# ---------------------------------------------------------------------------------------------------

_OPENSSH_ED25519_CERT = bytes.fromhex(
    '000000207373682d656432353531392d636572742d763031406f70656e7373682e636f6d0000002075caf219288a7b5d8f65448519'
    '3e0139ac34ce2cd3a9d2b94d9ccc9e8947e8d2000000204c20aed322672faa5383e636f4366ce87d60cbee1be4a7ecf31bcf3b8c12'
    '4e08000000000000004d00000001000000066b65796964310000001000000005616c69636500000003626f62000000005e0be10000'
    '00000070dbd880000000530000000d666f7263652d636f6d6d616e640000000b000000072f62696e2f6c730000000e736f75726365'
    '2d616464726573730000001d0000001931302e302e302e302f382c3139322e3136382e302e302f31360000008e0000000f666f6f40'
    '6578616d706c652e636f6d0000000700000003626172000000157065726d69742d5831312d666f7277617264696e67000000000000'
    '00177065726d69742d6167656e742d666f7277617264696e6700000000000000167065726d69742d706f72742d666f727761726469'
    '6e67000000000000000e7065726d69742d757365722d7263000000000000000000000033000000' '0b7373682d65643235353139000000'
    '203ba371961029b670522a111e54955f7e0b1ec5a62a35ae02e8a9687d2eec521e000000530000000b7373682d6564323535313900'
    '000040d06485e630fce44a83f12f683defc8b867de8e6b4447e6e3824218aea6893de9308477484bc93e1bccb8aa4b94dc3a1c24b7'
    'a7c5e0590dc5968b581aa116710e')
# produced by: ssh-keygen -s ca -I keyid1 -n alice,bob -V 20200101:20300101 -z 77 -O force-command=/bin/ls
#              -O source-address=10.0.0.0/8,192.168.0.0/16 -O no-pty -O extension:foo@example.com=bar user.pub


def openssh_certificate_vector():
    """(blob, model) of a certificate signed by OpenSSH 9.2p1's ssh-keygen."""
    blob = _OPENSSH_ED25519_CERT
    model = {
        't': 'ssh-ed25519-cert-v01@openssh.com',
        'nonce': bytes.fromhex('75caf219288a7b5d8f654485193e0139ac34ce2cd3a9d2b94d9ccc9e8947e8d2'),
        'key': {'t': 'ssh-ed25519', 'pk': bytes.fromhex('4c20aed322672faa5383e636f4366ce87d60cbee1be4a7ecf31bcf3b8c124e08')},
        'serial': 77, 'type': 1, 'key_id': 'keyid1', 'principals': ['alice', 'bob'],
        'valid_after': 0x5e0be100, 'valid_before': 0x70dbd880,
        'critical': [{'name': 'force-command', 'kind': 'string', 'value': '/bin/ls'},
                     {'name': 'source-address', 'kind': 'string', 'value': '10.0.0.0/8,192.168.0.0/16'}],
        'extensions': [{'name': 'foo@example.com', 'kind': 'string', 'value': 'bar'},
                       {'name': 'permit-X11-forwarding', 'kind': 'flag'},
                       {'name': 'permit-agent-forwarding', 'kind': 'flag'},
                       {'name': 'permit-port-forwarding', 'kind': 'flag'},
                       {'name': 'permit-user-rc', 'kind': 'flag'}],
        'reserved': b'',
        'signature_key': {'t': 'ssh-ed25519',
                          'pk': bytes.fromhex('3ba371961029b670522a111e54955f7e0b1ec5a62a35ae02e8a9687d2eec521e')},
        'signature': {'type': 'ssh-ed25519', 'blob': bytes.fromhex(
            'd06485e630fce44a83f12f683defc8b867de8e6b4447e6e3824218aea6893de9308477484bc93e1bccb8aa4b94dc3a1c24b7'
            'a7c5e0590dc5968b581aa116710e')},
    }
    return blob, model


def selftest():
    vectors = [   # RFC 4251 section 5, mpint examples
        (0, '00000000'), (0x9a378f9b2e332a7, '0000000809a378f9b2e332a7'), (0x80, '000000020080'),
        (-0x1234, '00000002edcc'), (-0xdeadbeef, '00000005ff21524111'),
    ]
    for value, wire in vectors:
        if enc_mpint(value).hex() != wire:
            raise AssertionError('mpint encoder: %r -> %s' % (value, enc_mpint(value).hex()))
        if Reader(bytes.fromhex(wire)).mpint() != value:
            raise AssertionError('mpint decoder: %s' % wire)
    if enc_string(b'testing').hex() != '0000000774657374696e67':
        raise AssertionError('string')
    for names, wire in (([], '00000000'), (['zlib'], '000000047a6c6962'), (['zlib', 'none'], '000000097a6c69622c6e6f6e65')):
        if enc_name_list(names).hex() != wire or Reader(bytes.fromhex(wire)).name_list() != names:
            raise AssertionError('name-list %r' % (names,))
    if enc_uint32(699921578).hex() != '29b7f4aa':
        raise AssertionError('uint32')
    for bad in ('000000020001', '00000002ff80', '0000000100'):
        try:
            Reader(bytes.fromhex(bad)).mpint()
        except RefError:
            continue
        raise AssertionError('non-canonical mpint %s accepted' % bad)
    blob, model = openssh_certificate_vector()
    if encode_key(model) != blob:
        raise AssertionError('certificate encoder disagrees with OpenSSH')
    if decode_key(blob) != generic_key(model):
        raise AssertionError('certificate decoder disagrees with OpenSSH')
    for curve in CURVES:
        prime, _ = CURVE_PARAMS[curve]
        x = 5
        while ec_lift_x(curve, x, False) is None:
            x += 1
        y = ec_lift_x(curve, x, True)
        if ec_point_decode(curve, ec_point(curve, x, y, True)) != (x, y, True) or not y & 1:
            raise AssertionError('point compression on %s' % curve)
    for length in range(0, 300):
        pads = conformant_padding_lengths(length)
        if not 31 <= len(pads) <= 32 or any((5 + length + pad) % 8 for pad in pads):
            raise AssertionError('padding lengths')
        packet = encode_packet(b'\x07' * length, b'\x01' * pads[-1])
        if packet_violations(packet, b'\x07' * length) or decode_packet(packet)[0] != b'\x07' * length:
            raise AssertionError('packet')
    return True
