# -*- coding: utf-8 -*-
"""C12 — length-prefixed vectors stay within bounds through any edit sequence.

Model-based stateful testing: generated operation lists (data) are interpreted against the real vector through its
MutableSequence interface and against a plain Python list; after every step the two are compared, the encoded size
is checked against the declared bounds and the edited vector is compared with a freshly built one.
"""
import time

import random

from hypothesis import strategies as st

from vf.core import hyp, lib, pool
from vf.core.stats import Finding, Stats, digest
from vf.gen import objects
from vf.gen import spec as specs

ID = 'C12'
LEVEL = 'exploration'
RULE = ('for every concrete vector class with an item strategy: an initial valid vector (sizes min, min+1, small, '
        'max-1, max of the byte bounds) and a generated list of up to 25 (thorough 80) sequence operations '
        '(append, insert, extend, +=, pop, remove, del v[i], del v[a:b:c], v[i]=x, v[a:b]=xs, reverse, clear; '
        'negative and out-of-range positions included) are interpreted step by step against the vector and a '
        'plain list model; the expected body size after each edit is computed from the items independently of the '
        'vector\'s own bookkeeping. Non-trivial: the history holds a refused edit, a slice operation, or a state '
        'touching a size bound. Distinct by (class, initial items, operation list).')
ASSUMPTIONS = [
    'the byte bounds (min_byte_num, max_byte_num) declared by get_param() are taken as "what the protocol allows"; '
    'their values are compared with the RFCs by C06',
    'ceilings of 2^32-1 (SSH vectors) cannot be touched; 2^24-1 (certificate list) is not touched in the quick tier',
    'operations a plain list rejects (pop from empty, remove of a missing item, index out of range) must raise the '
    'same exception class and change nothing',
]

SKIP = {
    'cryptoparser.tls.extension:TlsNextProtocolNameFactory': 'enum factory (parses to an enum member), not used as a vector',
    'cryptoparser.tls.extension:TlsProtocolNameFactory': 'enum factory (parses to an enum member), not used as a vector',
    'cryptoparser.httpx.header:HttpHeaderFields': 'no length prefix and no byte bounds that edits can reach (0..65536); '
                                                  'items come from the text grammar (C18)',
}

TWO_BYTE_CODES = ('TlsCipherSuiteVector', 'TlsEllipticCurveVector', 'TlsSignatureAndHashAlgorithmVector',
                  'TlsCertificateCompressionAlgorithmVector')


def vector_classes():
    from cryptoparser.common.base import ArrayBase  # pylint: disable=import-outside-toplevel
    registered = set(objects.registered())
    out = []
    for cls in lib.concrete_classes():
        ref = lib.ref_of(cls)
        if issubclass(cls, ArrayBase) and ref not in SKIP and ref in registered:
            out.append(ref)
    return out


def _items_of_spec(spec):
    items = spec['a'][0]
    if isinstance(items, dict) and 'cycle' in items:
        return items
    return items


def item_strategy(ref):
    def pick(spec):
        items = spec['a'][0]
        if isinstance(items, dict) and 'cycle' in items:
            return items['cycle']
        return items
    return objects.strategy_for(ref).map(pick).filter(lambda items: len(items) > 0).flatmap(st.sampled_from)


def _positions():
    return st.one_of(st.integers(-3, 6), st.sampled_from([0, -1, 1, 100, -100, 31, 32, 33, 254, 255]))


def _slices():
    bound = st.one_of(st.none(), st.integers(-4, 8), st.sampled_from([0, 1, 2, 100]))
    return st.tuples(bound, bound, st.sampled_from([None, None, None, 1, 2, -1, 3]))


def op_strategy(ref, max_ops):
    item = item_strategy(ref)
    few = st.lists(item, max_size=4)
    ops = st.one_of(
        st.builds(lambda x: {'op': 'append', 'x': x}, item),
        st.builds(lambda i, x: {'op': 'insert', 'i': i, 'x': x}, _positions(), item),
        st.builds(lambda xs: {'op': 'extend', 'xs': xs}, few),
        st.builds(lambda xs: {'op': 'iadd', 'xs': xs}, few),
        st.builds(lambda i: {'op': 'pop', 'i': i}, st.one_of(st.none(), _positions())),
        st.builds(lambda x: {'op': 'remove', 'x': x}, item),
        st.builds(lambda i: {'op': 'remove-present', 'i': i}, st.integers(0, 40)),
        st.builds(lambda i: {'op': 'delitem', 'i': i}, _positions()),
        st.builds(lambda s: {'op': 'delslice', 's': list(s)}, _slices()),
        st.builds(lambda i, x: {'op': 'setitem', 'i': i, 'x': x}, _positions(), item),
        st.builds(lambda s, xs: {'op': 'setslice', 's': list(s), 'xs': xs}, _slices(), few),
        st.just({'op': 'reverse'}),
        st.just({'op': 'clear'}),
        st.builds(lambda n, x: {'op': 'append-many', 'n': n, 'x': x}, st.sampled_from([3, 31, 32, 33, 127, 128, 254, 255, 256]), item),
    )
    init = objects.strategy_for(ref).map(lambda spec: spec['a'][0])
    # how the initial vector is handed to the constructor (the library itself passes generators), and whether the
    # history ends with an edit made *inside* an item (through the item's own fields / inner vector)
    via = st.sampled_from(['list', 'list', 'list', 'tuple', 'generator', 'iter', 'map'])
    return st.fixed_dictionaries({'cls': st.just(ref), 'init': init, 'ops': st.lists(ops, min_size=1, max_size=max_ops),
                                  'via': via, 'nested_edit': st.sampled_from([None, None, None, 1, 2, 3])})


# ---------------------------------------------------------------------------------------------------

def _item_size(cls, item):
    """Encoded size of one item, computed without the vector's own get_item_size()."""
    from cryptoparser.common import base  # pylint: disable=import-outside-toplevel
    name = cls.__name__
    if issubclass(cls, (base.Opaque, base.Vector)):
        return 1
    if issubclass(cls, base.VectorEnumCodeNumeric):
        return 2 if name in TWO_BYTE_CODES else 1
    if issubclass(cls, base.VectorEnumCodeString):
        return 1 + len(item.value.code.encode('utf-8'))
    if issubclass(cls, base.VectorString):
        if isinstance(item, str):
            return len(item)
        if hasattr(item, 'compose'):
            return len(item.compose())
        if hasattr(item, 'value') and hasattr(item.value, 'code'):
            return len(item.value.code)
        return len(str(item))
    return len(item.compose())


def _body_size(cls, items):
    from cryptoparser.common import base  # pylint: disable=import-outside-toplevel
    total = sum(_item_size(cls, item) for item in items)
    if issubclass(cls, base.VectorString) and len(items) > 1 and False:
        total += len(items) - 1
    return total


def _apply(sequence, op, built):
    """Apply one operation to a sequence (list or vector).  `built` maps operand names to built items."""
    kind = op['op']
    if kind == 'append':
        sequence.append(built['x'])
    elif kind == 'insert':
        sequence.insert(op['i'], built['x'])
    elif kind == 'extend':
        sequence.extend(built['xs'])
    elif kind == 'iadd':
        sequence += built['xs']
    elif kind == 'pop':
        if op['i'] is None:
            sequence.pop()
        else:
            sequence.pop(op['i'])
    elif kind == 'remove':
        sequence.remove(built['x'])
    elif kind == 'remove-present':
        sequence.remove(built['present'])
    elif kind == 'delitem':
        del sequence[op['i']]
    elif kind == 'delslice':
        del sequence[slice(*op['s'])]
    elif kind == 'setitem':
        sequence[op['i']] = built['x']
    elif kind == 'setslice':
        sequence[slice(*op['s'])] = built['xs']
    elif kind == 'reverse':
        sequence.reverse()
    elif kind == 'clear':
        sequence.clear()
    elif kind == 'append-many':
        for _ in range(op['n']):
            sequence.append(built['x'])
    else:
        raise ValueError(kind)
    return sequence


def _same_items(vector, model):
    return lib.diff(list(vector), list(model))


def check_case(case):
    cls = lib.resolve(case['cls'])
    name = cls.__name__
    errors = lib.errors()
    param = cls.get_param()
    low, high = param.min_byte_num, param.max_byte_num
    init = specs.build(case['init'])
    if not lib.call(_body_size, cls, list(init)).ok:
        return []
    constructed = lib.call(cls, list(init))
    if not constructed.ok:
        return []            # not a valid initial vector: not a case
    via = case.get('via', 'list')
    if via != 'list':
        items = list(init)
        handed = {'tuple': tuple(items), 'generator': (item for item in items), 'iter': iter(items),
                  'map': map(lambda item: item, items)}[via]
        other = lib.call(cls, handed)
        if not other.ok:
            return [Finding('constructor-refuses-iterable/%s:%s' % (name, via), {'error': other.signature(), 'items': len(items)})]
        constructed = other
    vector = constructed.value
    model = list(init)
    findings = []
    touched_bound = _body_size(cls, model) in (low, high)
    for step, op in enumerate(case['ops']):
        built = {}
        if 'x' in op:
            built['x'] = specs.build(op['x'])
        if 'xs' in op:
            built['xs'] = specs.build(op['xs'])
        if op['op'] == 'remove-present':
            if not model:
                continue
            built['present'] = model[op['i'] % len(model)]
        kind = op['op'] + (':slice' if 's' in op else '')
        operands = ([built['x']] if 'x' in built else []) + list(built.get('xs', []))
        if not lib.call(_body_size, cls, operands).ok:
            continue        # an operand that cannot be encoded on its own is not a valid item
        # 1. what a plain list does
        expected = list(model)
        list_outcome = lib.call(_apply, expected, op, built)
        before = list(model)
        real_outcome = lib.call(_apply, vector, op, built)
        if real_outcome.ok and op['op'] == 'iadd':
            vector = real_outcome.value
        if list_outcome.kind == 'leak':
            # the list itself refuses the edit (IndexError / ValueError / TypeError)
            if real_outcome.ok or type(real_outcome.exc) is not type(list_outcome.exc):  # noqa: E721
                if not (real_outcome.kind == 'documented' and op['op'] in ('setslice',)):
                    findings.append(Finding('wrong-exception/%s:%s' % (name, kind), {
                        'step': step, 'list': type(list_outcome.exc).__name__, 'vector': real_outcome.signature()}))
            difference = _same_items(vector, before)
            if difference:
                findings.append(Finding('refusal-changed/%s:%s' % (name, kind), {'step': step, 'difference': difference}))
                return findings
            continue
        size_after = _body_size(cls, expected)
        if op['op'] == 'append-many':
            # a bulk helper of the harness: each single append is judged on its own below
            in_bounds = None
        else:
            in_bounds = low <= size_after <= high
        if in_bounds is None:
            # replay the appends one by one against the model
            expected = list(before)
            for _ in range(op['n']):
                if low <= _body_size(cls, expected + [built['x']]) <= high:
                    expected.append(built['x'])
                else:
                    break
            if not real_outcome.ok and real_outcome.kind != 'documented':
                findings.append(Finding('wrong-exception/%s:%s' % (name, kind), {'step': step, 'vector': real_outcome.signature()}))
                return findings
            difference = _same_items(vector, expected)
            if difference:
                findings.append(Finding('model-differs/%s:%s' % (name, kind), {'step': step, 'difference': difference}))
                return findings
            model = expected
        elif in_bounds:
            if not real_outcome.ok:
                findings.append(Finding('valid-edit-refused/%s:%s' % (name, kind), {
                    'step': step, 'vector': real_outcome.signature(), 'size_after': size_after, 'bounds': [low, high]}))
                difference = _same_items(vector, before)
                if difference:
                    findings.append(Finding('refusal-changed/%s:%s' % (name, kind), {'step': step, 'difference': difference}))
                    return findings
                continue
            difference = _same_items(vector, expected)
            if difference:
                findings.append(Finding('model-differs/%s:%s' % (name, kind), {'step': step, 'difference': difference}))
                return findings
            model = expected
        else:
            touched_bound = True
            if real_outcome.ok or not isinstance(real_outcome.exc, errors.InvalidDataLength):
                findings.append(Finding('bounds/%s:%s' % (name, kind), {
                    'step': step, 'vector': real_outcome.signature(), 'size_after': size_after, 'bounds': [low, high]}))
                if real_outcome.ok:
                    return findings
            difference = _same_items(vector, before)
            if difference:
                findings.append(Finding('refusal-changed/%s:%s' % (name, kind), {'step': step, 'difference': difference}))
                return findings
        if _body_size(cls, model) in (low, high):
            touched_bound = True
        # 2. invariants of the state
        composed = lib.call(vector.compose)
        if not composed.ok:
            findings.append(Finding('compose-raises/%s:%s' % (name, kind), {'step': step, 'error': composed.signature()}))
            return findings
        data = bytes(composed.value)
        width = param.item_num_size
        if name != 'TlsHandshakeHelloRandomBytes' and width:
            body = data[width:]
            if int.from_bytes(data[:width], 'big') != len(body):
                findings.append(Finding('prefix/%s:%s' % (name, kind), {'step': step, 'prefix': data[:width].hex(), 'body': len(body)}))
                return findings
            if not low <= len(body) <= high:
                findings.append(Finding('bounds/%s:%s' % (name, kind), {'step': step, 'body': len(body), 'bounds': [low, high]}))
                return findings
        fresh = lib.call(cls, list(model))
        if not fresh.ok:
            findings.append(Finding('fresh-eq/%s:%s' % (name, kind), {'step': step, 'fresh': fresh.signature()}))
            return findings
        if bytes(fresh.value.compose()) != data:
            findings.append(Finding('fresh-eq/%s:%s' % (name, kind), {'step': step, 'what': 'compose differs'}))
            return findings
        if lib.defines_eq(cls) and not lib.graph_has_class_without_eq(vector):
            equal = lib.call(lambda: vector == fresh.value)
            if not equal.ok or not equal.value:
                findings.append(Finding('fresh-eq/%s:%s' % (name, kind), {
                    'step': step, 'what': 'edited vector != freshly built vector with the same items'}))
                return findings
        reparsed = lib.call(cls.parse_exact_size, data)
        if reparsed.kind == 'documented':
            findings.append(Finding('reparse/%s:%s' % (name, kind), {'step': step, 'error': reparsed.signature()}))
            return findings
        if reparsed.ok and lib.diff(list(reparsed.value), list(model)):
            findings.append(Finding('reparse/%s:%s' % (name, kind), {'step': step, 'what': 'items differ'}))
            return findings
    check_case.touched_bound = touched_bound
    check_case.nested = False
    if not findings and case.get('nested_edit') and model:
        findings.extend(_nested_edit_clause(cls, name, param, vector, model, case['nested_edit']))
    return findings


def _nested_edit_clause(cls, name, param, vector, model, seed_value):
    """Last step of a history: an item that sits in the vector is edited through its own fields / its own inner
    vector.  The outer vector is then composed: the prefix must count the body, and the bytes must be those of a
    vector freshly built from the same (edited) items and parse back to them."""
    from vf.gen import edits  # pylint: disable=import-outside-toplevel
    done = edits.nested_edits(vector, random.Random(seed_value), limit=1)
    done = [d for d in done if d.startswith(name + '[')]      # an item of *this* vector, not of a vector inside it
    if not done:
        return []
    check_case.nested = True
    fresh = lib.call(cls, list(model))          # model holds the same item objects: they carry the edit
    if not fresh.ok:
        return []            # the edited items no longer fit this vector: not a state the clause talks about
    expected = lib.call(fresh.value.compose)
    composed = lib.call(vector.compose)
    if not expected.ok:
        return []
    if not composed.ok:
        return [Finding('compose-raises/%s:nested-edit' % name, {'edit': done, 'error': composed.signature()})]
    data = bytes(composed.value)
    width = param.item_num_size
    if name != 'TlsHandshakeHelloRandomBytes' and width and int.from_bytes(data[:width], 'big') != len(data) - width:
        return [Finding('prefix/%s:nested-edit' % name, {'edit': done, 'prefix': data[:width].hex(), 'body': len(data) - width})]
    if data != bytes(expected.value):
        return [Finding('fresh-eq/%s:nested-edit' % name, {'edit': done, 'what': 'compose differs from a freshly built vector'})]
    return []


check_case.touched_bound = False
check_case.nested = False


def _case_fn(case, stats):
    stats.evaluations += 1
    name = case['cls'].split(':')[1]
    stats.classes[name] += 1
    check_case.touched_bound = False
    findings = check_case(case)
    kinds = {op['op'] for op in case['ops']}
    for kind in kinds:
        stats.labels['op:' + kind] += 1
    stats.labels['init-via:' + case.get('via', 'list')] += 1
    if check_case.nested:
        stats.labels['ends-with-nested-edit'] += 1
    has_slice = bool(kinds & {'delslice', 'setslice'})
    refused = any(f.key.split('/')[0] in ('bounds', 'refusal-changed') for f in findings)
    if has_slice or refused or check_case.touched_bound:
        stats.nontriv((case['cls'], digest(case['init']), digest(case['ops'])))
        if check_case.touched_bound:
            stats.labels['touched-bound'] += 1
        if stats.classes[name] % 40 == 3:
            stats.sample(name, {'cls': name, 'init': specs.render(case['init'], 120),
                                'ops': [specs.render(op, 100) for op in case['ops'][:6]]})
    return findings


def _inflate(spec, extra):
    """Copy of an item spec whose first byte-string / byte-list leaf is `extra` octets longer, or None."""
    import copy  # pylint: disable=import-outside-toplevel
    clone = copy.deepcopy(spec)
    done = [False]

    def walk(node):
        if done[0]:
            return node
        if isinstance(node, dict):
            for key in ('b', 'ba'):
                if set(node) == {key} and isinstance(node[key], str):
                    done[0] = True
                    return {key: node[key] + '5a' * extra}
            if set(node) == {'cycle', 'n'} and all(isinstance(item, int) for item in node['cycle']):
                done[0] = True
                return {'cycle': node['cycle'], 'n': node['n'] + extra}
            return {key: walk(value) for key, value in node.items()}
        if isinstance(node, list):
            if node and all(isinstance(item, int) and not isinstance(item, bool) for item in node) and len(node) <= 4096:
                done[0] = True
                return {'cycle': node[:5] or [0x5a], 'n': len(node) + extra}
            return [walk(item) for item in node]
        return node
    clone = walk(clone)
    return clone if done[0] else None


def near_bound_cases(ref, seed_value):
    """Histories that start at (or a few octets below) the ceiling of a vector of variable-sized items: one item is
    inflated until the body is max - d.  The operations are the ones whose bookkeeping is easiest to get wrong there:
    reverse (no size change at all), an append / insert that does not fit any more, a replacement by a slightly larger
    item."""
    cls = lib.resolve(ref)
    param = cls.get_param()
    high = param.max_byte_num
    if not 300 < high <= 70000:
        return []
    found = []

    def collect(item, _stats):
        if len(found) < 6:
            found.append(item)
        return ()
    hyp.explore(item_strategy(ref), collect, Stats(), 12, seed_value)
    cases = []
    for small in found:
        built = lib.call(specs.build, small)
        if not built.ok or not lib.call(_item_size, cls, built.value).ok:
            continue
        small_size = _item_size(cls, built.value)
        probe = _inflate(small, 10)
        if probe is None:
            continue
        grown = lib.call(specs.build, probe)
        if not grown.ok or not lib.call(_item_size, cls, grown.value).ok or _item_size(cls, grown.value) != small_size + 10:
            continue        # the leaf is not what decides this item's size
        for delta in (0, 1, 2, 3, 5):
            extra = high - delta - 2 * small_size
            if extra <= 0 or small_size + extra > 66000:
                continue
            big = _inflate(small, extra)
            big_built = lib.call(specs.build, big)
            if not big_built.ok or not lib.call(_item_size, cls, big_built.value).ok \
                    or _item_size(cls, big_built.value) != small_size + extra:
                continue        # the item has a ceiling of its own below the vector's
            alone = lib.call(lambda: cls.parse_exact_size(bytes(cls([big_built.value]).compose())))
            if not alone.ok or lib.diff(list(alone.value), [big_built.value]):
                break           # inflating that leaf does not give a valid item (a fixed-width field): not this class
            for init, ops in (
                    ([small, big], [{'op': 'reverse'}]),
                    ([small, small, big][:3] if 3 * small_size + extra <= high else [small, big], [{'op': 'reverse'}, {'op': 'reverse'}]),
                    ([big, small], [{'op': 'append', 'x': small}]),
                    ([small, big], [{'op': 'insert', 'i': 0, 'x': small}, {'op': 'reverse'}]),
                    ([big, small], [{'op': 'setitem', 'i': 1, 'x': _inflate(small, delta + 1)}]),
                    ([big, small], [{'op': 'pop', 'i': None}, {'op': 'append', 'x': small}, {'op': 'append', 'x': small}])):
                if len(init) == 3:
                    extra3 = high - delta - 3 * small_size
                    if extra3 <= 0:
                        continue
                    init = [small, small, _inflate(small, extra3)]
                if not all(lib.call(specs.build, item).ok for item in init) or \
                        not all(lib.call(specs.build, op['x']).ok for op in ops if 'x' in op):
                    continue
                cases.append({'cls': ref, 'init': init, 'ops': ops, 'via': 'list', 'nested_edit': None, 'near_bound': delta})
        break
    return cases


def _job(arg):
    ref, examples, max_ops, seed_value, budget_s = arg
    stats = Stats()
    hyp.explore(op_strategy(ref, max_ops), _case_fn, stats, examples, seed_value, budget_s=budget_s)
    for case in near_bound_cases(ref, seed_value):
        stats.labels['near-bound-history'] += 1
        for finding in _case_fn(case, stats):
            stats.finding(finding, case)
    return stats


def _jobs(ctx):
    examples = 100 if ctx.quick else 3000
    max_ops = 25 if ctx.quick else 80
    budget_s = 100 if ctx.quick else 1500
    base = ctx.derive_seed('machine')
    return [(ref, examples, max_ops, base ^ (digest(ref) & 0xffffffff), budget_s) for ref in vector_classes()]


def run(ctx):
    jobs = _jobs(ctx)
    stats = pool.run_shards(_job, jobs)
    stats.extra['vector_classes'] = len(jobs)
    stats.extra['skipped'] = SKIP
    return stats


def shrink(ctx, key, entry):
    ref = entry['case']['cls']
    for job in _jobs(ctx):
        if job[0] == ref:
            def case_fn(case, _stats):
                return check_case(case)
            return hyp.shrink(op_strategy(ref, job[2]), case_fn, key, job[1], job[3], box_s=25)
    return None
