# -*- coding: utf-8 -*-
"""C08 — DNSSEC and mail-related DNS record data follow the RFCs, key tag included.

Hypothesis strategies generate *models* (plain JSON data: ints, hex strings, lists); `vf.ref.dns` turns a model
into the RDATA the RFCs prescribe; the adapters in this module build the library object from the model and turn a
parsed library object back into a model.

    compose     lib_object(model).compose()            == reference RDATA
    parse       model_of(Class.parse_exact_size(rdata)) == model         (field by field, all key octets)
    key tag     obj.key_tag == RFC 4034 Appendix B (B.1 for algorithm 1) over the RDATA of that object
"""
import calendar
import datetime
import random

from hypothesis import strategies as st

from vf.core import hyp, pool
from vf.core.lib import library_exceptions_are_findings as _guard
from vf.core.stats import Finding, Stats
from vf.ref import dns as ref

ID = 'C08'
LEVEL = 'exploration'
RULE = ('models are generated per record kind (DNSKEY, DS, RRSIG, MX, TXT, name) by Hypothesis strategies plus a '
        'seeded boundary grid (every supported DNSKEY algorithm x all 8 flag subsets; RSA exponents of 1..4, 255, '
        '256, 257 and 512 octets (1- and 3-octet length forms) x moduli of 1, 2, 3, 63..65, 127..129, 255..257, '
        '511, 512 octets incl. the values 256^k, 256^k+1, 256^(k+1)-1; DSA T = 0..8; EC/GOST keys are real curve '
        'points incl. points whose x and/or y have leading zero octets; Ed25519 32 / Ed448 57 octets; DS with every '
        'digest type x every algorithm number; RRSIG with registered and private (0xff00-0xfffe) types and '
        'timestamps incl. 0, 2^31-1, 2^31, 2^32-2, 2^32-1; TXT with 1..6 character-strings of 0..255 octets, total '
        'up to 1530; names of 0..N labels of 1..63 octets (LDH, other printable ASCII, IDNA A-labels) up to 255 '
        'octets). A case is non-trivial when its RDATA carries variable content beyond the fixed header of its '
        'record type (a key, digest, signature, label or non-empty string); distinct by (kind, reference RDATA).')
ASSUMPTIONS = [
    'vf/ref/dns.py is the oracle for the layout; it reproduces the key tags and keys printed in RFC 4034 (2.3, 5.4), '
    'RFC 5702 6.1, RFC 5933 2.2, RFC 6605 6.1/6.2 and RFC 8080 6.1/6.2 (python -m vf.ref.dns)',
    'the key tag of an object is judged against Appendix B applied to the RDATA this very object composes, so that a '
    'layout deviation (reported as compose-differs / parse-differs) is not reported a second time as a key tag '
    'deviation',
    'which curve NAME the library attaches to an algorithm is not judged (the statement speaks of key material); the '
    'adapter passes PRIME256V1 / SECP384R1 / GC256B when it builds a key',
    'the library has one text value per TXT record: the boundaries between character-strings are not representable '
    'and not judged; a composed TXT RDATA is accepted when it is ANY sequence of character-strings whose '
    'concatenation is the value (validity predicate, RFC 1035 3.3.14)',
    'labels and character-strings are generated from 7-bit octets only (the library models them as text); octets '
    '>= 0x80, which RFC 1035 permits, are outside the generated domain; ASCII labels starting with "xn--" are '
    'generated only as genuine A-labels; the mapping U-label <-> A-label is taken from Python\'s stdlib idna codec '
    'and only U-labels that the codec round-trips are generated',
    'unknown DNSKEY flag bits, RR types that are neither in the library\'s table nor private, and algorithm / digest '
    'numbers unknown to cryptodatahub are not generated (code-point handling is C10)',
    'RRSIG signatures are generated with 32..600 octets (every defined algorithm has signatures >= 40 octets); DS '
    'digests have the size of their digest type; RSA moduli are limited to 4096 bits (RFC 3110 section 2)',
    'the RSA modulus / DSA P have no leading zero octet (RFC 3110: prohibited; DSA: 2^(L-1) < p); T is not a field '
    'of the library\'s DSA key, it is judged through the composed octets only',
]

ALG_NAMES = {
    1: 'RSAMD5', 3: 'DSA', 5: 'RSASHA1', 6: 'DSA-NSEC3-SHA1', 7: 'RSASHA1-NSEC3-SHA1', 8: 'RSASHA256', 10: 'RSASHA512',
    12: 'ECC-GOST', 13: 'ECDSAP256SHA256', 14: 'ECDSAP384SHA384', 15: 'ED25519', 16: 'ED448',
}
DNSKEY_ALGORITHMS = sorted(ALG_NAMES)
# locus of the layout clauses: the public key format (= code path) an algorithm number selects
KEY_FAMILY = {1: 'RSA', 5: 'RSA', 7: 'RSA', 8: 'RSA', 10: 'RSA', 3: 'DSA', 6: 'DSA', 12: 'ECC-GOST', 13: 'ECDSAP256',
              14: 'ECDSAP384', 15: 'ED25519', 16: 'ED448'}
FLAG_BITS = (ref.FLAG_ZONE_KEY, ref.FLAG_REVOKE, ref.FLAG_SEP)
EPOCH = datetime.datetime(1970, 1, 1, tzinfo=datetime.timezone.utc)
TIME_BOUNDARIES = (0, 1, 2 ** 31 - 1, 2 ** 31, 2 ** 32 - 2, 2 ** 32 - 1)


# --------------------------------------------------------------------------------------------------------------------
# library access (imported lazily: the code under test is put on sys.path by vf.core.env.bootstrap)

class _Lib(object):
    _cache = None

    def __init__(self):
        from cryptodatahub.common.algorithm import NamedGroup  # pylint: disable=import-outside-toplevel
        from cryptodatahub.common import key as keys  # pylint: disable=import-outside-toplevel
        from cryptodatahub.common.exception import InvalidValue  # pylint: disable=import-outside-toplevel
        from cryptodatahub.dnsrec import algorithm as alg  # pylint: disable=import-outside-toplevel
        from cryptoparser.common import exception as exc  # pylint: disable=import-outside-toplevel
        from cryptoparser.dnsrec import record  # pylint: disable=import-outside-toplevel
        self.NamedGroup = NamedGroup
        self.keys = keys
        self.record = record
        self.parse_errors = (InvalidValue, exc.InvalidType, exc.NotEnoughData, exc.TooMuchData)
        self.algorithm_by_code = {member.value.code: member for member in alg.DnsSecAlgorithm}
        self.digest_by_code = {member.value.code: member for member in alg.DnsSecDigestType}
        self.rrtype_by_code = {member.value.code: member for member in alg.DnsRrType}
        self.flag_by_bit = {int(member): member for member in record.DnsSecFlag}


def lib():
    if _Lib._cache is None:
        _Lib._cache = _Lib()
    return _Lib._cache


# --------------------------------------------------------------------------------------------------------------------
# JSON <-> reference model

def _h(value):
    return '%x' % value


def _i(text):
    return int(text, 16)


def _key_model(algorithm, key):
    """JSON key (hex strings) -> reference key model (ints / bytes)."""
    fmt = ref.KEY_FORMAT[algorithm]
    if fmt == 'rsa':
        return {'e': _i(key['e']), 'n': _i(key['n'])}
    if fmt == 'dsa':
        return {'t': key['t'], 'q': _i(key['q']), 'p': _i(key['p']), 'g': _i(key['g']), 'y': _i(key['y'])}
    if fmt in ('ecdsa', 'gost'):
        return {'x': _i(key['x']), 'y': _i(key['y'])}
    return {'raw': bytes.fromhex(key['raw'])}


def _label_wire(label):
    return label[0].encode('ascii')


def _label_text(label):
    return label[1]


def _brief(value, limit=160):
    if isinstance(value, (bytes, bytearray)):
        value = bytes(value).hex()
    elif isinstance(value, dict):
        return {k: _brief(v, 80) for k, v in value.items()}
    elif isinstance(value, int) and not isinstance(value, bool) and value > 2 ** 64:
        value = '0x%x' % value
    elif isinstance(value, (list, tuple)):
        return [_brief(v, 80) for v in list(value)[:12]]
    if isinstance(value, str) and len(value) > limit:
        return '%s...(%d chars)' % (value[:limit], len(value))
    return value


def _first_difference(a, b):
    a, b = bytes(a), bytes(b)
    for index, (x, y) in enumerate(zip(a, b)):
        if x != y:
            return index
    return min(len(a), len(b))


# --------------------------------------------------------------------------------------------------------------------
# adapters: model -> library object, library object -> model

def _other_key(algorithm, key):
    """A second, different key of the same algorithm and size class, derived from the first (None if none is at hand)."""
    fmt = ref.KEY_FORMAT[algorithm]
    if fmt == 'rsa':
        return {'e': key['e'], 'n': key['n'] + 2} if key['n'] > 16 else None
    if fmt == 'dsa':
        return dict(key, y=key['y'] + 1) if key['y'] + 1 < key['p'] else None
    if fmt == 'eddsa':
        raw = bytes(key['raw'])
        return {'raw': bytes([raw[0] ^ 0x55]) + raw[1:]} if raw else None
    return None          # EC points: another point on the curve is not derived here


def _build_key(algorithm, key):
    L = lib()
    keys = L.keys
    fmt = ref.KEY_FORMAT[algorithm]
    if fmt == 'rsa':
        params = keys.PublicKeyParamsRsa(modulus=key['n'], public_exponent=key['e'])
    elif fmt == 'dsa':
        params = keys.PublicKeyParamsDsa(prime=key['p'], generator=key['g'], order=key['q'], public_key_value=key['y'])
    elif fmt in ('ecdsa', 'gost'):
        group = {12: L.NamedGroup.GC256B, 13: L.NamedGroup.PRIME256V1, 14: L.NamedGroup.SECP384R1}[algorithm]
        params = keys.PublicKeyParamsEcdsa(named_group=group, point_x=key['x'], point_y=key['y'])
    else:
        group = {15: L.NamedGroup.CURVE25519, 16: L.NamedGroup.CURVE448}[algorithm]
        params = keys.PublicKeyParamsEddsa(curve_type=group, key_data=key['raw'])
    return keys.PublicKey.from_params(params)


def _key_of(public_key):
    """Library key -> comparable dict (no T for DSA: the library does not keep it)."""
    keys = lib().keys
    params = public_key.params
    if isinstance(params, keys.PublicKeyParamsRsa):
        return {'e': params.public_exponent, 'n': params.modulus}
    if isinstance(params, keys.PublicKeyParamsDsa):
        return {'q': params.order, 'p': params.prime, 'g': params.generator, 'y': params.public_key_value}
    if isinstance(params, keys.PublicKeyParamsEcdsa):
        return {'x': params.point_x, 'y': params.point_y}
    if isinstance(params, keys.PublicKeyParamsEddsa):
        return {'raw': bytes(params.key_data)}
    raise TypeError(type(params))


def _build_name(labels):
    return lib().record.DnsNameUncompressed([_label_text(label) for label in labels])


def _timestamp_of(value):
    if not isinstance(value, datetime.datetime):
        return repr(value)
    seconds = calendar.timegm(value.utctimetuple())
    if value.microsecond:
        return seconds + value.microsecond / 1e6
    return seconds


def _rrtype(code):
    L = lib()
    if code in L.rrtype_by_code:
        return L.rrtype_by_code[code]
    return L.record.DnsRrTypePrivate(code)


def _rrtype_code(value):
    if isinstance(value, lib().record.DnsRrTypePrivate):
        return value.value
    return value.value.code


# --------------------------------------------------------------------------------------------------------------------
# the oracle

class _Judge(object):
    """Common compose / parse comparison of one case."""

    def __init__(self, cls_name, suffix=''):
        self.cls_name = cls_name
        self.locus = cls_name + suffix
        self.findings = []

    def add(self, clause, detail):
        self.findings.append(Finding('%s/%s' % (clause, self.locus), detail))

    def construct(self, factory, model_brief):
        """The object for an in-domain model, or None (a constructor that refuses a value the wire format can carry
        is a finding, not a harness error)."""
        try:
            return factory()
        except Exception as e:  # pylint: disable=broad-except
            self.add('construct-fails:%s' % type(e).__name__, {'model': model_brief, 'error': repr(e)[:300]})
            return None

    def compose(self, obj, expected, model_brief, valid=None):
        """Returns the composed bytes or None.  `valid(bytes)` replaces byte equality where several encodings are
        conformant."""
        if obj is None:
            return None
        try:
            composed = bytes(obj.compose())
        except Exception as e:  # pylint: disable=broad-except
            self.add('compose-fails:%s' % type(e).__name__, {'model': model_brief, 'error': repr(e)[:300]})
            return None
        if valid is not None:
            problem = valid(composed)
            if problem:
                self.add('compose-differs', {'model': model_brief, 'library': _brief(composed), 'problem': problem})
        elif composed == expected:
            try:
                again = bytes(obj.compose())
            except Exception as e:  # pylint: disable=broad-except
                again = repr(e)[:200]
            if again != composed:
                self.add('compose-not-repeatable', {'model': model_brief, 'first': _brief(composed), 'second': _brief(again)})
        if valid is None and composed != expected:
            self.add('compose-differs', {
                'model': model_brief, 'library': _brief(composed), 'reference': _brief(expected),
                'library_len': len(composed), 'reference_len': len(expected),
                'first_difference_at': _first_difference(composed, expected),
            })
        return composed

    def parse(self, parser_class, rdata, model_brief):
        try:
            return parser_class.parse_exact_size(rdata)
        except Exception as e:  # pylint: disable=broad-except
            self.add('parse-fails:%s' % type(e).__name__, {
                'model': model_brief, 'rdata': _brief(rdata), 'error': repr(e)[:300]})
            return None

    def differs(self, fields, model_brief, rdata, got, want):
        self.add('parse-differs:%s' % fields[0], {       # first differing field in wire order names the locus
            'fields': list(fields),
            'model': model_brief, 'rdata': _brief(rdata), 'parsed': _brief(got), 'expected': _brief(want)})


def _own_modulus(rdata, fallback):
    """Modulus carried by an RSA DNSKEY RDATA (lenient: a leading zero octet is reported elsewhere)."""
    body = rdata[4:]
    if not body:
        return fallback
    length, offset = body[0], 1
    if length == 0 and len(body) >= 3:
        length, offset = int.from_bytes(body[1:3], 'big'), 3
    if len(body) <= offset + length:
        return fallback
    return int.from_bytes(body[offset + length:], 'big')


def _check_keytag(judge, obj, algorithm, modulus, origin):
    """obj.key_tag against Appendix B over obj's own RDATA (B.1 over the modulus for algorithm 1)."""
    try:
        own = bytes(obj.compose())
    except Exception:  # pylint: disable=broad-except
        return      # already reported as compose-fails
    parity = 'odd' if len(own) % 2 else 'even'
    if algorithm == ref.ALG_RSAMD5:
        expected = ref.keytag_b1(_own_modulus(own, modulus))
    else:
        expected = ref.keytag_appendix_b(own)
    try:
        got = obj.key_tag
    except Exception as e:  # pylint: disable=broad-except
        got = 'raised %r' % (e,)
    if got != expected:
        judge.findings.append(Finding('keytag/%s:%s' % (ALG_NAMES[algorithm], parity), {
            'rdata': _brief(own), 'rdata_len': len(own), 'library_key_tag': got, 'rfc4034_key_tag': expected,
            'object': origin}))


def _check_dnskey(case):
    L = lib()
    algorithm = case['algorithm']
    key = _key_model(algorithm, case['key'])
    flags = case['flags']
    rdata = ref.encode_dnskey(flags, 3, algorithm, key)
    decoded = ref.decode_dnskey(rdata)
    if decoded != {'flags': flags, 'protocol': 3, 'algorithm': algorithm, 'key': key}:
        raise AssertionError('reference codec does not round-trip: %r' % (case,))
    judge = _Judge('DnsRecordDnskey', ':' + KEY_FAMILY[algorithm])
    brief = {'flags': flags, 'algorithm': algorithm, 'key': _brief(case['key'])}
    record = L.record
    obj = record.DnsRecordDnskey(
        flags=[L.flag_by_bit[bit] for bit in FLAG_BITS if flags & bit],
        algorithm=L.algorithm_by_code[algorithm],
        key=_build_key(algorithm, key),
        protocol=record.DnsSecProtocol.V3,
    )
    judge.compose(obj, rdata, brief)
    _check_keytag(judge, obj, algorithm, key.get('n'), 'constructed')
    # key rollover on the same record object, after it has been composed and its tag has been read: the RDATA and
    # the tag are those of the new key
    other = _other_key(algorithm, key)
    if other is not None and not judge.findings:
        try:
            obj.key = _build_key(algorithm, other)
        except Exception:  # pylint: disable=broad-except
            other = None
        if other is not None:
            judge.compose(obj, ref.encode_dnskey(flags, 3, algorithm, other),
                          {'flags': flags, 'algorithm': algorithm, 'key': _brief(other), 'history': 'composed, key replaced, composed'})
            _check_keytag(judge, obj, algorithm, other.get('n'), 'constructed')
        obj.key = _build_key(algorithm, key)
    parsed = judge.parse(record.DnsRecordDnskey, rdata, brief)
    if parsed is not None:
        want_key = {name: value for name, value in key.items() if name != 't'}
        got = {
            'flags': sum(int(flag) for flag in set(parsed.flags)),
            'algorithm': parsed.algorithm.value.code,
            'protocol': parsed.protocol.value,
            'key': _key_of(parsed.key),
        }
        want = {'flags': flags, 'algorithm': algorithm, 'protocol': 3, 'key': want_key}
        fields = [name for name in want if got[name] != want[name]]
        if fields:
            judge.differs(fields, brief, rdata, {n: got[n] for n in fields}, {n: want[n] for n in fields})
        _check_keytag(judge, parsed, algorithm, key.get('n'), 'parsed')
    return judge.findings


def _check_ds(case):
    L = lib()
    digest = bytes.fromhex(case['digest'])
    rdata = ref.encode_ds(case['key_tag'], case['algorithm'], case['digest_type'], digest)
    want = {'key_tag': case['key_tag'], 'algorithm': case['algorithm'], 'digest_type': case['digest_type'],
            'digest': digest}
    if ref.decode_ds(rdata) != want:
        raise AssertionError('reference codec does not round-trip: %r' % (case,))
    judge = _Judge('DnsRecordDs')
    obj = judge.construct(lambda: L.record.DnsRecordDs(
        key_tag=case['key_tag'], algorithm=L.algorithm_by_code[case['algorithm']],
        digest_type=L.digest_by_code[case['digest_type']], digest=digest), case)
    judge.compose(obj, rdata, case)
    parsed = judge.parse(L.record.DnsRecordDs, rdata, case)
    if parsed is not None:
        got = {'key_tag': parsed.key_tag, 'algorithm': parsed.algorithm.value.code,
               'digest_type': parsed.digest_type.value.code, 'digest': bytes(parsed.digest)}
        fields = [name for name in want if got[name] != want[name]]
        if fields:
            judge.differs(fields, case, rdata, {n: got[n] for n in fields}, {n: want[n] for n in fields})
    return judge.findings


def _check_rrsig(case):
    L = lib()
    signature = bytes.fromhex(case['signature'])
    signer_wire = [_label_wire(label) for label in case['signer']]
    rdata = ref.encode_rrsig(
        case['type_covered'], case['algorithm'], case['labels'], case['original_ttl'], case['expiration'],
        case['inception'], case['key_tag'], signer_wire, signature)
    want = {
        'type_covered': case['type_covered'], 'algorithm': case['algorithm'], 'labels': case['labels'],
        'original_ttl': case['original_ttl'], 'expiration': case['expiration'], 'inception': case['inception'],
        'key_tag': case['key_tag'], 'signer': signer_wire, 'signature': signature,
    }
    if ref.decode_rrsig(rdata) != want:
        raise AssertionError('reference codec does not round-trip: %r' % (case,))
    judge = _Judge('DnsRecordRrsig')
    brief = dict(case, signature=_brief(case['signature'], 40))
    obj = judge.construct(lambda: L.record.DnsRecordRrsig(
        type_covered=_rrtype(case['type_covered']),
        algorithm=L.algorithm_by_code[case['algorithm']],
        labels=case['labels'],
        original_ttl=case['original_ttl'],
        signature_expiration=EPOCH + datetime.timedelta(seconds=case['expiration']),
        signature_inception=EPOCH + datetime.timedelta(seconds=case['inception']),
        key_tag=case['key_tag'],
        signers_name=_build_name(case['signer']),
        signature=signature,
    ), brief)
    judge.compose(obj, rdata, brief)
    parsed = judge.parse(L.record.DnsRecordRrsig, rdata, brief)
    if parsed is not None:
        want['signer'] = [_label_text(label) for label in case['signer']]
        got = {
            'type_covered': _rrtype_code(parsed.type_covered), 'algorithm': parsed.algorithm.value.code,
            'labels': parsed.labels, 'original_ttl': parsed.original_ttl,
            'expiration': _timestamp_of(parsed.signature_expiration),
            'inception': _timestamp_of(parsed.signature_inception),
            'key_tag': parsed.key_tag, 'signer': list(parsed.signers_name.labels),
            'signature': bytes(parsed.signature),
        }
        fields = [name for name in want if got[name] != want[name]]
        if fields:
            judge.differs(fields, brief, rdata, {n: got[n] for n in fields}, {n: want[n] for n in fields})
    return [_refine_rrsig(finding, case) for finding in judge.findings]


def _refine_rrsig(finding, case):
    """The all-ones timestamp is one root cause of its own (the parser maps it to None): give it its own locus so
    that it cannot hide any other TypeError of the RRSIG parser."""
    if finding.key == 'parse-fails:TypeError/DnsRecordRrsig' and 2 ** 32 - 1 in (case['expiration'], case['inception']):
        return Finding('parse-fails:TypeError/DnsRecordRrsig:time=2^32-1', finding.detail)
    return finding


def _check_mx(case):
    L = lib()
    wire = [_label_wire(label) for label in case['exchange']]
    rdata = ref.encode_mx(case['preference'], wire)
    if ref.decode_mx(rdata) != {'preference': case['preference'], 'exchange': wire}:
        raise AssertionError('reference codec does not round-trip: %r' % (case,))
    judge = _Judge('DnsRecordMx')
    obj = judge.construct(
        lambda: L.record.DnsRecordMx(priority=case['preference'], exchange=_build_name(case['exchange'])), case)
    judge.compose(obj, rdata, case)
    parsed = judge.parse(L.record.DnsRecordMx, rdata, case)
    if parsed is not None:
        want = {'preference': case['preference'], 'exchange': [_label_text(label) for label in case['exchange']]}
        got = {'preference': parsed.priority, 'exchange': list(parsed.exchange.labels)}
        fields = [name for name in want if got[name] != want[name]]
        if fields:
            judge.differs(fields, case, rdata, {n: got[n] for n in fields}, {n: want[n] for n in fields})
    return judge.findings


def _check_name(case):
    L = lib()
    wire = [_label_wire(label) for label in case['labels']]
    data = ref.encode_name(wire)
    if ref.decode_name(data) != wire:
        raise AssertionError('reference codec does not round-trip: %r' % (case,))
    judge = _Judge('DnsNameUncompressed')
    judge.compose(_build_name(case['labels']), data, case)
    parsed = judge.parse(L.record.DnsNameUncompressed, data, case)
    if parsed is not None:
        want = [_label_text(label) for label in case['labels']]
        if list(parsed.labels) != want:
            judge.differs(['labels'], case, data, list(parsed.labels), want)
    return judge.findings


def _check_txt(case):
    L = lib()
    strings = [item.encode('ascii') for item in case['strings']]
    rdata = ref.encode_txt(strings)
    if ref.decode_txt(rdata) != strings:
        raise AssertionError('reference codec does not round-trip: %r' % (case,))
    value = ''.join(case['strings'])
    judge = _Judge('DnsRecordTxt')
    brief = {'strings': [_brief(item, 40) for item in case['strings']], 'lengths': [len(item) for item in strings]}

    def valid(composed):
        try:
            parts = ref.decode_txt(composed)
        except ref.RefError as e:
            return 'not a sequence of character-strings: %s' % e
        if b''.join(parts) != value.encode('ascii'):
            return 'character-strings do not concatenate to the value'
        return None

    judge.compose(L.record.DnsRecordTxt(value=value), rdata, brief, valid=valid)
    parsed = judge.parse(L.record.DnsRecordTxt, rdata, brief)
    if parsed is not None and parsed.value != value:
        judge.differs(['value'], brief, rdata, parsed.value, value)
    return judge.findings


_CHECKS = {
    'dnskey': _check_dnskey, 'ds': _check_ds, 'rrsig': _check_rrsig, 'mx': _check_mx, 'txt': _check_txt,
    'name': _check_name,
}


@_guard
def check_case(case):
    return _CHECKS[case['kind']](case)


# --------------------------------------------------------------------------------------------------------------------
# strategies (models only; nothing of the library is touched here except its code-point tables)

def _sized_int(size):
    """Integers of exactly `size` octets (no leading zero octet), biased to the edges of that range."""
    low, high = 256 ** (size - 1), 256 ** size - 1
    if size == 1:
        low = 1
    return st.one_of(
        st.sampled_from(sorted({low, low + 1, high, high - 1, (high + 1) // 2, (high + 1) // 2 + 1})),
        st.integers(min_value=low, max_value=high),
        st.integers(min_value=(high + 1) // 2, max_value=high).map(lambda v: v | 1),      # top bit set, odd
    )


EXPONENT_SIZES = (1, 2, 3, 4, 5, 8, 16, 128, 254, 255, 256, 257, 300, 512)
MODULUS_SIZES = (1, 2, 3, 4, 32, 63, 64, 65, 127, 128, 129, 255, 256, 257, 384, 511, 512)


def _rsa_keys():
    exponent = st.one_of(
        st.sampled_from([1, 3, 17, 255, 256, 65537, 2 ** 32 - 1, 2 ** 32 + 1]),
        st.sampled_from(EXPONENT_SIZES).flatmap(_sized_int),
        st.integers(min_value=1, max_value=255).flatmap(_sized_int),
    )
    modulus = st.one_of(
        st.sampled_from(MODULUS_SIZES).flatmap(_sized_int),
        st.integers(min_value=1, max_value=512).flatmap(_sized_int),
    )
    return st.builds(lambda e, n: {'e': _h(e), 'n': _h(n)}, exponent, modulus)


def _dsa_keys():
    def build(t, p, q, g_pick, y_pick):
        size = 64 + 8 * t
        p = p % (256 ** size // 2) + 256 ** size // 2 | 1            # 2^(L-1) < p < 2^L, odd
        q = q % (2 ** 159) + 2 ** 159 | 1

        def pick(choice):
            kind, raw = choice
            if kind == 'small':
                return 1 + raw % 65536
            if kind == 'short':
                return 1 + raw % (256 ** (size - 1))
            if kind == 'top':
                return p - 1 - raw % 256
            return 1 + raw % (p - 1)
        return {'t': t, 'q': _h(q), 'p': _h(p), 'g': _h(pick(g_pick)), 'y': _h(pick(y_pick))}

    big = st.integers(min_value=0, max_value=2 ** 1024 - 1)
    pick = st.tuples(st.sampled_from(['small', 'short', 'top', 'any', 'any']), big)
    return st.builds(build, st.integers(min_value=0, max_value=8), big, st.integers(0, 2 ** 160 - 1), pick, pick)


POINT_CLASSES = ('random', 'random', 'random', 'x-short', 'x-short2', 'x-tiny', 'y-short', 'both-short', 'generator')


def make_point(algorithm, point_class, seed_value):
    """A real point of the curve of `algorithm`; the class says which coordinate has leading zero octets."""
    curve = ref.CURVES[algorithm]
    p = curve['p']
    size = (p.bit_length() + 7) // 8
    rng = random.Random(seed_value)
    if point_class == 'generator':
        return curve['gx'], curve['gy']
    x_limit = {'x-short': 256 ** (size - 1), 'x-short2': 256 ** (size - 2), 'x-tiny': 2 ** 16,
               'both-short': 256 ** (size - 1)}.get(point_class, p)
    y_limit = 256 ** (size - 1) if point_class in ('y-short', 'both-short') else p
    x = rng.randrange(x_limit)
    for _ in range(100000):
        y = ref.curve_y(algorithm, x)
        if y is not None:
            roots = [y, p - y] if y else [0]
            if y_limit != p:
                roots = [root for root in roots if root < y_limit]
            if roots:
                return x, roots[rng.randrange(len(roots))]
        x = (x + 1) % x_limit
    raise RuntimeError('no point found for %r' % ((algorithm, point_class, seed_value),))


def _point_keys(algorithm):
    return st.builds(
        lambda point_class, seed_value: dict(zip(('x', 'y'), map(_h, make_point(algorithm, point_class, seed_value)))),
        st.sampled_from(POINT_CLASSES), st.integers(min_value=0, max_value=2 ** 32 - 1))


def _eddsa_keys(algorithm):
    if algorithm == ref.ALG_ED25519:
        raw = st.one_of(st.binary(min_size=32, max_size=32), st.sampled_from([b'\x00' * 32, b'\xff' * 32,
                                                                             b'\x01' + b'\x00' * 31]))
    else:
        # RFC 8032 5.2.2: 57 octets, the last one holds only the sign bit of x in its most significant bit
        raw = st.builds(lambda body, sign: body + sign, st.one_of(
            st.binary(min_size=56, max_size=56), st.sampled_from([b'\x00' * 56, b'\xff' * 56])),
            st.sampled_from([b'\x00', b'\x80']))
    return raw.map(lambda value: {'raw': value.hex()})


def _keys(algorithm):
    fmt = ref.KEY_FORMAT[algorithm]
    if fmt == 'rsa':
        return _rsa_keys()
    if fmt == 'dsa':
        return _dsa_keys()
    if fmt in ('ecdsa', 'gost'):
        return _point_keys(algorithm)
    return _eddsa_keys(algorithm)


def _flags():
    return st.lists(st.sampled_from(FLAG_BITS), unique=True).map(sum)


def dnskey_models():
    return st.sampled_from(DNSKEY_ALGORITHMS).flatmap(lambda algorithm: st.builds(
        lambda flags, key: {'kind': 'dnskey', 'flags': flags, 'algorithm': algorithm, 'key': key},
        _flags(), _keys(algorithm)))


LDH = 'abcdefghijklmnopqrstuvwxyz0123456789-'
HOST = LDH + 'ABCDEFGHIJKLMNOPQRSTUVWXYZ_'
PRINTABLE = ''.join(chr(c) for c in range(0x21, 0x7f) if chr(c) != '.')
U_ALPHABET = ('äöüéèñçøåłčšž'      # latin
              'αβγκλμ'                                               # greek
              'абвгдж'                                               # cyrillic
              '日本語中文' 'abcxyz019')


def _ascii_label(alphabet, min_size=1, max_size=63):
    return st.text(alphabet=alphabet, min_size=min_size, max_size=max_size).filter(
        lambda text: not text.lower().startswith('xn--')).map(lambda text: [text, text])


def _idna_label():
    def to_label(text):
        try:
            wire = text.encode('idna')
            if not 1 <= len(wire) <= 63 or wire.decode('idna') != text or not wire.startswith(b'xn--'):
                return None
        except UnicodeError:
            return None
        return [wire.decode('ascii'), text]
    return st.text(alphabet=U_ALPHABET, min_size=1, max_size=12).map(to_label).filter(lambda label: label is not None)


def _labels():
    label = st.one_of(
        _ascii_label(LDH, 1, 12), _ascii_label(LDH, 1, 12), _ascii_label(LDH, 1, 63), _ascii_label(HOST, 1, 20),
        _ascii_label(LDH, 63, 63), _ascii_label(LDH, 1, 1), _ascii_label(PRINTABLE, 1, 16), _idna_label(),
    )

    def fit(labels):
        total, kept = 1, []
        for item in labels:
            if total + 1 + len(item[0]) > ref.MAX_NAME_OCTETS:
                break
            total += 1 + len(item[0])
            kept.append(item)
        return kept
    return st.one_of(
        st.lists(label, min_size=0, max_size=5),
        st.lists(label, min_size=0, max_size=130),
        st.lists(_ascii_label(LDH, 1, 1), min_size=120, max_size=127),       # 127 one-octet labels = 255 octets
        st.lists(_ascii_label(LDH, 63, 63), min_size=3, max_size=3).flatmap(  # 3 x 64 + 62 + 1 = 255 octets
            lambda big: _ascii_label(LDH, 61, 61).map(lambda last: big + [last])),
    ).map(fit)


def name_models():
    return _labels().map(lambda labels: {'kind': 'name', 'labels': labels})


def _spread(bits):
    """Unsigned integers spread over the whole width (st.integers alone concentrates on small magnitudes)."""
    return st.lists(st.integers(0, 255), min_size=(bits + 7) // 8, max_size=(bits + 7) // 8).map(
        lambda octets: int.from_bytes(bytes(octets), 'big') & (2 ** bits - 1))


def _u(bits):
    top = 2 ** bits - 1
    return st.one_of(st.sampled_from([0, 1, top - 1, top, top // 2, top // 2 + 1]), st.integers(0, top), _spread(bits))


def mx_models():
    return st.builds(lambda preference, labels: {'kind': 'mx', 'preference': preference, 'exchange': labels},
                     _u(16), _labels())


def ds_models(algorithm_codes, digest_codes):
    return st.sampled_from(digest_codes).flatmap(lambda digest_type: st.builds(
        lambda key_tag, algorithm, digest: {
            'kind': 'ds', 'key_tag': key_tag, 'algorithm': algorithm, 'digest_type': digest_type,
            'digest': digest.hex()},
        _u(16), st.sampled_from(algorithm_codes),
        st.binary(min_size=ref.DS_DIGEST_OCTETS[digest_type], max_size=ref.DS_DIGEST_OCTETS[digest_type])))


def _times():
    return st.one_of(st.sampled_from(TIME_BOUNDARIES), st.integers(0, 2 ** 32 - 1), _spread(32), _spread(32),
                     st.integers(1_000_000_000, 2_000_000_000))


def rrsig_models(algorithm_codes, type_codes):
    type_covered = st.one_of(
        st.sampled_from(type_codes), st.sampled_from(type_codes),
        st.sampled_from([0xff00, 0xff01, 0xfffd, 0xfffe]), st.integers(0xff00, 0xfffe))
    signature = st.one_of(
        st.sampled_from([40, 41, 64, 96, 114, 128, 256, 512]).flatmap(lambda n: st.binary(min_size=n, max_size=n)),
        st.binary(min_size=32, max_size=600))
    return st.builds(
        lambda type_code, algorithm, labels, ttl, expiration, inception, key_tag, signer, sig: {
            'kind': 'rrsig', 'type_covered': type_code, 'algorithm': algorithm, 'labels': labels,
            'original_ttl': ttl, 'expiration': expiration, 'inception': inception, 'key_tag': key_tag,
            'signer': signer, 'signature': sig.hex()},
        type_covered, st.sampled_from(algorithm_codes), _u(8), _u(32), _times(), _times(), _u(16), _labels(),
        signature)


def txt_models():
    seven_bit = ''.join(chr(c) for c in range(0x00, 0x80))
    printable = ''.join(chr(c) for c in range(0x20, 0x7f))
    piece = st.one_of(
        st.text(alphabet=printable, min_size=0, max_size=40),
        st.text(alphabet=printable, min_size=0, max_size=255),
        st.text(alphabet=seven_bit, min_size=0, max_size=64),
        st.sampled_from([0, 1, 127, 128, 254, 255]).flatmap(
            lambda n: st.text(alphabet='abcdefghijklmnopqrstuvwxyz =;', min_size=n, max_size=n)),
    )
    return st.one_of(
        st.lists(piece, min_size=1, max_size=1),
        st.lists(piece, min_size=1, max_size=6),
        st.lists(st.text(alphabet=printable, min_size=255, max_size=255), min_size=1, max_size=3).flatmap(
            lambda full: piece.map(lambda tail: full + [tail])),           # the way long values are split in practice
    ).map(lambda strings: {'kind': 'txt', 'strings': strings})


def _tables():
    L = lib()
    algorithm_codes = sorted(L.algorithm_by_code)
    digest_codes = sorted(code for code in L.digest_by_code if code in ref.DS_DIGEST_OCTETS)
    type_codes = sorted(code for code in L.rrtype_by_code if not 0xff00 <= code <= 0xffff)
    return algorithm_codes, digest_codes, type_codes


def strategy_for(kind):
    algorithm_codes, digest_codes, type_codes = _tables()
    return {
        'dnskey': dnskey_models,
        'ds': lambda: ds_models(algorithm_codes, digest_codes),
        'rrsig': lambda: rrsig_models(algorithm_codes, type_codes),
        'mx': mx_models,
        'txt': txt_models,
        'name': name_models,
    }[kind]()


# --------------------------------------------------------------------------------------------------------------------
# bookkeeping per case

_FIXED = {'dnskey': 4, 'ds': 4, 'rrsig': 19, 'mx': 3, 'txt': 1, 'name': 1}
_CLASS = {'dnskey': 'DnsRecordDnskey', 'ds': 'DnsRecordDs', 'rrsig': 'DnsRecordRrsig', 'mx': 'DnsRecordMx',
          'txt': 'DnsRecordTxt', 'name': 'DnsNameUncompressed'}


def _reference_rdata(case):
    kind = case['kind']
    if kind == 'dnskey':
        return ref.encode_dnskey(case['flags'], 3, case['algorithm'], _key_model(case['algorithm'], case['key']))
    if kind == 'ds':
        return ref.encode_ds(case['key_tag'], case['algorithm'], case['digest_type'], bytes.fromhex(case['digest']))
    if kind == 'rrsig':
        return ref.encode_rrsig(
            case['type_covered'], case['algorithm'], case['labels'], case['original_ttl'], case['expiration'],
            case['inception'], case['key_tag'], [_label_wire(label) for label in case['signer']],
            bytes.fromhex(case['signature']))
    if kind == 'mx':
        return ref.encode_mx(case['preference'], [_label_wire(label) for label in case['exchange']])
    if kind == 'txt':
        return ref.encode_txt([item.encode('ascii') for item in case['strings']])
    return ref.encode_name([_label_wire(label) for label in case['labels']])


def _name_labels(stats, labels, prefix):
    stats.cls('DnsNameUncompressed')
    stats.label('%s:labels=%s' % (prefix, '0' if not labels else '1' if len(labels) == 1 else
                                  '2-5' if len(labels) <= 5 else '6-40' if len(labels) <= 40 else '41+'))
    octets = 1 + sum(1 + len(label[0]) for label in labels)
    if octets >= 250:
        stats.label('%s:octets>=250' % prefix)
    if any(len(label[0]) == 63 for label in labels):
        stats.label('%s:label=63' % prefix)
    if any(label[0] != label[1] for label in labels):
        stats.label('%s:idna' % prefix)
    if any(set(label[0]) - set(HOST) for label in labels):
        stats.label('%s:non-hostname-ascii' % prefix)


def _describe(case, stats, rdata):
    kind = case['kind']
    stats.label(kind)
    stats.cls(_CLASS[kind])
    if kind == 'dnskey':
        algorithm = case['algorithm']
        name = ALG_NAMES[algorithm]
        stats.label('dnskey:alg=%s' % name)
        stats.label('dnskey:rdata-%s' % ('odd' if len(rdata) % 2 else 'even'))
        stats.label('dnskey:flags=0x%04x' % case['flags'])
        stats.add('dnskey_alg_x_flags:%s/0x%04x' % (name, case['flags']))
        fmt = ref.KEY_FORMAT[algorithm]
        if fmt == 'rsa':
            e_len, n_len = (len(case['key']['e']) + 1) // 2, (len(case['key']['n']) + 1) // 2
            stats.label('rsa:exponent-length-form=%s' % ('3-octet' if e_len > 255 else '1-octet'))
            stats.label('rsa:exponent-octets=%s' % (e_len if e_len <= 4 else '5-254' if e_len < 255 else
                                                    e_len if e_len <= 257 else '258+'))
            stats.label('rsa:modulus-octets=%s' % (n_len if n_len <= 3 else '4-63' if n_len < 64 else
                                                   '64-128' if n_len <= 128 else '129-256' if n_len <= 256 else
                                                   '257-512'))
            modulus = _i(case['key']['n'])
            if modulus & (modulus - 1) == 0 or (modulus - 1) & (modulus - 2) == 0 and modulus > 2:
                stats.label('rsa:modulus=256^k(+1)')
        elif fmt == 'dsa':
            stats.label('dsa:T=%d' % case['key']['t'])
        elif fmt in ('ecdsa', 'gost'):
            size = (ref.CURVES[algorithm]['p'].bit_length() + 7) // 8
            x_short = len(case['key']['x']) <= 2 * (size - 1)
            y_short = len(case['key']['y']) <= 2 * (size - 1)
            stats.label('point:%s' % ('x,y-leading-zero' if x_short and y_short else 'x-leading-zero' if x_short else
                                      'y-leading-zero' if y_short else 'full-width'))
    elif kind == 'ds':
        stats.label('ds:digest-type=%d' % case['digest_type'])
        stats.add('ds_alg_x_digest:%d/%d' % (case['algorithm'], case['digest_type']))
    elif kind == 'rrsig':
        private = 0xff00 <= case['type_covered'] <= 0xfffe
        stats.label('rrsig:type=%s' % ('private' if private else 'registered'))
        if private:
            stats.cls('DnsRrTypePrivate')
        for field in ('expiration', 'inception'):
            if case[field] in TIME_BOUNDARIES:
                stats.label('rrsig:%s=%d' % (field, case[field]))
            elif case[field] >= 2 ** 31:
                stats.label('rrsig:%s>=2^31' % field)
        _name_labels(stats, case['signer'], 'rrsig-signer')
    elif kind == 'mx':
        _name_labels(stats, case['exchange'], 'mx-exchange')
    elif kind == 'name':
        _name_labels(stats, case['labels'], 'name')
    elif kind == 'txt':
        total = sum(len(item) for item in case['strings'])
        stats.label('txt:strings=%s' % (len(case['strings']) if len(case['strings']) <= 2 else '3+'))
        stats.label('txt:total%s255' % ('>' if total > 255 else '<='))
        if any(len(item) == 255 for item in case['strings']):
            stats.label('txt:string=255')
        if any(len(item) == 0 for item in case['strings']):
            stats.label('txt:empty-string')


def _render(case):
    out = {}
    for name, value in case.items():
        out[name] = _brief(value, 96)
    return out


def _case_fn(origin):
    def case_fn(case, stats):
        stats.evaluated()
        rdata = _reference_rdata(case)
        _describe(case, stats, rdata)
        if len(rdata) > _FIXED[case['kind']]:
            stats.nontriv(case['kind'].encode() + b':' + rdata)
        label = case['kind'] if case['kind'] != 'dnskey' else 'dnskey:' + ALG_NAMES[case['algorithm']]
        stats.sample(label, _render(case))
        findings = check_case(case)
        for finding in findings:
            finding.detail = dict(finding.detail, origin=origin)
        return findings
    return case_fn


# --------------------------------------------------------------------------------------------------------------------
# drivers

QUICK_PER_SHARD = (('dnskey', 900), ('rrsig', 350), ('txt', 200), ('ds', 150), ('mx', 150), ('name', 150))
SHARDS = 16
THOROUGH_FACTOR = 15


def _shard(arg):
    index, seeds, counts = arg
    stats = Stats()
    for kind, count in counts:
        hyp.explore(strategy_for(kind), _case_fn([kind, index]), stats, count, seeds[kind])
    return stats


def _grid_cases(rng):
    """Deterministic boundary grid (a pure function of the seed)."""
    algorithm_codes, digest_codes, type_codes = _tables()
    cases = []

    def rsa(e_size, n_size, n_value=None):
        low = 256 ** (e_size - 1) if e_size > 1 else 1
        exponent = rng.randrange(low, 256 ** e_size)
        modulus = n_value if n_value is not None else rng.randrange(256 ** n_size // 2, 256 ** n_size) | 1
        return {'e': _h(exponent), 'n': _h(modulus)}

    def some_key(algorithm):
        fmt = ref.KEY_FORMAT[algorithm]
        if fmt == 'rsa':
            return rsa(3, 128)
        if fmt == 'dsa':
            t = rng.randrange(9)
            size = 64 + 8 * t
            p = rng.randrange(256 ** size // 2, 256 ** size) | 1
            return {'t': t, 'q': _h(rng.randrange(2 ** 159, 2 ** 160) | 1), 'p': _h(p),
                    'g': _h(rng.randrange(2, p)), 'y': _h(rng.randrange(1, p))}
        if fmt in ('ecdsa', 'gost'):
            x, y = make_point(algorithm, 'random', rng.randrange(2 ** 32))
            return {'x': _h(x), 'y': _h(y)}
        size = ref.EDDSA_KEY_OCTETS[algorithm]
        raw = bytes(rng.randrange(256) for _ in range(size))
        if size == 57:
            raw = raw[:56] + bytes([rng.choice((0, 0x80))])
        return {'raw': raw.hex()}

    for algorithm in DNSKEY_ALGORITHMS:
        for flags in range(8):
            bits = sum(bit for i, bit in enumerate(FLAG_BITS) if flags >> i & 1)
            cases.append({'kind': 'dnskey', 'flags': bits, 'algorithm': algorithm, 'key': some_key(algorithm)})
    for algorithm in (1, 5, 7, 8, 10):
        for e_size in (1, 2, 3, 4, 255, 256, 257, 512):
            for n_size in (1, 2, 3, 63, 64, 65, 127, 128, 129, 255, 256, 257, 511, 512):
                cases.append({'kind': 'dnskey', 'flags': ref.FLAG_ZONE_KEY, 'algorithm': algorithm,
                              'key': rsa(e_size, n_size)})
        for n_size in (1, 2, 3, 64, 128, 256, 511):
            for value in (256 ** n_size, 256 ** n_size + 1, 256 ** n_size - 1, 256 ** n_size // 2):
                if value >= 1 and value.bit_length() <= 4096:
                    cases.append({'kind': 'dnskey', 'flags': ref.FLAG_ZONE_KEY | ref.FLAG_SEP, 'algorithm': algorithm,
                                  'key': rsa(3, None, value)})
    for algorithm in (3, 6):
        for t in range(9):
            size = 64 + 8 * t
            p = rng.randrange(256 ** size // 2, 256 ** size) | 1
            cases.append({'kind': 'dnskey', 'flags': ref.FLAG_ZONE_KEY, 'algorithm': algorithm, 'key': {
                't': t, 'q': _h(rng.randrange(2 ** 159, 2 ** 160) | 1), 'p': _h(p), 'g': _h(rng.randrange(2, 1000)),
                'y': _h(rng.randrange(1, p))}})
    for algorithm in (12, 13, 14):
        for point_class in sorted(set(POINT_CLASSES)):
            for _ in range(3):
                x, y = make_point(algorithm, point_class, rng.randrange(2 ** 32))
                cases.append({'kind': 'dnskey', 'flags': ref.FLAG_ZONE_KEY, 'algorithm': algorithm,
                              'key': {'x': _h(x), 'y': _h(y)}})
    for algorithm in algorithm_codes:
        for digest_type in digest_codes:
            size = ref.DS_DIGEST_OCTETS[digest_type]
            cases.append({'kind': 'ds', 'key_tag': rng.randrange(65536), 'algorithm': algorithm,
                          'digest_type': digest_type, 'digest': bytes(rng.randrange(256) for _ in range(size)).hex()})
    for expiration in TIME_BOUNDARIES:
        for inception in TIME_BOUNDARIES:
            for type_code in (rng.choice(type_codes), rng.choice((0xff00, 0xfffe, rng.randrange(0xff00, 0xffff)))):
                cases.append({
                    'kind': 'rrsig', 'type_covered': type_code, 'algorithm': rng.choice(algorithm_codes),
                    'labels': rng.randrange(256), 'original_ttl': rng.randrange(2 ** 32), 'expiration': expiration,
                    'inception': inception, 'key_tag': rng.randrange(65536),
                    'signer': [['example', 'example'], ['com', 'com']],
                    'signature': bytes(rng.randrange(256) for _ in range(64)).hex()})
    for type_code in type_codes:
        cases.append({
            'kind': 'rrsig', 'type_covered': type_code, 'algorithm': 8, 'labels': 2, 'original_ttl': 3600,
            'expiration': 1700000000 + type_code, 'inception': 1690000000, 'key_tag': type_code,
            'signer': [['example', 'example']], 'signature': bytes(rng.randrange(256) for _ in range(64)).hex()})
    return cases


def _grid_shard(arg):
    seed_value, part, parts = arg
    stats = Stats()
    cases = _grid_cases(random.Random(seed_value))
    case_fn = _case_fn(['grid', 0])
    for case in cases[part::parts]:
        for finding in case_fn(case, stats):
            stats.finding(finding, case)
    stats.add('grid_cases', len(cases[part::parts]))
    return stats


def run(ctx):
    factor = 1 if ctx.quick else THOROUGH_FACTOR
    stats = Stats()
    grid_seed = ctx.derive_seed('grid')
    stats.merge(pool.run_shards(_grid_shard, [(grid_seed, part, SHARDS) for part in range(SHARDS)]))
    counts = tuple((kind, count * factor) for kind, count in QUICK_PER_SHARD)
    jobs = [(index, {kind: ctx.derive_seed(kind, index) for kind, _ in counts}, counts) for index in range(SHARDS)]
    stats.merge(pool.run_shards(_shard, jobs))
    combos = sorted(name for name in stats.extra if name.startswith('dnskey_alg_x_flags:'))
    stats.extra['dnskey_algorithm_x_flag_subsets_covered'] = '%d of %d' % (len(combos), 8 * len(DNSKEY_ALGORITHMS))
    for name in combos + sorted(name for name in stats.extra if name.startswith('ds_alg_x_digest:')):
        del stats.extra[name]
    stats.extra['per_shard_examples'] = {kind: count for kind, count in counts}
    return stats


def shrink(ctx, key, entry):
    origin = (entry.get('detail') or {}).get('origin')
    if not origin or origin[0] == 'grid':
        return None
    kind, index = origin
    factor = 1 if ctx.quick else THOROUGH_FACTOR
    count = dict(QUICK_PER_SHARD)[kind] * factor
    case, detail = hyp.shrink(strategy_for(kind), _case_fn(origin), key, count, ctx.derive_seed(kind, index), box_s=6.0)
    if case is None:
        return None
    return case, detail
