# -*- coding: utf-8 -*-
"""C06 — SSL/TLS messages are laid out exactly as the RFCs specify.

Hypothesis strategies generate *models* (plain JSON data, see vf/ref/tls.py).  For every model

  (1) the library object built from it composes to exactly the bytes of the independent reference encoder;
  (2) the library parses the reference encoding back to exactly the model (directly, through the variant
      parsers, through the extension vectors and through TlsRecord + TlsSubprotocolMessageParser).

The adapters model -> library object and library object -> model live here; the reference never sees
cryptoparser.
"""
import datetime
import random as _random

from hypothesis import strategies as st

from vf.core import hyp, pool
from vf.core.lib import library_exceptions_are_findings as _guard
from vf.core.stats import Finding, Stats
from vf.ref import tls as R

ID = 'C06'
LEVEL = 'exploration'
RULE = ('Hypothesis generates models of TLS records, SSL 2.0 records (2- and 3-byte header), alerts, '
        'change-cipher-spec, application data, client/server hello, certificate, certificate status, server key '
        'exchange, certificate request (with/without signature algorithms), server hello done, SSL 2.0 client '
        'hello / server hello / error and of every client- and server-side extension class, stand-alone and '
        'inside hellos; code points are drawn from every member of the enum tables plus unknown and GREASE '
        'values where the container has a fallback class; SCSVs are inserted at arbitrary positions of the '
        'suite list. A deterministic enumeration visits every member of every table in every container, '
        'session ids of 0..32 bytes, and a boundary set touches vector floors and ceilings (2^8-1, 2^16-1, '
        'uint24 lengths up to 2^24-1). A case is non-trivial when its model holds >=1 extension, or a list '
        'with >=2 items, or a non-empty opaque field; distinct cases are counted by their reference encoding.')
ASSUMPTIONS = [
    'vf/ref/tls.py is the oracle: an encoder/decoder written from the RFC text with its own vector bounds; '
    'every case first checks decode(encode(model)) == model inside the reference (a mismatch is a harness error)',
    'code-point tables of cryptodatahub (cipher suites, groups, ...) are an input of the library: the model '
    'carries integers and the adapter looks members up by code; the small enumerations defined inside '
    'cryptoparser (alert descriptions, content types, client certificate types, SSL 2.0 error codes, ...) are '
    'carried by specification name, so a wrong code there is detected',
    'the specifications prescribe no position for the SCSVs: compose is expected to append FALLBACK then '
    'EMPTY_RENEGOTIATION_INFO (the library\'s documented placement), parse must fold them from any position',
    'an empty extension list and an absent extension block are the same value for the library object; compose '
    'may emit either form',
    'SSL 2.0: compose is only compared with the two-byte record header (the form the property names); the '
    'three-byte header with padding is checked in the parse direction; the version field of the SSL 2.0 '
    'hellos is fixed to 0x0002 because the library classes do not carry it',
    'host names are ASCII LDH names and A-labels of lower-case letters; text <-> A-label conversion of the '
    'adapter uses the stdlib punycode codec',
    'TlsHandshakeHelloRetryRequest (handshake type 6) has no published layout and is not judged',
    'models with a feature at an RFC floor that the library constructor refuses (suite list holding only SCSVs, '
    'empty certificate_list, empty NPN list) are judged in the parse direction only',
]

EPOCH_NAIVE = datetime.datetime(1970, 1, 1)
EPOCH_AWARE = datetime.datetime(1970, 1, 1, tzinfo=datetime.timezone.utc)
SCSVS = (R.SCSV_RENEGOTIATION, R.SCSV_FALLBACK)
HRR_RANDOM = 'cf21ad74e59a6111be1d8c021e65b891c2a211167abb8c5e079e09e2c8a8339c'     # RFC 8446 4.1.3
MAX_RECORD_FRAGMENT = 2 ** 14


class HarnessError(Exception):
    pass


# ---------------------------------------------------------------------------------------------------------
# the library, looked up lazily (VERIF_REPO decides where it comes from)
# ---------------------------------------------------------------------------------------------------------

class _Lib(object):  # pylint: disable=too-few-public-methods,too-many-instance-attributes
    def __init__(self):
        # pylint: disable=import-outside-toplevel
        from cryptodatahub.tls import algorithm as A
        from cryptodatahub.tls.version import TlsVersion
        from cryptoparser.common import x509
        from cryptoparser.tls import extension as E, grease as G, record as Rec, subprotocol as S, version as V
        self.A, self.E, self.G, self.Rec, self.S, self.V, self.x509 = A, E, G, Rec, S, V, x509
        self.TlsVersion = TlsVersion

        def by_code(enum_class):
            return dict((member.value.code, member) for member in enum_class)
        self.suite = by_code(A.TlsCipherSuite)
        self.group = by_code(A.TlsNamedCurve)
        self.sigalg = by_code(A.TlsSignatureAndHashAlgorithm)
        self.point_format = by_code(A.TlsECPointFormat)
        self.psk_mode = by_code(A.TlsPskKeyExchangeMode)
        self.compress_alg = by_code(A.TlsCertificateCompressionAlgorithm)
        self.tb_param = by_code(A.TlsTokenBindingParamater)
        self.compression = by_code(A.TlsCompressionMethod)
        self.version = by_code(TlsVersion)
        self.ext_type = by_code(A.TlsExtensionType)
        self.ssl2_kind = by_code(A.SslCipherKind)
        self.alpn = dict((member.value.code.encode('ascii'), member) for member in A.TlsProtocolName)
        self.npn = dict((member.value.code.encode('ascii'), member) for member in A.TlsNextProtocolName)
        try:
            from cryptodatahub.common.stores import CertificateTransparencyLog
            self.ct_logs = sorted(bytes(log.value.log_id.value).hex() for log in CertificateTransparencyLog)
        except Exception:  # pylint: disable=broad-except
            self.ct_logs = []


_LIB = []


def lib():
    if not _LIB:
        _LIB.append(_Lib())
    return _LIB[0]


# (extension name, side) -> library class name
EXT_CLASS = {
    ('server_name', 'client'): 'TlsExtensionServerNameClient',
    ('server_name', 'server'): 'TlsExtensionServerNameServer',
    ('ec_point_formats', 'client'): 'TlsExtensionECPointFormats',
    ('ec_point_formats', 'server'): 'TlsExtensionECPointFormats',
    ('supported_groups', 'client'): 'TlsExtensionEllipticCurves',
    ('supported_versions', 'client'): 'TlsExtensionSupportedVersionsClient',
    ('supported_versions', 'server'): 'TlsExtensionSupportedVersionsServer',
    ('signature_algorithms', 'client'): 'TlsExtensionSignatureAlgorithms',
    ('signature_algorithms_cert', 'client'): 'TlsExtensionSignatureAlgorithmsCert',
    ('delegated_credentials', 'client'): 'TlsExtensionDelegatedCredentials',
    ('key_share', 'client'): 'TlsExtensionKeyShareClient',
    ('key_share', 'server'): None,          # TlsExtensionKeyShareServer / TlsExtensionKeyShareClientHelloRetry
    ('key_share_reserved', 'client'): 'TlsExtensionKeyShareReservedClient',
    ('status_request', 'client'): 'TlsExtensionCertificateStatusRequestClient',
    ('status_request', 'server'): 'TlsExtensionCertificateStatusRequestServer',
    ('renegotiation_info', 'client'): 'TlsExtensionRenegotiationInfo',
    ('renegotiation_info', 'server'): 'TlsExtensionRenegotiationInfo',
    ('session_ticket', 'client'): 'TlsExtensionSessionTicket',
    ('session_ticket', 'server'): 'TlsExtensionSessionTicket',
    ('application_layer_protocol_negotiation', 'client'): 'TlsExtensionApplicationLayerProtocolNegotiation',
    ('application_layer_protocol_negotiation', 'server'): 'TlsExtensionApplicationLayerProtocolNegotiation',
    ('application_layer_protocol_settings', 'client'): 'TlsExtensionApplicationLayerProtocolSettings',
    ('next_protocol_negotiation', 'client'): 'TlsExtensionNextProtocolNegotiationClient',
    ('next_protocol_negotiation', 'server'): 'TlsExtensionNextProtocolNegotiationServer',
    ('channel_id', 'client'): 'TlsExtensionChannelId',
    ('channel_id', 'server'): 'TlsExtensionChannelId',
    ('encrypt_then_mac', 'client'): 'TlsExtensionEncryptThenMAC',
    ('encrypt_then_mac', 'server'): 'TlsExtensionEncryptThenMAC',
    ('extended_master_secret', 'client'): 'TlsExtensionExtendedMasterSecret',
    ('extended_master_secret', 'server'): 'TlsExtensionExtendedMasterSecret',
    ('short_record_header', 'client'): 'TlsExtensionShortRecordHeader',
    ('token_binding', 'client'): 'TlsExtensionTokenBinding',
    ('psk_key_exchange_modes', 'client'): 'TlsExtensionPskKeyExchangeModes',
    ('record_size_limit', 'client'): 'TlsExtensionRecordSizeLimit',
    ('record_size_limit', 'server'): 'TlsExtensionRecordSizeLimit',
    ('signed_certificate_timestamp', 'client'): 'TlsExtensionSignedCertificateTimestampClient',
    ('signed_certificate_timestamp', 'server'): 'TlsExtensionSignedCertificateTimestampServer',
    ('compress_certificate', 'client'): 'TlsExtensionCompressCertificate',
    ('padding', 'client'): 'TlsExtensionPadding',
}
SUPPORTED = dict((side, sorted(name for name, s in EXT_CLASS if s == side)) for side in ('client', 'server'))
EMPTY_EXTENSIONS = ('server_name/server', 'status_request/server', 'next_protocol_negotiation/client',
                    'channel_id/client', 'channel_id/server', 'encrypt_then_mac/client', 'encrypt_then_mac/server',
                    'extended_master_secret/client', 'extended_master_secret/server', 'short_record_header/client',
                    'signed_certificate_timestamp/client')

MESSAGE_CLASS = {
    'tls_record': 'TlsRecord', 'ssl2_record': 'SslRecord', 'alert': 'TlsAlertMessage',
    'change_cipher_spec': 'TlsChangeCipherSpecMessage', 'application_data': 'TlsApplicationDataMessage',
    'client_hello': 'TlsHandshakeClientHello', 'server_hello': 'TlsHandshakeServerHello',
    'certificate': 'TlsHandshakeCertificate', 'certificate_status': 'TlsHandshakeCertificateStatus',
    'server_key_exchange': 'TlsHandshakeServerKeyExchange', 'certificate_request': 'TlsHandshakeCertificateRequest',
    'server_hello_done': 'TlsHandshakeServerHelloDone', 'ssl2_client_hello': 'SslHandshakeClientHello',
    'ssl2_server_hello': 'SslHandshakeServerHello', 'ssl2_error': 'SslErrorMessage',
}
CONTENT_TYPE_OF = {'alert': 'alert', 'change_cipher_spec': 'change_cipher_spec',
                   'application_data': 'application_data'}
for _kind in R.HANDSHAKE_KINDS:
    CONTENT_TYPE_OF[_kind] = 'handshake'


def ext_class_name(ext, side):
    if ext['ext'] == 'opaque':
        return 'TlsExtensionUnparsed'
    if ext['ext'] == 'key_share' and side == 'server':
        return 'TlsExtensionKeyShareClientHelloRetry' if 'selected_group' in ext else 'TlsExtensionKeyShareServer'
    return EXT_CLASS[ext['ext'], side]


# ---------------------------------------------------------------------------------------------------------
# host names: wire bytes (ASCII / A-labels) <-> the text the library API uses
# ---------------------------------------------------------------------------------------------------------

def host_text(wire):
    labels = []
    for label in wire.split(b'.'):
        if label[:4].lower() == b'xn--':
            labels.append(label[4:].decode('punycode'))
        else:
            labels.append(label.decode('ascii'))
    return '.'.join(labels)


def host_wire(text):
    labels = []
    for label in text.split('.'):
        try:
            labels.append(label.encode('ascii'))
        except UnicodeEncodeError:
            labels.append(b'xn--' + label.encode('punycode'))
    return b'.'.join(labels)


# ---------------------------------------------------------------------------------------------------------
# model -> library object
# ---------------------------------------------------------------------------------------------------------

def _fromhex(value):
    return R._b(value)  # pylint: disable=protected-access


def _member(table, code, what):
    try:
        return table[code]
    except KeyError:
        raise HarnessError('generator produced %s code %r for a container without fallback' % (what, code))


def _two(table, code):
    return table[code] if code in table else lib().G.TlsInvalidTypeTwoByte(code)


def _one(table, code):
    return table[code] if code in table else lib().G.TlsInvalidTypeOneByte(code)


def _version_obj(code):
    return lib().V.TlsProtocolVersion(_member(lib().version, code, 'version'))


def _build_share(share):
    L = lib()
    if share['group'] in L.group:
        return L.E.TlsKeyShareEntry(L.group[share['group']], _fromhex(share['key_exchange']))
    return L.E.TlsKeyShareEntryInvalidType(L.G.TlsInvalidTypeTwoByte(share['group']), bytearray(_fromhex(share['key_exchange'])))


def _build_sct(sct):
    L = lib()
    seconds, millis = divmod(sct['timestamp'], 1000)
    stamp = EPOCH_AWARE + datetime.timedelta(seconds=seconds, milliseconds=millis)
    return L.x509.SignedCertificateTimestamp(
        version=L.x509.CtVersion[sct['version'].upper()], log=_fromhex(sct['log_id']), timestamp=stamp,
        extensions=L.x509.CtExtensions(_fromhex(sct['extensions'])),
        signature_algorithm=_member(L.sigalg, sct['algorithm'], 'signature algorithm'),
        signature=_fromhex(sct['signature']))


def build_extension(ext, side):  # pylint: disable=too-many-return-statements,too-many-branches
    L = lib()
    E = L.E
    name = ext['ext']
    if name == 'opaque':
        return E.TlsExtensionUnparsed(L.G.TlsInvalidTypeTwoByte(ext['type']), bytearray(_fromhex(ext['data'])))
    cls = getattr(E, ext_class_name(ext, side))
    if '%s/%s' % (name, side) in EMPTY_EXTENSIONS:
        return cls()
    if name == 'server_name':
        return cls(host_text(_fromhex(ext['host_name'])), E.TlsServerNameType[ext['name_type'].upper()])
    if name == 'ec_point_formats':
        return cls([_one(L.point_format, code) for code in ext['formats']])
    if name == 'supported_groups':
        return cls([_two(L.group, code) for code in ext['groups']])
    if name == 'supported_versions':
        if side == 'server':
            return cls(_version_obj(ext['selected']))
        return cls([L.V.TlsProtocolVersion(L.version[code]) if code in L.version else L.G.TlsInvalidTypeTwoByte(code)
                    for code in ext['versions']])
    if name in ('signature_algorithms', 'signature_algorithms_cert', 'delegated_credentials'):
        return cls([_two(L.sigalg, code) for code in ext['algorithms']])
    if name in ('key_share', 'key_share_reserved'):
        if side == 'client':
            return cls([_build_share(share) for share in ext['shares']])
        if 'selected_group' in ext:
            return cls(_member(L.group, ext['selected_group'], 'group'))
        share = ext['share']
        return cls(E.TlsKeyShareEntry(_member(L.group, share['group'], 'group'), _fromhex(share['key_exchange'])))
    if name == 'status_request':
        return cls([E.TlsCertificateStatusRequestResponderId(_fromhex(rid)) for rid in ext['responder_ids']],
                   _fromhex(ext['request_extensions']))
    if name == 'renegotiation_info':
        return cls(E.TlsRenegotiatedConnection(_fromhex(ext['renegotiated_connection'])))
    if name == 'session_ticket':
        return cls(bytearray(_fromhex(ext['ticket'])))
    if name in ('application_layer_protocol_negotiation', 'application_layer_protocol_settings'):
        return cls([_member(L.alpn, _fromhex(p), 'ALPN name') for p in ext['protocols']])
    if name == 'next_protocol_negotiation':
        return cls([_member(L.npn, _fromhex(p), 'NPN name') for p in ext['protocols']])
    if name == 'token_binding':
        return cls(E.TlsTokenBindingProtocolVersion(ext['major'], ext['minor']),
                   [_one(L.tb_param, code) for code in ext['parameters']])
    if name == 'psk_key_exchange_modes':
        return cls([_one(L.psk_mode, code) for code in ext['modes']])
    if name == 'record_size_limit':
        return cls(ext['limit'])
    if name == 'signed_certificate_timestamp':
        return cls([_build_sct(sct) for sct in ext['scts']])
    if name == 'compress_certificate':
        return cls([_two(L.compress_alg, code) for code in ext['algorithms']])
    if name == 'padding':
        return cls(ext['length'])
    raise HarnessError('no builder for extension %r' % name)


def _build_random(hexed):
    L = lib()
    data = _fromhex(hexed)
    stamp = EPOCH_NAIVE + datetime.timedelta(seconds=int.from_bytes(data[:4], 'big'))
    return L.S.TlsHandshakeHelloRandom(stamp, L.S.TlsHandshakeHelloRandomBytes(bytearray(data[4:])))


def split_scsv(suites):
    plain = [code for code in suites if code not in SCSVS]
    return plain, R.SCSV_FALLBACK in suites, R.SCSV_RENEGOTIATION in suites


def build(model):  # pylint: disable=too-many-return-statements,too-many-branches
    """The library object that carries the field values of the model (public constructors only)."""
    L = lib()
    S = L.S
    kind = model['kind']
    if kind == 'extension':
        return build_extension(model, model['side'])
    if kind == 'tls_record':
        return L.Rec.TlsRecord(fragment=_fromhex(model['fragment']), protocol_version=_version_obj(model['version']),
                               content_type=S.TlsContentType[model['content_type'].upper()])
    if kind == 'ssl2_record':
        return L.Rec.SslRecord(build(model['message']))
    if kind == 'alert':
        return S.TlsAlertMessage(S.TlsAlertLevel[model['level'].upper()],
                                 S.TlsAlertDescription[model['description'].upper()])
    if kind == 'change_cipher_spec':
        return S.TlsChangeCipherSpecMessage(S.TlsChangeCipherSpecType[model['type'].upper()])
    if kind == 'application_data':
        return S.TlsApplicationDataMessage(bytearray(_fromhex(model['data'])))
    if kind == 'client_hello':
        plain, fallback, renegotiation = split_scsv(model['cipher_suites'])
        return S.TlsHandshakeClientHello(
            cipher_suites=[_two(L.suite, code) for code in plain],
            protocol_version=_version_obj(model['version']), random=_build_random(model['random']),
            session_id=S.TlsSessionIdVector(_fromhex(model['session_id'])),
            compression_methods=[_one(L.compression, code) for code in model['compression_methods']],
            extensions=[build_extension(ext, 'client') for ext in model['extensions'] or ()],
            fallback_scsv=fallback, empty_renegotiation_info_scsv=renegotiation)
    if kind == 'server_hello':
        return S.TlsHandshakeServerHello(
            protocol_version=_version_obj(model['version']), random=_build_random(model['random']),
            session_id=S.TlsSessionIdVector(_fromhex(model['session_id'])),
            compression_method=_member(L.compression, model['compression_method'], 'compression method'),
            cipher_suite=_member(L.suite, model['cipher_suite'], 'cipher suite'),
            extensions=[build_extension(ext, 'server') for ext in model['extensions'] or ()])
    if kind == 'certificate':
        return S.TlsHandshakeCertificate(S.TlsCertificates([S.TlsCertificate(_fromhex(c)) for c in model['certificates']]))
    if kind == 'certificate_status':
        return S.TlsHandshakeCertificateStatus(L.E.TlsCertificateStatusType[model['status_type'].upper()],
                                               bytearray(_fromhex(model['response'])))
    if kind == 'server_key_exchange':
        return S.TlsHandshakeServerKeyExchange(_fromhex(model['params']))
    if kind == 'certificate_request':
        algorithms = model['signature_algorithms']
        return S.TlsHandshakeCertificateRequest(
            certificate_types=[S.TlsClientCertificateType[name.upper()] for name in model['certificate_types']],
            certificate_authorities=[S.TlsDistinguishedName(_fromhex(name)) for name in model['certificate_authorities']],
            supported_signature_algorithms=None if algorithms is None else [_two(L.sigalg, c) for c in algorithms])
    if kind == 'server_hello_done':
        return S.TlsHandshakeServerHelloDone()
    if kind == 'ssl2_client_hello':
        return S.SslHandshakeClientHello(
            cipher_kinds=[_member(L.ssl2_kind, code, 'cipher kind') for code in model['cipher_specs']],
            session_id=_fromhex(model['session_id']), challenge=_fromhex(model['challenge']))
    if kind == 'ssl2_server_hello':
        return S.SslHandshakeServerHello(
            certificate=_fromhex(model['certificate']),
            cipher_kinds=[_member(L.ssl2_kind, code, 'cipher kind') for code in model['cipher_specs']],
            connection_id=_fromhex(model['connection_id']), session_id_hit=model['session_id_hit'])
    if kind == 'ssl2_error':
        return S.SslErrorMessage(S.SslErrorType[model['error'].upper() + '_ERROR'])
    raise HarnessError('no builder for kind %r' % kind)


# ---------------------------------------------------------------------------------------------------------
# library object -> model (reads the public attributes only, never compose())
# ---------------------------------------------------------------------------------------------------------

def _code(item):
    """Code point of an enum member, of a TlsInvalidType* fallback object or of a TlsProtocolVersion."""
    if hasattr(item, 'version') and hasattr(item, 'major'):
        return item.version.value.code
    return item.value.code


def _hexof(value):
    if isinstance(value, (bytes, bytearray)):
        return bytes(value).hex()
    return bytes(bytearray(int(item) for item in value)).hex()     # Vector / Opaque of ints


def _seconds(stamp):
    delta = stamp - (EPOCH_AWARE if stamp.tzinfo is not None else EPOCH_NAIVE)
    return delta.days * 86400 + delta.seconds, delta.microseconds


def _share_of(entry):
    if type(entry).__name__ == 'TlsKeyShareEntryInvalidType':
        return {'group': _code(entry.group), 'key_exchange': _hexof(entry.data)}
    return {'group': _code(entry.group), 'key_exchange': _hexof(entry.key_exchange)}


def _sct_of(sct):
    if sct.timestamp is None:
        timestamp = None
    else:
        seconds, micros = _seconds(sct.timestamp)
        timestamp = seconds * 1000 + micros // 1000
    return {'version': sct.version.name.lower(), 'log_id': _hexof(sct.log.log_id.value), 'timestamp': timestamp,
            'extensions': _hexof(sct.extensions), 'algorithm': _code(sct.signature_algorithm),
            'signature': _hexof(sct.signature)}


def extension_model_of(obj):  # pylint: disable=too-many-return-statements,too-many-branches
    name = type(obj).__name__
    if name == 'TlsExtensionUnparsed':
        return {'ext': 'opaque', 'type': _code(obj.extension_type), 'data': _hexof(obj.extension_data)}
    ext_name = R._EXTENSION_NAME.get(_code(obj.extension_type), '?%r' % (obj.extension_type,))  # pylint: disable=protected-access
    model = {'ext': ext_name}
    if name == 'TlsExtensionServerNameClient':
        model.update(name_type=obj.name_type.name.lower(), host_name=host_wire(obj.host_name).hex())
    elif name == 'TlsExtensionECPointFormats':
        model.update(formats=[_code(item) for item in obj.point_formats])
    elif name == 'TlsExtensionEllipticCurves':
        model.update(groups=[_code(item) for item in obj.elliptic_curves])
    elif name == 'TlsExtensionSupportedVersionsClient':
        model.update(versions=[_code(item) for item in obj.supported_versions])
    elif name == 'TlsExtensionSupportedVersionsServer':
        model.update(selected=_code(obj.selected_version))
    elif name in ('TlsExtensionSignatureAlgorithms', 'TlsExtensionSignatureAlgorithmsCert',
                  'TlsExtensionDelegatedCredentials'):
        model.update(algorithms=[_code(item) for item in obj.hash_and_signature_algorithms])
    elif name in ('TlsExtensionKeyShareClient', 'TlsExtensionKeyShareReservedClient'):
        model.update(shares=[_share_of(entry) for entry in obj.key_share_entries])
    elif name == 'TlsExtensionKeyShareServer':
        model.update(share=_share_of(obj.key_share_entry))
    elif name == 'TlsExtensionKeyShareClientHelloRetry':
        model.update(selected_group=_code(obj.selected_group))
    elif name == 'TlsExtensionCertificateStatusRequestClient':
        model.update(status_type='ocsp', responder_ids=[_hexof(rid) for rid in obj.responder_id_list],
                     request_extensions=_hexof(obj.request_extensions))
    elif name == 'TlsExtensionRenegotiationInfo':
        model.update(renegotiated_connection=_hexof(obj.renegotiated_connection))
    elif name == 'TlsExtensionSessionTicket':
        model.update(ticket=_hexof(obj.session_ticket))
    elif name in ('TlsExtensionApplicationLayerProtocolNegotiation', 'TlsExtensionApplicationLayerProtocolSettings',
                  'TlsExtensionNextProtocolNegotiationServer'):
        model.update(protocols=[item.value.code.encode('ascii').hex() for item in obj.protocol_names])
    elif name == 'TlsExtensionTokenBinding':
        model.update(major=obj.protocol_version.major, minor=obj.protocol_version.minor,
                     parameters=[_code(item) for item in obj.parameters])
    elif name == 'TlsExtensionPskKeyExchangeModes':
        model.update(modes=[_code(item) for item in obj.key_exchange_modes])
    elif name == 'TlsExtensionRecordSizeLimit':
        model.update(limit=obj.record_size_limit)
    elif name == 'TlsExtensionSignedCertificateTimestampServer':
        model.update(scts=[_sct_of(sct) for sct in obj.scts])
    elif name == 'TlsExtensionCompressCertificate':
        model.update(algorithms=[_code(item) for item in obj.compression_algorithms])
    elif name == 'TlsExtensionPadding':
        model.update(length=obj.length)
    elif name in ('TlsExtensionServerNameServer', 'TlsExtensionCertificateStatusRequestServer',
                  'TlsExtensionNextProtocolNegotiationClient', 'TlsExtensionChannelId', 'TlsExtensionEncryptThenMAC',
                  'TlsExtensionExtendedMasterSecret', 'TlsExtensionShortRecordHeader',
                  'TlsExtensionSignedCertificateTimestampClient'):
        pass
    else:
        model['unmodelled_class'] = name
    return model


def _random_of(rnd):
    seconds, _ = _seconds(rnd.time)
    if not 0 <= seconds < 1 << 32:
        return 'time=%r' % (rnd.time,)
    return seconds.to_bytes(4, 'big').hex() + _hexof(rnd.random)


def model_of(obj):  # pylint: disable=too-many-return-statements,too-many-branches
    name = type(obj).__name__
    if name.startswith('TlsExtension'):
        return extension_model_of(obj)
    if name == 'TlsRecord':
        return {'kind': 'tls_record', 'content_type': obj.content_type.name.lower(),
                'version': _code(obj.protocol_version), 'fragment': _hexof(obj.fragment)}
    if name == 'SslRecord':
        return {'kind': 'ssl2_record', 'message': model_of(obj.message)}
    if name == 'TlsAlertMessage':
        return {'kind': 'alert', 'level': obj.level.name.lower(), 'description': obj.description.name.lower()}
    if name == 'TlsChangeCipherSpecMessage':
        return {'kind': 'change_cipher_spec', 'type': obj._change_cipher_spec_type.name.lower()}  # pylint: disable=protected-access
    if name == 'TlsApplicationDataMessage':
        return {'kind': 'application_data', 'data': _hexof(obj.data)}
    if name == 'TlsHandshakeClientHello':
        return {'kind': 'client_hello', 'version': _code(obj.protocol_version), 'random': _random_of(obj.random),
                'session_id': _hexof(obj.session_id), 'cipher_suites': [_code(item) for item in obj.cipher_suites],
                'fallback_scsv': obj.fallback_scsv, 'renegotiation_scsv': obj.empty_renegotiation_info_scsv,
                'compression_methods': [_code(item) for item in obj.compression_methods],
                'extensions': [extension_model_of(ext) for ext in obj.extensions]}
    if name == 'TlsHandshakeServerHello':
        return {'kind': 'server_hello', 'version': _code(obj.protocol_version), 'random': _random_of(obj.random),
                'session_id': _hexof(obj.session_id), 'cipher_suite': _code(obj.cipher_suite),
                'compression_method': _code(obj.compression_method),
                'extensions': [extension_model_of(ext) for ext in obj.extensions]}
    if name == 'TlsHandshakeCertificate':
        return {'kind': 'certificate', 'certificates': [_hexof(cert.certificate) for cert in obj.certificate_chain]}
    if name == 'TlsHandshakeCertificateStatus':
        return {'kind': 'certificate_status', 'status_type': obj.status_type.name.lower(), 'response': _hexof(obj.status)}
    if name == 'TlsHandshakeServerKeyExchange':
        return {'kind': 'server_key_exchange', 'params': _hexof(obj.param_bytes)}
    if name == 'TlsHandshakeCertificateRequest':
        types = lib().S.TlsClientCertificateType
        algorithms = obj.supported_signature_algorithms
        return {'kind': 'certificate_request',
                'certificate_types': [types(item).name.lower() for item in obj.certificate_types],
                'signature_algorithms': None if algorithms is None else [_code(item) for item in algorithms],
                'certificate_authorities': [_hexof(item) for item in obj.certificate_authorities]}
    if name == 'TlsHandshakeServerHelloDone':
        return {'kind': 'server_hello_done'}
    if name == 'SslHandshakeClientHello':
        return {'kind': 'ssl2_client_hello', 'version': R.SSL2_VERSION,
                'cipher_specs': [_code(item) for item in obj.cipher_kinds],
                'session_id': _hexof(obj.session_id), 'challenge': _hexof(obj.challenge)}
    if name == 'SslHandshakeServerHello':
        return {'kind': 'ssl2_server_hello', 'session_id_hit': obj.session_id_hit, 'certificate_type': 'x509',
                'version': R.SSL2_VERSION, 'certificate': _hexof(obj.certificate),
                'cipher_specs': [_code(item) for item in obj.cipher_kinds], 'connection_id': _hexof(obj.connection_id)}
    if name == 'SslErrorMessage':
        text = obj.error_type.name.lower()
        return {'kind': 'ssl2_error', 'error': text[:-6] if text.endswith('_error') else text}
    return {'kind': 'unmodelled', 'class': name}


# ---------------------------------------------------------------------------------------------------------
# what the library object can hold of a model (SCSVs folded into flags, absent extension block == empty)
# ---------------------------------------------------------------------------------------------------------

def _ext_view(ext):
    return dict((key, value) for key, value in ext.items() if key not in ('kind', 'side'))


def parse_view(model):
    model = R.canon(model)
    kind = model['kind']
    if kind == 'extension':
        return _ext_view(model)
    view = dict(model)
    view.pop('record_version', None)
    if kind == 'client_hello':
        view['cipher_suites'], view['fallback_scsv'], view['renegotiation_scsv'] = split_scsv(model['cipher_suites'])
    if kind in ('client_hello', 'server_hello'):
        view['extensions'] = [_ext_view(ext) for ext in model['extensions'] or ()]
    if kind == 'ssl2_record':
        view = {'kind': kind, 'message': model['message']}
    return view


def compose_model(model):
    """The model whose reference encoding compose() is expected to produce."""
    model = dict(model)
    model.pop('record_version', None)
    if model['kind'] == 'client_hello':
        plain, fallback, renegotiation = split_scsv(model['cipher_suites'])
        model['cipher_suites'] = plain + ([R.SCSV_FALLBACK] if fallback else []) + \
            ([R.SCSV_RENEGOTIATION] if renegotiation else [])
    if model['kind'] in ('client_hello', 'server_hello') and not model['extensions']:
        model['extensions'] = None
    if model['kind'] == 'ssl2_record':
        model = {'kind': 'ssl2_record', 'header': 2, 'message': model['message']}
    return model


NAMED_FIELDS = ('description', 'level', 'content_type', 'error', 'status_type', 'name_type', 'certificate_type',
                'certificate_types', 'type')


def diff(expected, got, path=''):
    """First difference of two models: (field path without indices, expected, got) or None."""
    if isinstance(expected, dict) and isinstance(got, dict):
        for key in sorted(set(expected) | set(got)):
            if key not in expected or key not in got:
                return (path + '.' + key).lstrip('.'), expected.get(key, '<absent>'), got.get(key, '<absent>')
            found = diff(expected[key], got[key], path + '.' + key)
            if found:
                return found
        return None
    if isinstance(expected, list) and isinstance(got, list):
        if len(expected) != len(got):
            return path.lstrip('.') + '#', len(expected), len(got)
        for exp_item, got_item in zip(expected, got):
            found = diff(exp_item, got_item, path)
            if found:
                return found
        return None
    if type(expected) is not type(got) or expected != got:  # bool vs int matters
        return path.lstrip('.'), expected, got
    return None


def _short(value):
    text = repr(value)
    return text if len(text) <= 120 else text[:100] + '...(%d chars)' % len(text)


def hints(model):
    """Root-cause loci for model features that sit on an RFC floor / a named table row.  At most a handful of
    fixed strings; never derived from the library."""
    out = []
    kind = model['kind']

    def scan_extensions(extensions, side):
        for ext in extensions or ():
            if ext['ext'] == 'next_protocol_negotiation' and side == 'server' and not ext['protocols']:
                out.append('TlsExtensionNextProtocolNegotiationServer.protocol_names=empty')
            if ext['ext'] == 'signed_certificate_timestamp' and side == 'server':
                if any(R._b(sct['extensions']) for sct in ext['scts']):  # pylint: disable=protected-access
                    out.append('SignedCertificateTimestamp.extensions=non-empty')
                if any(sct['timestamp'] >= (1 << 32) * 1000 for sct in ext['scts']):
                    out.append('SignedCertificateTimestamp.timestamp>=2^32s')
    if kind == 'client_hello':
        if not split_scsv(model['cipher_suites'])[0]:
            out.append('TlsHandshakeClientHello.cipher_suites=scsv-only')
        scan_extensions(model['extensions'], 'client')
    elif kind == 'server_hello':
        scan_extensions(model['extensions'], 'server')
    elif kind == 'extension':
        scan_extensions([model], model['side'])
    elif kind == 'certificate' and not model['certificates']:
        out.append('TlsHandshakeCertificate.certificate_list=empty')
    elif kind == 'alert':
        out.append('TlsAlertMessage.description=%s' % model['description'])
    elif kind == 'ssl2_error':
        out.append('SslErrorMessage.error_type=%s' % model['error'])
    elif kind == 'ssl2_record':
        return hints(model['message'])
    return out


CONSTRUCTOR_MAY_REFUSE = ('TlsHandshakeClientHello.cipher_suites=scsv-only',
                          'TlsHandshakeCertificate.certificate_list=empty',
                          'TlsExtensionNextProtocolNegotiationServer.protocol_names=empty')


# ---------------------------------------------------------------------------------------------------------
# check_case
# ---------------------------------------------------------------------------------------------------------

def _locus(model, cls_name, via=None):
    found = hints(model)
    if found:
        return '+'.join(found)
    return cls_name if via is None else '%s@%s' % (cls_name, via)


def _field_label(found, model=None):
    """Field path of a difference; the expected member name is appended for the small named enumerations
    (a table row is a root cause), unless the locus already names it."""
    path, expected, _ = found
    if model and hints(model):
        return path.rsplit('.', 1)[-1]       # the hint is the locus; the same defect is seen at several depths
    if path.rsplit('.', 1)[-1] in NAMED_FIELDS and isinstance(expected, str):
        return '%s=%s' % (path, expected)
    return path


def _decode_context(model):
    kind = model['kind']
    if kind == 'extension':
        return {'side': model['side'], 'structured': SUPPORTED[model['side']]}
    if kind == 'client_hello':
        return {'structured': SUPPORTED['client']}
    if kind == 'server_hello':
        return {'structured': SUPPORTED['server']}
    if kind == 'certificate_request':
        return {'with_signature_algorithms': model['signature_algorithms'] is not None}
    return {}


def _strip(model):
    model = dict(model)
    model.pop('record_version', None)
    return model


def _call(fn):
    """Run a library call; its exceptions are outcomes.  Returns (value, exception)."""
    try:
        return fn(), None
    except HarnessError:
        raise
    except Exception as e:  # pylint: disable=broad-except
        return None, e


def _parse_paths(model, wire):
    """[(via label or None, callable returning the parsed object)] — the direct class parser first."""
    L = lib()
    kind = model['kind']
    paths = []
    if kind == 'extension':
        side = model['side']
        cls = getattr(L.E, ext_class_name(model, side))
        variant = L.E.TlsExtensionVariantClient if side == 'client' else L.E.TlsExtensionVariantServer
        vector = L.E.TlsExtensionsClient if side == 'client' else L.E.TlsExtensionsServer
        paths.append((None, lambda: cls.parse_exact_size(wire)))
        if model['ext'] != 'opaque' or model['type'] in L.ext_type:
            paths.append((variant.__name__, lambda: variant.parse_exact_size(wire)))

        def through_vector():
            items = vector.parse_exact_size(len(wire).to_bytes(2, 'big') + wire)
            if len(items) != 1:
                raise ValueError('%d items parsed from a vector of one extension' % len(items))
            return items[0]
        if len(wire) <= 0xffff:
            paths.append((vector.__name__, through_vector))
        return paths
    cls = getattr(L.Rec if kind in ('tls_record', 'ssl2_record') else L.S, MESSAGE_CLASS[kind])
    paths.append((None, lambda: cls.parse_exact_size(wire)))
    if kind in R.HANDSHAKE_KINDS:
        paths.append(('TlsHandshakeMessageVariant', lambda: L.S.TlsHandshakeMessageVariant.parse_exact_size(wire)))
    return paths


def _record_path(model, wire, cls_name, expected_view, findings):
    L = lib()
    record_model = {'kind': 'tls_record', 'content_type': CONTENT_TYPE_OF[model['kind']],
                    'version': model['record_version'], 'fragment': wire.hex()}
    record_wire = R.encode(record_model)
    record, error = _call(lambda: L.Rec.TlsRecord.parse_exact_size(record_wire))
    if error is not None:
        findings.append(Finding('parse-fails:%s/TlsRecord' % type(error).__name__,
                                {'wire': record_wire.hex()[:400], 'error': repr(error)[:300]}))
        return
    found = diff(record_model, model_of(record))
    if found:
        findings.append(Finding('parse-differs:%s/TlsRecord' % _field_label(found),
                                {'wire': record_wire.hex()[:400], 'expected': _short(found[1]), 'got': _short(found[2])}))
        return
    result, error = _call(lambda: L.S.TlsSubprotocolMessageParser(record.content_type).parse(record.fragment))
    locus = _locus(model, cls_name, 'TlsRecord')
    if error is not None:
        findings.append(Finding('parse-fails:%s/%s' % (type(error).__name__, locus),
                                {'wire': record_wire.hex()[:400], 'error': repr(error)[:300]}))
        return
    obj, consumed = result
    found = diff(expected_view, model_of(obj))
    if found is None and consumed != len(wire):
        found = ('consumed_length', len(wire), consumed)
    if found:
        findings.append(Finding('parse-differs:%s/%s' % (_field_label(found, model), locus),
                                {'wire': record_wire.hex()[:400], 'expected': _short(found[1]), 'got': _short(found[2])}))
    composed, error = _call(lambda: bytes(build(record_model).compose()))
    if error is not None or composed != record_wire:
        findings.append(Finding('compose-differs/TlsRecord', {
            'model': _short(record_model), 'composed': None if composed is None else composed.hex()[:400],
            'error': None if error is None else repr(error)[:300], 'expected': record_wire.hex()[:400]}))


def evaluate(case):  # pylint: disable=too-many-locals,too-many-branches,too-many-statements
    """-> (findings, info).  info: wire bytes, class names exercised."""
    model = _strip(case)
    kind = model['kind']
    wire = R.encode(model)
    # the reference must agree with itself before it judges anybody
    back = R.decode(kind, wire, **_decode_context(model))
    if R.canon(back) != R.canon(model):
        raise HarnessError('reference decode(encode(m)) != m: %r' % (diff(R.canon(model), R.canon(back)),))
    if kind == 'extension':
        cls_name = ext_class_name(model, model['side'])
        classes = [cls_name]
    else:
        cls_name = MESSAGE_CLASS[kind]
        classes = [cls_name]
        if kind in ('client_hello', 'server_hello'):
            side = 'client' if kind == 'client_hello' else 'server'
            classes += [ext_class_name(ext, side) for ext in model['extensions'] or ()]
        if kind == 'ssl2_record':
            classes.append(MESSAGE_CLASS[model['message']['kind']])
    findings = []
    expected_view = parse_view(model)
    locus = _locus(model, cls_name)

    # -- parse direction -----------------------------------------------------------------------------------
    parsed = None
    for via, parser in _parse_paths(model, wire):
        obj, error = _call(parser)
        where = locus if via is None else _locus(model, cls_name, via)
        if error is not None:
            findings.append(Finding('parse-fails:%s/%s' % (type(error).__name__, where),
                                    {'wire': wire.hex()[:400], 'error': repr(error)[:300], 'via': via}))
            break
        if type(obj).__name__ != cls_name:
            findings.append(Finding('wrong-type/%s' % where, {'wire': wire.hex()[:400], 'got': type(obj).__name__, 'via': via}))
            break
        found = diff(expected_view, model_of(obj))
        if found:
            findings.append(Finding('parse-differs:%s/%s' % (_field_label(found, model), where), {
                'wire': wire.hex()[:400], 'expected': _short(found[1]), 'got': _short(found[2]), 'via': via}))
            break
        if via is None:
            parsed = obj
    else:
        if case.get('record_version') is not None and kind in CONTENT_TYPE_OF and len(wire) <= MAX_RECORD_FRAGMENT:
            _record_path(case, wire, cls_name, expected_view, findings)

    # -- compose direction ---------------------------------------------------------------------------------
    target = compose_model(model)
    expected = [R.encode(target)]
    if kind in ('client_hello', 'server_hello') and target['extensions'] is None:
        expected.append(R.encode(dict(target, extensions=[])))
    obj, error = _call(lambda: build(model))
    if error is not None:
        tolerated = [hint for hint in hints(model) if hint in CONSTRUCTOR_MAY_REFUSE]
        if not tolerated:
            findings.append(Finding('build-fails:%s/%s' % (type(error).__name__, locus),
                                    {'model': _short(model), 'error': repr(error)[:300]}))
    else:
        composed, error = _call(lambda: bytes(obj.compose()))
        if error is not None or composed not in expected:
            detail = {'model': _short(model), 'expected': expected[0].hex()[:400],
                      'composed': None if composed is None else composed.hex()[:400],
                      'error': None if error is None else repr(error)[:300]}
            clause = 'compose-differs'
            if composed is not None:
                try:
                    found = diff(R.canon(target), R.canon(R.decode(kind, composed, **_decode_context(model))))
                    if found:
                        detail['field'] = found[0]
                        if found[0].rsplit('.', 1)[-1] in NAMED_FIELDS and isinstance(found[1], str) and not hints(model):
                            clause = 'compose-differs:%s' % _field_label(found, model)
                except R.RefError as e:
                    detail['reference_decoder'] = str(e)[:200]
            findings.append(Finding('%s/%s' % (clause, locus), detail))
        elif not hints(model):
            # the prescribed bytes are a function of the field values: composing the same object again (a
            # retransmission, a transcript hash) must give them again, and the fields must still read as the model
            again, error = _call(lambda: bytes(obj.compose()))
            if error is not None or again != composed:
                findings.append(Finding('compose-not-repeatable/%s' % locus, {
                    'model': _short(model), 'first': composed.hex()[:400],
                    'second': None if again is None else again.hex()[:400],
                    'error': None if error is None else repr(error)[:300]}))
    # -- compose direction, object built with default arguments after another default-built one was edited ---------
    if not findings and kind in ('client_hello', 'server_hello') and not model['extensions']:
        findings.extend(_defaults_history(model, kind, expected, locus))
    # -- compose direction, object reached by an in-place edit ---------------------------------------------------
    if not findings and not hints(model):
        findings.extend(_edited_compose(model, locus))
    if parsed is not None:
        composed, error = _call(lambda: bytes(parsed.compose()))
        if (error is not None or composed not in expected) and not any(f.key.startswith('compose-differs') for f in findings):
            findings.append(Finding('recompose-differs/%s' % locus, {
                'wire': wire.hex()[:400], 'expected': expected[0].hex()[:400],
                'composed': None if composed is None else composed.hex()[:400],
                'error': None if error is None else repr(error)[:300]}))
    return findings, {'wire': wire, 'classes': classes}


def _defaults_history(model, kind, expected, locus):
    """Two hellos built without an `extensions` argument; an extension is appended to the first one's (default) list.
    The second one carries the field values of the model - no extensions - and must compose to their encoding."""
    L = lib()
    cls = L.S.TlsHandshakeClientHello if kind == 'client_hello' else L.S.TlsHandshakeServerHello
    side = 'client' if kind == 'client_hello' else 'server'

    def without_extensions():
        full = build(model)
        import attr  # pylint: disable=import-outside-toplevel
        keywords = {field.name.lstrip('_'): getattr(full, field.name) for field in attr.fields(cls)
                    if field.init and field.name != 'extensions'}
        return cls(**keywords)
    first, error = _call(without_extensions)
    if error is not None:
        return []
    extra = build_extension({'ext': 'renegotiation_info', 'renegotiated_connection': 'aabb'}, side)
    _done, error = _call(lambda: first.extensions.append(extra))
    if error is not None:
        return []
    second, error = _call(without_extensions)
    if error is not None:
        return []
    composed, error = _call(lambda: bytes(second.compose()))
    if error is not None or composed not in expected:
        return [Finding('defaults-shared:extensions/%s' % locus, {
            'what': 'a hello built without an extensions argument composes the extensions appended to an earlier one',
            'composed': None if composed is None else composed.hex()[:400], 'expected': expected[0].hex()[:400],
            'error': None if error is None else repr(error)[:200]})]
    return []


def _grow(hexed):
    if isinstance(hexed, dict):        # compact form {'fill': byte, 'len': n}
        return dict(hexed, len=hexed['len'] + 2)
    return hexed + 'a55a'


def _tail(grown):
    return list(_fromhex(grown)[-2:])


def _grow_attribute(owner, field, grown):
    """owner.field holds a byte string or an opaque vector: make it the grown value the way a caller would."""
    value = getattr(owner, field)
    if isinstance(value, (bytes, bytearray)):
        setattr(owner, field, bytearray(_fromhex(grown)))
    else:
        value.extend(_tail(grown))


def edit_pair(model, obj, rng):
    """One size-changing change made twice: to a copy of the model, and *in place* to an item that already sits
    inside a vector of the library object built from the model (the way a caller edits a parsed message).
    -> (edited model, description) or None when the model has no such item."""
    import copy  # pylint: disable=import-outside-toplevel
    edited = copy.deepcopy(model)
    kind = model['kind']

    def key_share(ext_model, ext_obj):
        index = rng.randrange(len(ext_model['shares']))
        ext_model['shares'][index]['key_exchange'] = _grow(ext_model['shares'][index]['key_exchange'])
        entry = ext_obj.key_share_entries[index]
        field = 'data' if type(entry).__name__ == 'TlsKeyShareEntryInvalidType' else 'key_exchange'
        _grow_attribute(entry, field, ext_model['shares'][index]['key_exchange'])
        return 'key_share_entries[%d].%s grown by 2' % (index, field)

    def responder(ext_model, ext_obj):
        index = rng.randrange(len(ext_model['responder_ids']))
        ext_model['responder_ids'][index] = _grow(ext_model['responder_ids'][index])
        ext_obj.responder_id_list[index].extend(_tail(ext_model['responder_ids'][index]))
        return 'responder_id_list[%d] extended by 2' % index

    def extension(ext_model, ext_obj, side):
        if ext_model['ext'] in ('key_share', 'key_share_reserved') and side == 'client' and ext_model.get('shares'):
            return key_share(ext_model, ext_obj)
        if ext_model['ext'] == 'status_request' and side == 'client' and ext_model.get('responder_ids'):
            return responder(ext_model, ext_obj)
        return None

    if kind == 'certificate' and model['certificates']:
        index = rng.randrange(len(model['certificates']))
        edited['certificates'][index] = _grow(model['certificates'][index])
        _grow_attribute(obj.certificate_chain[index], 'certificate', edited['certificates'][index])
        return edited, 'certificate_chain[%d].certificate grown by 2' % index
    if kind == 'certificate_request' and model['certificate_authorities']:
        index = rng.randrange(len(model['certificate_authorities']))
        edited['certificate_authorities'][index] = _grow(model['certificate_authorities'][index])
        obj.certificate_authorities[index].extend(_tail(edited['certificate_authorities'][index]))
        return edited, 'certificate_authorities[%d] extended by 2' % index
    if kind == 'extension':
        done = extension(edited, obj, model['side'])
        return (edited, done) if done else None
    if kind in ('client_hello', 'server_hello') and model['extensions']:
        side = 'client' if kind == 'client_hello' else 'server'
        order = list(range(len(model['extensions'])))
        rng.shuffle(order)
        for index in order:
            done = extension(edited['extensions'][index], obj.extensions[index], side)
            if done:
                return edited, 'extensions[%d].%s' % (index, done)
    return None


def _edited_compose(model, locus):
    rng = _random.Random(R.encode(model))
    obj, error = _call(lambda: build(model))
    if error is not None:
        return []
    pair, error = _call(lambda: edit_pair(model, obj, rng))
    if error is not None:
        raise HarnessError('edit_pair failed on %r: %r' % (_short(model), error))
    if pair is None:
        return []
    edited, description = pair
    _edited_compose.count += 1
    try:
        target = compose_model(edited)
        expected = [R.encode(target)]
    except R.RefError:
        return []         # the edit left the specification's bounds (a vector ceiling): no prescribed encoding
    if edited['kind'] in ('client_hello', 'server_hello') and target['extensions'] is None:
        expected.append(R.encode(dict(target, extensions=[])))
    composed, error = _call(lambda: bytes(obj.compose()))
    if error is not None or composed not in expected:
        return [Finding('edited-compose-differs/%s' % locus, {
            'model': _short(model), 'edit': description, 'expected': expected[0].hex()[:400],
            'composed': None if composed is None else composed.hex()[:400],
            'error': None if error is None else repr(error)[:300]})]
    return []


_edited_compose.count = 0


@_guard
def check_case(case):
    return evaluate(case)[0]


def _lists_and_opaques(model):
    """(max list length, any non-empty opaque field, number of extensions) of a model."""
    longest, opaque = 0, False
    stack = [model]
    while stack:
        item = stack.pop()
        if isinstance(item, dict):
            if set(item) == {'fill', 'len'}:
                opaque = opaque or item['len'] > 0
                continue
            for key, value in item.items():
                if isinstance(value, str) and key in OPAQUE_FIELDS:
                    opaque = opaque or bool(value)
                else:
                    stack.append(value)
        elif isinstance(item, list):
            longest = max(longest, len(item))
            stack.extend(item)
    return longest, opaque


OPAQUE_FIELDS = ('fragment', 'data', 'random', 'session_id', 'response', 'params', 'host_name', 'key_exchange',
                 'request_extensions', 'renegotiated_connection', 'ticket', 'log_id', 'extensions', 'signature',
                 'challenge', 'certificate', 'connection_id', 'padding')


def is_nontrivial(case):
    if case['kind'] == 'extension' or case.get('extensions'):
        return True
    model = dict(case)
    model.pop('random', None)          # fixed-size field, always present
    longest, opaque = _lists_and_opaques(model)
    return longest >= 2 or opaque


def render(case):
    text = repr(R.canon(_strip(case)))
    return case if len(text) <= 1500 else {'kind': case['kind'], 'abridged': text[:1500]}


def case_fn(case, stats, sample_label=None):
    before = _edited_compose.count
    findings, info = evaluate(case)
    stats.evaluated()
    if _edited_compose.count != before:
        stats.label('edited-in-place-then-composed')
    label = case['kind'] if case['kind'] != 'extension' else 'extension:' + case['side']
    stats.label(label)
    for name in info['classes']:
        stats.cls(name)
    if case.get('record_version') is not None:
        stats.label('via-record')
    for hint in hints(_strip(case)):
        if not hint.startswith(('TlsAlertMessage', 'SslErrorMessage')):
            stats.label('floor:' + hint)
    if case['kind'] == 'client_hello':
        plain, fallback, renegotiation = split_scsv(case['cipher_suites'])
        if fallback or renegotiation:
            tail = case['cipher_suites'][len(plain):]
            stats.label('scsv:at-end' if all(code in SCSVS for code in tail) and
                        not any(code in SCSVS for code in case['cipher_suites'][:len(plain)]) else 'scsv:elsewhere')
    if is_nontrivial(case):
        stats.nontriv(info['wire'])
        if len(info['wire']) <= 400:
            stats.sample(sample_label or label, render(case))
    return findings


# ---------------------------------------------------------------------------------------------------------
# strategies (models only; built lazily because the code-point tables come from the installed cryptodatahub)
# ---------------------------------------------------------------------------------------------------------

GREASE2 = list(R.GREASE_TWO_BYTE)
GREASE1 = list(R.GREASE_ONE_BYTE)


def hexes(min_size=0, max_size=48):
    return st.binary(min_size=min_size, max_size=max_size).map(bytes.hex)


def sized_hex(floor, small, big=None):
    """Opaque field biased to its floor, floor+1, small sizes and (rarely) one big size."""
    options = [st.just(floor), st.just(floor + 1), st.integers(floor, small), st.integers(floor, small)]
    if big is not None and big <= 1024:
        options.append(st.just(big))
    drawn = st.one_of(*options).flatmap(lambda n: st.binary(min_size=n, max_size=n)).map(bytes.hex)
    if big is not None and big > 1024:
        # beyond Hypothesis' 8 KiB example buffer: a run of one byte value in the compact notation of the reference
        filled = st.integers(0, 255).map(lambda byte: {'fill': byte, 'len': big})
        return st.one_of(drawn, drawn, drawn, drawn, drawn, drawn, drawn, filled)
    return drawn


def codes(known, size, fallback=True, exclude=()):
    """Code points of a `size`-byte registry: every known member, plus GREASE and unknown values."""
    known = sorted(known)
    parts = [st.sampled_from(known)] * 3
    if fallback:
        taken = set(known) | set(exclude)
        grease = GREASE2 if size == 2 else GREASE1
        parts.append(st.sampled_from(grease))
        taken |= set(grease)
        parts.append(st.integers(0, (1 << (8 * size)) - 1).filter(lambda code: code not in taken))
    return st.one_of(*parts)


def rarely(one_in):
    """True about once in `one_in` draws (an integer compared with 0 would be favoured by Hypothesis)."""
    return st.sampled_from([False] * (one_in - 1) + [True])


LABEL_ALPHABET = 'abcdefghijklmnopqrstuvwxyz0123456789'
UNICODE_LETTERS = u'äöüéèñçøåλμπжшю中文日本'


@st.composite
def host_names(draw):
    labels = []
    for _ in range(draw(st.integers(1, 4))):
        flavour = draw(st.integers(0, 9))
        if flavour == 0:
            text = draw(st.text(UNICODE_LETTERS + 'abc', min_size=1, max_size=8).filter(lambda t: any(ord(c) > 127 for c in t)))
            label = b'xn--' + text.encode('punycode')
        else:
            size = draw(st.sampled_from((1, 2, 3, 5, 8, 12, 63)))
            inner = draw(st.text(LABEL_ALPHABET + ('-' if size > 2 else ''), min_size=size, max_size=size))
            if size > 2 and (inner[0] == '-' or inner[-1] == '-' or inner[2:4] == '--'):
                inner = inner.replace('-', 'x')
            if flavour == 1:
                inner = inner.upper()
            label = inner.encode('ascii')
        labels.append(label)
    name = b'.'.join(labels)
    return name[:253].rstrip(b'.-').hex() if len(name) > 253 else name.hex()


class Strategies(object):  # pylint: disable=too-many-instance-attributes
    """All model strategies, parameterised by the installed tables."""

    def __init__(self):
        L = lib()
        self.versions = sorted(L.version)
        self.suites = sorted(L.suite)
        self.groups = sorted(L.group)
        self.sigalgs = sorted(L.sigalg)
        self.alpn = sorted(name.hex() for name in L.alpn)
        self.npn = sorted(name.hex() for name in L.npn)
        self.ssl2_kinds = sorted(L.ssl2_kind)
        self.alert_descriptions = sorted(set(m.name.lower() for m in L.S.TlsAlertDescription) |
                                         set(n.lower() for n in L.S.TlsAlertDescription.__members__))
        self.alert_levels = sorted(m.name.lower() for m in L.S.TlsAlertLevel)
        self.certificate_types = sorted(m.name.lower() for m in L.S.TlsClientCertificateType)
        self.ssl2_errors = sorted(n.lower()[:-6] for n in L.S.SslErrorType.__members__)
        self.content_types = sorted(m.name.lower() for m in L.S.TlsContentType)
        for name in self.alert_descriptions:
            if name not in R.ALERT_DESCRIPTION:
                raise HarnessError('alert description %r is not in the reference table' % name)
        self.ct_logs = L.ct_logs
        self.unparsed_types = {}
        for side in ('client', 'server'):
            parsed = set(R.EXTENSION_TYPE[name] for name in SUPPORTED[side])
            self.unparsed_types[side] = sorted(code for code in L.ext_type if code not in parsed)
        self.all_ext_codes = set(L.ext_type) | set(R.EXTENSION_TYPE.values())
        self.suite_code = codes(self.suites, 2, exclude=SCSVS)
        self.suite_code_plain = st.one_of(
            st.sampled_from(self.suites), st.sampled_from(self.suites),
            st.integers(0, 0xffff).filter(lambda c: c not in L.suite and c not in GREASE2 and c not in SCSVS))
        self.version_code = st.sampled_from(self.versions)
        self.session_id = st.one_of(st.just(''), sized_hex(0, 32), st.just(32).flatmap(
            lambda n: st.binary(min_size=n, max_size=n)).map(bytes.hex), hexes(16, 16))
        self.random32 = st.binary(min_size=32, max_size=32).map(bytes.hex)
        self.record_version = st.one_of(st.none(), st.sampled_from(self.versions))
        self._ext = {'client': self._client_extensions(), 'server': self._server_extensions()}

    # -- extensions ------------------------------------------------------------------------------------------
    def _share(self, group):
        return st.fixed_dictionaries({'group': group, 'key_exchange': sized_hex(1, 40, 133)})

    def _sct(self, flavour):
        L = lib()
        log_id = st.one_of(st.sampled_from(self.ct_logs), self.random32) if self.ct_logs else self.random32
        realistic = st.integers(0, ((1 << 32) - 1) * 1000 + 999)
        timestamp = {'plain': st.one_of(realistic, st.integers(1300000000000, 1900000000000), st.just(0)),
                     'far': st.integers((1 << 32) * 1000, 253402300799999)}.get(flavour, realistic)
        extensions = sized_hex(1, 12) if flavour == 'ct-ext' else st.just('')
        return st.fixed_dictionaries({
            'version': st.just('v1'), 'log_id': log_id, 'timestamp': timestamp, 'extensions': extensions,
            'algorithm': st.sampled_from(sorted(L.sigalg)), 'signature': sized_hex(0, 80)})

    def _client_extensions(self):
        L = lib()
        fd = st.fixed_dictionaries
        sigalgs = st.lists(codes(self.sigalgs, 2), min_size=1, max_size=12)
        shares = st.lists(self._share(codes(self.groups, 2)), min_size=0, max_size=4)
        names = st.lists(st.sampled_from(self.alpn), min_size=1, max_size=5)
        ext = {
            'server_name': fd({'name_type': st.just('host_name'), 'host_name': host_names()}),
            'ec_point_formats': fd({'formats': st.lists(codes(L.point_format, 1), min_size=1, max_size=6)}),
            'supported_groups': fd({'groups': st.lists(codes(self.groups, 2), min_size=1, max_size=12)}),
            'supported_versions': fd({'versions': st.lists(codes(self.versions, 2), min_size=1, max_size=8)}),
            'signature_algorithms': fd({'algorithms': sigalgs}),
            'signature_algorithms_cert': fd({'algorithms': sigalgs}),
            'delegated_credentials': fd({'algorithms': sigalgs}),
            'key_share': fd({'shares': shares}),
            'key_share_reserved': fd({'shares': shares}),
            'status_request': fd({'status_type': st.just('ocsp'),
                                  'responder_ids': st.lists(sized_hex(1, 24), min_size=0, max_size=3),
                                  'request_extensions': sized_hex(0, 24)}),
            'renegotiation_info': fd({'renegotiated_connection': sized_hex(0, 36, 255)}),
            'session_ticket': fd({'ticket': sized_hex(0, 120)}),
            'application_layer_protocol_negotiation': fd({'protocols': names}),
            'application_layer_protocol_settings': fd({'protocols': names}),
            'token_binding': fd({'major': st.integers(0, 255), 'minor': st.integers(0, 255),
                                 'parameters': st.lists(codes(L.tb_param, 1), min_size=1, max_size=4)}),
            'psk_key_exchange_modes': fd({'modes': st.lists(codes(L.psk_mode, 1), min_size=1, max_size=4)}),
            'record_size_limit': fd({'limit': st.one_of(st.sampled_from((0, 1, 63, 64, 255, 256, 16384, 16385, 65535)),
                                                        st.integers(0, 65535))}),
            'compress_certificate': fd({'algorithms': st.lists(codes(L.compress_alg, 2), min_size=1, max_size=5)}),
            'padding': fd({'length': st.one_of(st.just(0), st.just(1), st.integers(0, 300))}),
        }
        for name in SUPPORTED['client']:
            if '%s/client' % name in EMPTY_EXTENSIONS:
                ext[name] = st.just({})
        missing = set(SUPPORTED['client']) - set(ext)
        if missing:
            raise HarnessError('no strategy for client extensions %r' % sorted(missing))
        return ext

    def _server_extensions(self):
        L = lib()
        fd = st.fixed_dictionaries
        known_group = st.sampled_from(self.groups)
        plain_scts = st.lists(self._sct('plain'), min_size=1, max_size=3)
        ext = {
            'ec_point_formats': fd({'formats': st.lists(codes(L.point_format, 1), min_size=1, max_size=6)}),
            'supported_versions': fd({'selected': self.version_code}),
            'key_share': st.one_of(fd({'share': self._share(known_group)}), fd({'selected_group': known_group})),
            'renegotiation_info': fd({'renegotiated_connection': sized_hex(0, 72, 255)}),
            'session_ticket': fd({'ticket': st.one_of(st.just(''), sized_hex(0, 40))}),
            'application_layer_protocol_negotiation': fd({'protocols': st.lists(st.sampled_from(self.alpn), min_size=1, max_size=1)}),
            'next_protocol_negotiation': fd({'protocols': st.lists(st.sampled_from(self.npn), min_size=1, max_size=4)}),
            'record_size_limit': fd({'limit': st.integers(0, 65535)}),
            'signed_certificate_timestamp': fd({'scts': plain_scts}),
        }
        for name in SUPPORTED['server']:
            if '%s/server' % name in EMPTY_EXTENSIONS:
                ext[name] = st.just({})
        missing = set(SUPPORTED['server']) - set(ext)
        if missing:
            raise HarnessError('no strategy for server extensions %r' % sorted(missing))
        # features on an RFC floor / outside what the library accepts: at most one per model (see hints())
        self.deviant_server = {
            'npn-empty': ('next_protocol_negotiation', st.just({'protocols': []})),
            'ct-ext': ('signed_certificate_timestamp', fd({'scts': st.lists(self._sct('ct-ext'), min_size=1, max_size=2)})),
            'far': ('signed_certificate_timestamp', fd({'scts': st.lists(self._sct('far'), min_size=1, max_size=2)})),
        }
        return ext

    def opaque_type(self, side):
        taken = self.all_ext_codes | set(GREASE2)
        return st.one_of(st.sampled_from(self.unparsed_types[side]), st.sampled_from(GREASE2),
                         st.integers(0, 0xffff).filter(lambda code: code not in taken))

    def extension(self, side, name):
        return self._ext[side][name].map(lambda fields: dict(fields, ext=name))

    def opaque_extension(self, side):
        return st.fixed_dictionaries({'ext': st.just('opaque'), 'type': self.opaque_type(side), 'data': sized_hex(0, 40)})

    @staticmethod
    def _type_of(ext):
        return R.extension_type_code(ext)

    def extension_list(self, side, max_size=9, allow_deviant=True, require=()):
        """Ordered list of extensions with pairwise different types (RFC 5246 7.4.1.4)."""
        names = SUPPORTED[side]

        @st.composite
        def build_list(draw):
            chosen = draw(st.lists(st.sampled_from(names), unique=True, min_size=0, max_size=max_size))
            chosen = list(require) + [name for name in chosen if name not in require]
            items = [draw(self.extension(side, name)) for name in chosen]
            if side == 'server' and allow_deviant and draw(rarely(40)):
                name, strategy = self.deviant_server[draw(st.sampled_from(sorted(self.deviant_server)))]
                items = [item for item in items if item['ext'] != name]
                items.append(dict(draw(strategy), ext=name))
            opaque = draw(st.lists(self.opaque_extension(side), min_size=0, max_size=3, unique_by=self._type_of))
            items.extend(opaque)
            return draw(st.permutations(items)) if len(items) > 1 else items
        return build_list()

    def standalone_extension(self, side):
        names = SUPPORTED[side]
        structured = st.sampled_from(names).flatmap(lambda name: self.extension(side, name))
        parts = [structured] * 12 + [self.opaque_extension(side)] * 2
        if side == 'server':
            parts.append(st.sampled_from(sorted(self.deviant_server)).flatmap(
                lambda key: self.deviant_server[key][1].map(lambda f: dict(f, ext=self.deviant_server[key][0]))))
        return st.one_of(*parts).map(lambda ext: dict(ext, kind='extension', side=side))

    # -- hellos ----------------------------------------------------------------------------------------------
    def suite_list(self, stratum):
        """stratum: None (anything), 'S' (no GREASE, no SCSV), 'G' (GREASE, no SCSV), 'V' (SCSV, no GREASE),
        'GV' (both)."""
        if stratum is None:
            base, scsv = self.suite_code, st.integers(0, 3)
        else:
            base = self.suite_code_plain
            scsv = st.integers(1, 3) if 'V' in stratum else st.just(0)

        @st.composite
        def build_list(draw):
            size = draw(st.one_of(st.just(1), st.just(2), st.integers(1, 24), st.integers(1, 24), st.integers(25, 60)))
            suites = draw(st.lists(base, min_size=size, max_size=size))
            if stratum is not None and 'G' in stratum:
                for _ in range(draw(st.integers(1, 3))):
                    suites.insert(draw(st.integers(0, len(suites))), draw(st.sampled_from(GREASE2)))
            for _ in range(draw(scsv)):
                suites.insert(draw(st.integers(0, len(suites))), draw(st.sampled_from(SCSVS)))
            if stratum is None and draw(rarely(60)):
                suites = draw(st.lists(st.sampled_from(SCSVS), min_size=1, max_size=3))     # SCSVs only
            return suites
        return build_list()

    def client_hello(self, stratum=None, require=(), max_extensions=9):
        L = lib()
        extensions = self.extension_list('client', max_size=max_extensions, require=require)
        if not require:
            extensions = st.one_of(st.none(), extensions, extensions, extensions)
        return st.fixed_dictionaries({
            'kind': st.just('client_hello'), 'version': self.version_code, 'random': self.random32,
            'session_id': self.session_id, 'cipher_suites': self.suite_list(stratum),
            'compression_methods': st.lists(codes(L.compression, 1), min_size=1, max_size=4),
            'extensions': extensions, 'record_version': self.record_version})

    def server_hello(self):
        L = lib()
        extensions = self.extension_list('server')
        return st.fixed_dictionaries({
            'kind': st.just('server_hello'), 'version': self.version_code,
            'random': st.one_of(self.random32, self.random32, self.random32, st.just(HRR_RANDOM)),
            'session_id': self.session_id, 'cipher_suite': st.sampled_from(self.suites),
            'compression_method': st.sampled_from(sorted(L.compression)),
            'extensions': st.one_of(st.none(), extensions, extensions, extensions),
            'record_version': self.record_version})

    # -- everything else -------------------------------------------------------------------------------------
    def messages(self):
        fd = st.fixed_dictionaries
        rv = self.record_version
        certificate = fd({'kind': st.just('certificate'),
                          'certificates': st.one_of(st.lists(sized_hex(1, 60, 300), min_size=1, max_size=4),
                                                    st.lists(sized_hex(1, 60), min_size=0, max_size=1)),
                          'record_version': rv})
        request = fd({'kind': st.just('certificate_request'),
                      'certificate_types': st.lists(st.sampled_from(self.certificate_types), min_size=1, max_size=6),
                      'signature_algorithms': st.one_of(st.none(), st.lists(codes(self.sigalgs, 2), min_size=1, max_size=10)),
                      'certificate_authorities': st.lists(sized_hex(1, 40, 260), min_size=0, max_size=3),
                      'record_version': rv})
        ssl2_client = fd({'kind': st.just('ssl2_client_hello'), 'version': st.just(R.SSL2_VERSION),
                          'cipher_specs': st.lists(st.sampled_from(self.ssl2_kinds), min_size=1, max_size=8),
                          'session_id': st.one_of(st.just(''), hexes(16, 16)), 'challenge': sized_hex(16, 32)})
        ssl2_server = fd({'kind': st.just('ssl2_server_hello'), 'session_id_hit': st.booleans(),
                          'certificate_type': st.just('x509'), 'version': st.just(R.SSL2_VERSION),
                          'certificate': sized_hex(0, 80, 700),
                          'cipher_specs': st.lists(st.sampled_from(self.ssl2_kinds), min_size=0, max_size=8),
                          'connection_id': sized_hex(16, 32)})
        ssl2_error = fd({'kind': st.just('ssl2_error'), 'error': st.sampled_from(self.ssl2_errors)})
        ssl2_message = st.one_of(ssl2_client, ssl2_client, ssl2_server, ssl2_server, ssl2_error)
        ssl2_record = st.one_of(
            fd({'kind': st.just('ssl2_record'), 'header': st.just(2), 'message': ssl2_message}),
            fd({'kind': st.just('ssl2_record'), 'header': st.just(3), 'escape': st.just(False),
                'padding': st.one_of(st.just(''), st.just(''), st.integers(1, 7).map(lambda n: '00' * n)),
                'message': ssl2_message}))
        return {
            'tls_record': fd({'kind': st.just('tls_record'), 'content_type': st.sampled_from(self.content_types),
                              'version': self.version_code, 'fragment': sized_hex(0, 64, 16384)}),
            'alert': fd({'kind': st.just('alert'), 'level': st.sampled_from(self.alert_levels),
                         'description': st.sampled_from(self.alert_descriptions), 'record_version': rv}),
            'change_cipher_spec': fd({'kind': st.just('change_cipher_spec'), 'type': st.just('change_cipher_spec'),
                                      'record_version': rv}),
            'application_data': fd({'kind': st.just('application_data'), 'data': sized_hex(0, 80), 'record_version': rv}),
            'certificate': certificate,
            'certificate_status': fd({'kind': st.just('certificate_status'), 'status_type': st.just('ocsp'),
                                      'response': sized_hex(1, 90, 70000), 'record_version': rv}),
            'server_key_exchange': fd({'kind': st.just('server_key_exchange'), 'params': sized_hex(0, 120, 65536),
                                       'record_version': rv}),
            'certificate_request': request,
            'server_hello_done': fd({'kind': st.just('server_hello_done'), 'record_version': rv}),
            'ssl2_record': ssl2_record,
            'ssl2_message': ssl2_message,
        }

    def any_case(self):
        messages = self.messages()
        weighted = [
            (26, self.client_hello()), (13, self.server_hello()),
            (18, self.standalone_extension('client')), (9, self.standalone_extension('server')),
            (5, messages['tls_record']), (2, messages['alert']), (1, messages['change_cipher_spec']),
            (2, messages['application_data']), (4, messages['certificate']), (2, messages['certificate_status']),
            (2, messages['server_key_exchange']), (5, messages['certificate_request']),
            (1, messages['server_hello_done']), (7, messages['ssl2_record']), (3, messages['ssl2_message']),
        ]
        table = []
        for weight, strategy in weighted:
            table.extend([strategy] * weight)
        _random.Random(6).shuffle(table)      # Hypothesis favours some indices; spread every kind over the range
        return st.sampled_from(range(len(table))).flatmap(lambda index: table[index])


_STRATEGIES = []


def strategies():
    if not _STRATEGIES:
        _STRATEGIES.append(Strategies())
    return _STRATEGIES[0]


# ---------------------------------------------------------------------------------------------------------
# deterministic part: every member of every table in every container; floors and ceilings
# ---------------------------------------------------------------------------------------------------------

ZERO_RANDOM = '5b6cd580' + '0001020304050607' * 3 + '00010203'


def _client_hello(**fields):
    model = {'kind': 'client_hello', 'version': 0x0303, 'random': ZERO_RANDOM, 'session_id': '',
             'cipher_suites': [0x002f], 'compression_methods': [0], 'extensions': None, 'record_version': None}
    model.update(fields)
    return model


def _server_hello(**fields):
    model = {'kind': 'server_hello', 'version': 0x0303, 'random': ZERO_RANDOM, 'session_id': '',
             'cipher_suite': 0x002f, 'compression_method': 0, 'extensions': None, 'record_version': None}
    model.update(fields)
    return model


def _extension(side, name, **fields):
    return dict(fields, kind='extension', side=side, ext=name)


def _in_hello(side, name, **fields):
    ext = dict(fields, ext=name)
    return _client_hello(extensions=[ext]) if side == 'client' else _server_hello(extensions=[ext])


def enumeration_cases():  # pylint: disable=too-many-locals,too-many-branches,too-many-statements
    """(table label, case) pairs; no randomness."""
    s = strategies()
    L = lib()
    out = []

    def add(label, case):
        out.append((label, case))

    def both(label, side, name, **fields):
        add(label, _extension(side, name, **fields))
        add(label, _in_hello(side, name, **fields))

    for version in s.versions:
        for content_type in s.content_types:
            add('version@record', {'kind': 'tls_record', 'content_type': content_type, 'version': version, 'fragment': '0100'})
        add('version@client_hello', _client_hello(version=version))
        add('version@server_hello', _server_hello(version=version))
        both('version@supported_versions', 'client', 'supported_versions', versions=[version])
        both('version@supported_versions', 'server', 'supported_versions', selected=version)
        add('version@record', {'kind': 'server_hello_done', 'record_version': version})
    for code in s.suites:
        add('suite@server_hello', _server_hello(cipher_suite=code))
    for start in range(0, len(s.suites), 49):
        add('suite@client_hello', _client_hello(cipher_suites=s.suites[start:start + 49]))
    unknown2 = (0xeeee, 0xfeff, 0x0b0b, 0xfffe)
    for code in GREASE2 + list(unknown2):
        add('fallback@client_hello.cipher_suites', _client_hello(cipher_suites=[0x002f, code]))
        both('fallback@supported_groups', 'client', 'supported_groups', groups=[code])
        both('fallback@signature_algorithms', 'client', 'signature_algorithms', algorithms=[code, 0x0403])
        both('fallback@supported_versions', 'client', 'supported_versions', versions=[code, 0x0304])
        both('fallback@compress_certificate', 'client', 'compress_certificate', algorithms=[code])
        both('fallback@key_share', 'client', 'key_share', shares=[{'group': code, 'key_exchange': '00'}])
        add('fallback@certificate_request', {'kind': 'certificate_request', 'certificate_types': ['rsa_sign'],
                                             'signature_algorithms': [code], 'certificate_authorities': [], 'record_version': None})
    for code in GREASE2 + [c for c in unknown2 if c not in s.all_ext_codes]:
        for side in ('client', 'server'):
            both('fallback@extension_type', side, 'opaque', type=code, data='')
    for side in ('client', 'server'):
        for code in s.unparsed_types[side]:
            both('unparsed@extension_type', side, 'opaque', type=code, data='0001')
    unknown1 = [code for code in (0x07, 0x7f, 0xfe, 0xff) if code not in GREASE1]
    for code in sorted(L.compression):
        add('compression@client_hello', _client_hello(compression_methods=[code]))
        add('compression@server_hello', _server_hello(compression_method=code))
    for code in GREASE1 + unknown1:
        if code not in L.compression:
            add('fallback@compression_methods', _client_hello(compression_methods=[0, code]))
        both('fallback@ec_point_formats', 'client', 'ec_point_formats', formats=[code])
        both('fallback@ec_point_formats', 'server', 'ec_point_formats', formats=[0, code])
        both('fallback@psk_key_exchange_modes', 'client', 'psk_key_exchange_modes', modes=[code])
        both('fallback@token_binding', 'client', 'token_binding', major=1, minor=0, parameters=[code])
    for code in s.groups:
        both('group@supported_groups', 'client', 'supported_groups', groups=[code])
        both('group@key_share', 'client', 'key_share', shares=[{'group': code, 'key_exchange': '04' * 5}])
        both('group@key_share', 'client', 'key_share_reserved', shares=[{'group': code, 'key_exchange': '04'}])
        both('group@key_share', 'server', 'key_share', share={'group': code, 'key_exchange': '04' * 5})
        both('group@key_share', 'server', 'key_share', selected_group=code)
    sct = {'version': 'v1', 'log_id': '11' * 32, 'timestamp': 1600000000123, 'extensions': '', 'algorithm': 0x0403,
           'signature': '3000'}
    for code in s.sigalgs:
        for name in ('signature_algorithms', 'signature_algorithms_cert', 'delegated_credentials'):
            both('sigalg@' + name, 'client', name, algorithms=[code])
        add('sigalg@certificate_request', {'kind': 'certificate_request', 'certificate_types': ['rsa_sign'],
                                           'signature_algorithms': [code], 'certificate_authorities': ['3000'],
                                           'record_version': None})
        both('sigalg@sct', 'server', 'signed_certificate_timestamp', scts=[dict(sct, algorithm=code)])
    for log_id in s.ct_logs:
        add('ct_log@sct', _extension('server', 'signed_certificate_timestamp', scts=[dict(sct, log_id=log_id)]))
    for code in sorted(L.point_format):
        both('point_format', 'client', 'ec_point_formats', formats=[code])
        both('point_format', 'server', 'ec_point_formats', formats=[code])
    for code in sorted(L.psk_mode):
        both('psk_mode', 'client', 'psk_key_exchange_modes', modes=[code])
    for code in sorted(L.tb_param):
        both('token_binding_parameter', 'client', 'token_binding', major=0, minor=13, parameters=[code])
    for code in sorted(L.compress_alg):
        both('compression_algorithm', 'client', 'compress_certificate', algorithms=[code])
    for name in s.alpn:
        both('alpn', 'client', 'application_layer_protocol_negotiation', protocols=[name])
        both('alpn', 'server', 'application_layer_protocol_negotiation', protocols=[name])
        both('alpn', 'client', 'application_layer_protocol_settings', protocols=[name])
    for name in s.npn:
        both('npn', 'server', 'next_protocol_negotiation', protocols=[name])
    for level in s.alert_levels:
        for description in s.alert_descriptions:
            add('alert', {'kind': 'alert', 'level': level, 'description': description, 'record_version': 0x0303})
    for name in s.certificate_types:
        add('client_certificate_type', {'kind': 'certificate_request', 'certificate_types': [name],
                                        'signature_algorithms': None, 'certificate_authorities': [], 'record_version': 0x0301})
    add('client_certificate_type', {'kind': 'certificate_request', 'certificate_types': s.certificate_types,
                                    'signature_algorithms': [0x0401], 'certificate_authorities': ['30', '3100'],
                                    'record_version': 0x0303})
    for code in s.ssl2_kinds:
        hello = {'kind': 'ssl2_client_hello', 'version': 2, 'cipher_specs': [code], 'session_id': '', 'challenge': 'c0' * 16}
        reply = {'kind': 'ssl2_server_hello', 'session_id_hit': False, 'certificate_type': 'x509', 'version': 2,
                 'certificate': '3000', 'cipher_specs': [code], 'connection_id': 'c1' * 16}
        for message in (hello, reply):
            add('ssl2_cipher_kind', message)
            add('ssl2_cipher_kind', {'kind': 'ssl2_record', 'header': 2, 'message': message})
    for name in s.ssl2_errors:
        add('ssl2_error', {'kind': 'ssl2_error', 'error': name})
        add('ssl2_error', {'kind': 'ssl2_record', 'header': 2, 'message': {'kind': 'ssl2_error', 'error': name}})
        add('ssl2_error', {'kind': 'ssl2_record', 'header': 3, 'escape': False, 'padding': '',
                           'message': {'kind': 'ssl2_error', 'error': name}})
    for size in range(33):
        add('session_id_length', _client_hello(session_id='a5' * size, record_version=0x0301))
        add('session_id_length', _server_hello(session_id='5a' * size, record_version=0x0303))
    for key in EMPTY_EXTENSIONS:
        name, side = key.split('/')
        both('empty_extension', side, name)
    return out


def boundary_cases(thorough):  # pylint: disable=too-many-statements
    """Cases that touch vector floors and ceilings and the widths of the length prefixes."""
    out = []

    def add(label, case):
        out.append((label, case))

    def fill(size, byte=0xab):
        return {'fill': byte, 'len': size}

    s = strategies()
    first_suite, first_group, first_sigalg = s.suites[0], s.groups[0], s.sigalgs[0]
    for size in (0, 1, 255, 256, 65535):
        add('extension_data', _extension('client', 'padding', length=size))
        add('extension_data', _extension('client', 'session_ticket', ticket=fill(size)))
        add('extension_data', _extension('server', 'session_ticket', ticket=fill(size)))
        add('extension_data', _extension('client', 'opaque', type=0x0a0a, data=fill(size)))
        add('extension_data', _extension('server', 'opaque', type=0xeeee, data=fill(size)))
    for size in (0, 1, 254, 255):
        add('renegotiated_connection', _extension('client', 'renegotiation_info', renegotiated_connection=fill(size)))
        add('renegotiated_connection', _in_hello('server', 'renegotiation_info', renegotiated_connection=fill(size)))
    for count in (1, 2, 254, 255):
        add('1-byte-vectors', _extension('client', 'ec_point_formats', formats=[0, 1, 2, 0x0b, 9][:count] * 1 + [1] * max(0, count - 5)))
        add('1-byte-vectors', _extension('client', 'psk_key_exchange_modes', modes=[1] * count))
        add('1-byte-vectors', _extension('client', 'token_binding', major=1, minor=0, parameters=[2] * count))
        add('1-byte-vectors', _client_hello(compression_methods=[0] * count))
        add('1-byte-vectors', {'kind': 'certificate_request', 'certificate_types': ['ecdsa_sign'] * count,
                               'signature_algorithms': None, 'certificate_authorities': [], 'record_version': None})
    for count in (1, 126, 127):
        add('254-byte-vectors', _extension('client', 'supported_versions', versions=[0x0304] * count))
        add('254-byte-vectors', _extension('client', 'compress_certificate', algorithms=[2] * count))
    for count in (1, 127, 128, 129, 32766):
        add('2-byte-vectors', _extension('client', 'supported_groups', groups=[first_group] * count))
        add('2-byte-vectors', _extension('client', 'signature_algorithms', algorithms=[first_sigalg] * count))
    for count in (1, 127, 128, 32767):
        if count < 1000 or thorough:
            add('2-byte-vectors', _client_hello(cipher_suites=[first_suite] * count))
        add('2-byte-vectors', {'kind': 'certificate_request', 'certificate_types': ['rsa_sign'],
                               'signature_algorithms': [first_sigalg] * count, 'certificate_authorities': [],
                               'record_version': None})
    add('2-byte-vectors', _client_hello(cipher_suites=[first_suite] * 5000 + [R.SCSV_FALLBACK] + [first_suite] * 3000))
    for size in (1, 255, 256, 65529):
        add('key_exchange', _extension('client', 'key_share', shares=[{'group': first_group, 'key_exchange': fill(size)}]))
        add('key_exchange', _extension('client', 'key_share', shares=[{'group': 0x2a2a, 'key_exchange': fill(size)}]))
    add('key_exchange', _extension('server', 'key_share', share={'group': first_group, 'key_exchange': fill(65531)}))
    add('client_shares', _extension('client', 'key_share', shares=[]))
    add('client_shares', _extension('client', 'key_share_reserved', shares=[]))
    for size in (1, 255, 256, 65528):
        add('status_request', _extension('client', 'status_request', status_type='ocsp', responder_ids=[fill(size)],
                                         request_extensions=''))
        add('status_request', _extension('client', 'status_request', status_type='ocsp', responder_ids=[],
                                         request_extensions=fill(size + 2)))
    add('status_request', _extension('client', 'status_request', status_type='ocsp', responder_ids=[], request_extensions=''))
    http = s.alpn[0] if not any(bytes.fromhex(n) == b'http/1.1' for n in s.alpn) else b'http/1.1'.hex()
    for count in (1, 28, 29, 7000):
        add('protocol_name_list', _extension('client', 'application_layer_protocol_negotiation', protocols=[http] * count))
        add('protocol_name_list', _extension('client', 'application_layer_protocol_settings', protocols=[http] * count))
    add('protocol_name_list', _extension('server', 'next_protocol_negotiation', protocols=[s.npn[0]] * 7000))
    add('host_name', _extension('client', 'server_name', name_type='host_name',
                                host_name='.'.join(['a' * 63] * 3 + ['b' * 61]).encode().hex()))
    add('host_name', _extension('client', 'server_name', name_type='host_name', host_name=b'a'.hex()))
    sct = {'version': 'v1', 'log_id': '22' * 32, 'timestamp': 0, 'extensions': '', 'algorithm': first_sigalg, 'signature': ''}
    add('sct', _extension('server', 'signed_certificate_timestamp', scts=[sct]))
    add('sct', _extension('server', 'signed_certificate_timestamp', scts=[dict(sct, signature=fill(65535 - 6 - 47))]))
    add('sct', _extension('server', 'signed_certificate_timestamp', scts=[dict(sct, timestamp=((1 << 32) - 1) * 1000 + 999)] * 40))
    # features on an RFC floor that the library is known to refuse: always present, whatever the seed
    add('rfc-floor', _client_hello(cipher_suites=[R.SCSV_RENEGOTIATION]))
    add('rfc-floor', _client_hello(cipher_suites=[R.SCSV_FALLBACK, R.SCSV_RENEGOTIATION], record_version=0x0301))
    add('rfc-floor', {'kind': 'certificate', 'certificates': [], 'record_version': 0x0303})
    add('rfc-floor', _extension('server', 'next_protocol_negotiation', protocols=[]))
    add('rfc-floor', _in_hello('server', 'next_protocol_negotiation', protocols=[]))
    add('rfc-floor', _extension('server', 'signed_certificate_timestamp', scts=[dict(sct, extensions='00')]))
    add('rfc-floor', _in_hello('server', 'signed_certificate_timestamp', scts=[dict(sct, extensions='0102')]))
    add('rfc-floor', _extension('server', 'signed_certificate_timestamp', scts=[dict(sct, timestamp=(1 << 32) * 1000)]))
    add('rfc-floor', _in_hello('server', 'signed_certificate_timestamp', scts=[dict(sct, timestamp=253402300799999)]))
    # the extension block of the hellos
    add('extensions', _client_hello(extensions=[]))
    add('extensions', _server_hello(extensions=[]))
    add('extensions', _client_hello(extensions=[{'ext': 'padding', 'length': 65531}]))
    add('extensions', _server_hello(extensions=[{'ext': 'session_ticket', 'ticket': fill(65531)}]))
    add('extensions', _client_hello(extensions=[{'ext': 'padding', 'length': 251}]))
    add('extensions', _client_hello(extensions=[{'ext': 'padding', 'length': 252}]))
    # uint24 lengths
    sizes24 = [1, 255, 256, 65535, 65536, 65537] + ([(1 << 24) - 1] if thorough else [(1 << 20) + 1])
    for size in sizes24:
        add('uint24', {'kind': 'server_key_exchange', 'params': fill(size), 'record_version': None})
        add('uint24', {'kind': 'certificate_status', 'status_type': 'ocsp', 'response': fill(max(1, size - 4)), 'record_version': None})
        add('uint24', {'kind': 'certificate', 'certificates': [fill(max(1, size - 6))], 'record_version': None})
    add('uint24', {'kind': 'server_key_exchange', 'params': '', 'record_version': 0x0300})
    add('uint24', {'kind': 'certificate', 'certificates': [fill(40000, 0x30), fill(40000, 0x31), '30'], 'record_version': None})
    for size in (1, 255, 256, 65533):
        add('certificate_authorities', {'kind': 'certificate_request', 'certificate_types': ['rsa_sign'],
                                        'signature_algorithms': [first_sigalg], 'certificate_authorities': [fill(size)],
                                        'record_version': None})
    add('certificate_authorities', {'kind': 'certificate_request', 'certificate_types': ['rsa_sign'],
                                    'signature_algorithms': None, 'certificate_authorities': [fill(3)] * 13107,
                                    'record_version': None})
    # records
    for size in (0, 1, 255, 256, 16384, 16385, 18432, 65535):
        for content_type in ('application_data', 'handshake', 'heartbeat'):
            add('record', {'kind': 'tls_record', 'content_type': content_type, 'version': 0x0303, 'fragment': fill(size)})
    add('record', {'kind': 'application_data', 'data': fill(16384), 'record_version': 0x0303})
    add('record', {'kind': 'application_data', 'data': '', 'record_version': 0x0301})
    reply = {'kind': 'ssl2_server_hello', 'session_id_hit': True, 'certificate_type': 'x509', 'version': 2,
             'certificate': '', 'cipher_specs': [], 'connection_id': '00' * 16}
    overhead = 1 + 10 + 16
    for header, limit in ((2, 32767), (3, 16383)):
        for total in (overhead, 255, 256, limit):
            record = {'kind': 'ssl2_record', 'header': header,
                      'message': dict(reply, certificate=fill(total - overhead))}
            if header == 3:
                record.update(escape=False, padding='')
            add('ssl2_record', record)
    add('ssl2_record', {'kind': 'ssl2_record', 'header': 3, 'escape': False, 'padding': '00' * 255,
                        'message': dict(reply, certificate=fill(16383 - overhead - 255))})
    hello = {'kind': 'ssl2_client_hello', 'version': 2, 'cipher_specs': s.ssl2_kinds * 50, 'session_id': '5e' * 16,
             'challenge': 'c4' * 32}
    add('ssl2_record', {'kind': 'ssl2_record', 'header': 2, 'message': hello})
    add('ssl2_record', hello)
    return out


# ---------------------------------------------------------------------------------------------------------
# drivers
# ---------------------------------------------------------------------------------------------------------

def _run_listed(pairs, sample_label):
    stats = Stats()
    tables = {}
    for label, case in pairs:
        for finding in case_fn(case, stats, sample_label):
            stats.finding(finding, case)
        tables[label] = tables.get(label, 0) + 1
    stats.extra['deterministic_cases_per_table'] = tables
    return stats


def _shard(arg):
    name = arg[0]
    if name == 'models':
        _, seed_value, count = arg
        stats = Stats()
        hyp.explore(strategies().any_case(), case_fn, stats, count, seed_value)
        return stats
    if name == 'enumeration':
        _, index, step = arg
        stats = _run_listed(enumeration_cases()[index::step], 'enumeration')
        stats.label('enumeration', stats.evaluations)
        return stats
    if name == 'boundary':
        _, index, step, thorough = arg
        stats = _run_listed(boundary_cases(thorough)[index::step], 'boundary')
        stats.label('boundary', stats.evaluations)
        return stats
    raise HarnessError('unknown shard %r' % (arg,))


def run(ctx):
    quick = ctx.quick
    jobs = [('boundary', index, 12, not quick) for index in range(12)]
    jobs += [('enumeration', index, 8) for index in range(8)]
    shards, per_shard = (16, 2300) if quick else (160, 4600)
    jobs += [('models', ctx.derive_seed('models', index), per_shard) for index in range(shards)]
    stats = pool.run_shards(_shard, jobs)
    stats.extra['tables'] = dict((name, len(getattr(strategies(), name))) for name in (
        'versions', 'suites', 'groups', 'sigalgs', 'alpn', 'npn', 'ssl2_kinds', 'alert_descriptions',
        'certificate_types', 'ssl2_errors', 'content_types', 'ct_logs'))
    stats.extra['extension_classes'] = sorted(set(name for name in EXT_CLASS.values() if name) |
                                              {'TlsExtensionKeyShareServer', 'TlsExtensionKeyShareClientHelloRetry',
                                               'TlsExtensionUnparsed'})
    return stats


# ---------------------------------------------------------------------------------------------------------
# shrinking: greedy structural minimisation of the JSON case (deterministic, time-boxed)
# ---------------------------------------------------------------------------------------------------------

def _candidates(node):
    """Smaller variants of a JSON value, most aggressive first."""
    if isinstance(node, list):
        if node:
            yield []
            if len(node) > 1:
                yield node[:len(node) // 2]
                yield node[len(node) // 2:]
            for index in range(len(node)):
                yield node[:index] + node[index + 1:]
        for index, item in enumerate(node):
            for smaller in _candidates(item):
                yield node[:index] + [smaller] + node[index + 1:]
    elif isinstance(node, dict):
        if set(node) == {'fill', 'len'}:
            for size in (0, 1, node['len'] // 2):
                if size < node['len']:
                    yield {'fill': node['fill'], 'len': size}
            return
        for key in sorted(node):
            value = node[key]
            if key in ('record_version', 'extensions', 'signature_algorithms') and value is not None:
                yield dict(node, **{key: None})
            for smaller in _candidates(value):
                yield dict(node, **{key: smaller})
    elif isinstance(node, str) and node and len(node) % 2 == 0 and all(c in '0123456789abcdef' for c in node):
        yield ''
        if len(node) > 2:
            yield node[:(len(node) // 4) * 2]
            yield node[:-2]
        if node.strip('0'):
            yield '00' * (len(node) // 2)


def shrink(ctx, key, entry, max_checks=600):  # pylint: disable=unused-argument
    """Bounded by a number of evaluations, not by the clock, so the replay file is reproducible."""
    best = entry['case']
    detail = entry.get('detail')
    checks = [0]

    def still_fails(candidate):
        checks[0] += 1
        try:
            for finding in check_case(candidate):
                if finding.key == key:
                    return finding
        except (R.RefError, HarnessError, KeyError, TypeError, ValueError, IndexError):
            return None
        return None

    progress = True
    while progress and checks[0] < max_checks:
        progress = False
        for candidate in _candidates(best):
            if checks[0] >= max_checks:
                break
            hit = still_fails(candidate)
            if hit is not None:
                best, detail, progress = candidate, hit.detail, True
                break
    return best, detail
