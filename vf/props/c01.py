# -*- coding: utf-8 -*-
"""C01 — compose then parse returns the same message and consumes every byte.

Round-trip oracle over generated construction specs (every registered class) and over objects obtained by
parsing accepted inputs; applied recursively to nested values and through the variant wrappers.
"""
import random
import time

from vf.core import hyp, lib, pool
from vf.core.stats import Finding, Stats, digest
from vf.gen import edits, registry, seeds
from vf.gen import spec as specs

ID = 'C01'
LEVEL = 'exploration'
RULE = ('objects are generated spec-first (json construction specs from Hypothesis strategies written from the wire '
        'grammar: every enum member, unknown/GREASE codes only where a fallback class exists, vectors at constructed '
        'sizes min/min+1/small/max-1/max, optional arguments present/absent, boundary integers, arbitrary opaque '
        'bytes) for every class with a strategy, and additionally obtained by parsing accepted inputs (unit-test corpus '
        'and mutants of it) for every concrete class; each object is composed, re-parsed with parse_exact_size and '
        'parse_immutable and compared field by field, recursively for nested parsable values and through variant '
        'wrappers listing the class. Non-trivial: the constructor got at least one argument (spec source) or the '
        'accepted input differs from its re-composition (parsed source). Distinct by (class, composed bytes).')
ASSUMPTIONS = [
    'a value the constructor rejects (InvalidValue, TypeError, ValueError from validators) is not a case; rejection '
    'rates per class are reported so a vacuous generator is visible',
    'compose() raising a data-length / invalid-value error for an object at a 2^16 / 2^24 ceiling is "the wire cannot '
    'carry it", counted, not judged; the same error for a small object is a finding',
    'alternative spellings the constructor accepts for the same value (A-label "xn--" host names) are not generated',
    'equality = structural field-by-field comparison (bytes==bytearray, bool==int by value, asn1crypto values by DER) '
    'plus the class\'s own == when it and every nested library object define one',
]

N_SHARDS = 48


def _short(ref_or_cls):
    if not isinstance(ref_or_cls, str):
        ref_or_cls = lib.ref_of(ref_or_cls)
    return ref_or_cls.split(':')[-1]


def _is_huge(spec, depth=0):
    if depth > 30:
        return False
    if isinstance(spec, dict):
        if 'cycle' in spec and spec.get('n', 0) >= 120:
            return True
        for key in ('b', 'ba'):
            if key in spec and isinstance(spec[key], str) and len(spec[key]) >= 2 * 250:
                return True
        return any(_is_huge(value, depth + 1) for value in spec.values())
    if isinstance(spec, list):
        return len(spec) >= 120 or any(_is_huge(item, depth + 1) for item in spec)
    if isinstance(spec, int) and not isinstance(spec, bool):
        return spec >= 60000
    return False


_WRAPPERS = {}
_TERMINATED = {}


def terminator_of(cls):
    """Header-field classes parse 'Name: value' up to (not including) the CRLF that separates the items of a
    header block and refuse an input without it; their encoding is therefore judged with the list separator
    appended: parse_immutable(compose() + CRLF) must consume exactly len(compose())."""
    if not _TERMINATED:
        from cryptoparser.httpx.header import HttpHeaderFieldParsedBase, HttpHeaderFieldUnparsed  # pylint: disable=import-outside-toplevel
        _TERMINATED['bases'] = (HttpHeaderFieldParsedBase, HttpHeaderFieldUnparsed)
    return b'\r\n' if issubclass(cls, _TERMINATED['bases']) else b''


FALLBACK_CLASSES = ('TlsExtensionUnparsed', 'HttpHeaderFieldUnparsed', 'SshCertExtensionUnparsed',
                    'TlsKeyShareEntryInvalidType', 'TlsInvalidTypeOneByte', 'TlsInvalidTypeTwoByte')


def _text_family(cls):
    return lib.ref_of(cls).startswith(('cryptoparser.httpx.', 'cryptoparser.common.field:', 'cryptoparser.dnsrec.txt:'))


def wrappers_of(cls):
    """Variant wrappers whose member list contains exactly this class."""
    if not _WRAPPERS:
        from cryptoparser.common.base import VariantParsableBase  # pylint: disable=import-outside-toplevel
        for wrapper in lib.concrete_classes():
            if issubclass(wrapper, VariantParsableBase):
                try:
                    members = wrapper._get_variant_types()  # pylint: disable=protected-access
                except Exception:  # pylint: disable=broad-except
                    continue
                for member in members:
                    if isinstance(member, type):
                        _WRAPPERS.setdefault(member, []).append(wrapper)
        _WRAPPERS.setdefault(object, [])
    return _WRAPPERS.get(cls, [])


def nested_parsables(obj, limit=24):
    """ParsableBase instances reachable from obj (excluding obj), breadth first, de-duplicated by identity."""
    from cryptoparser.common.parse import ParsableBaseNoABC  # pylint: disable=import-outside-toplevel
    from cryptoparser.common.base import ArrayBase  # pylint: disable=import-outside-toplevel
    import enum  # pylint: disable=import-outside-toplevel
    seen = {id(obj)}
    queue = [obj]
    found = []
    while queue and len(found) < limit:
        current = queue.pop(0)
        children = []
        if isinstance(current, ArrayBase):
            children = list(current)[:8]
        elif isinstance(current, (list, tuple, set, frozenset)):
            children = list(current)[:8]
        elif isinstance(current, dict):
            children = list(current.values())[:8]
        elif isinstance(current, enum.Enum):
            children = []
        elif type(current).__module__.startswith('cryptoparser.'):
            children = [value for _name, value in (lib._fields_of(current) or [])]  # pylint: disable=protected-access
        for child in children:
            if id(child) in seen or child is None or isinstance(child, (bool, int, float, str, bytes, bytearray)):
                continue
            seen.add(id(child))
            if isinstance(child, ParsableBaseNoABC) and not isinstance(child, enum.Enum):
                found.append(child)
            queue.append(child)
    return found


def round_trip(obj, huge, role='top', parser_cls=None, use_wrappers=False):
    """The clauses of C01 for one object -> (status, findings, composed bytes or None)."""
    from cryptoparser.common.parse import ParsableBaseNoABC  # pylint: disable=import-outside-toplevel
    cls = type(obj)
    if not isinstance(obj, ParsableBaseNoABC):
        # e.g. a cryptodatahub enum member returned by a *Factory class: it is composed by its container only
        if parser_cls is None or not callable(getattr(obj, 'compose', None)):
            return 'not-composable', [], None
        cls = parser_cls
    name = _short(cls)
    composed = lib.call(obj.compose)
    if not composed.ok:
        if composed.kind == 'documented' and huge:
            return 'wire-cannot-carry', [], None
        return 'compose-raises', [Finding('compose-raises:%s/%s' % (type(composed.exc).__name__, name),
                                          {'error': repr(composed.exc)[:200], 'role': role})], None
    data = composed.value
    if not isinstance(data, (bytes, bytearray)):
        return 'compose-type', [Finding('compose-type/%s' % name, {'type': type(data).__name__})], None
    data = bytes(data)
    findings = []
    terminator = terminator_of(cls)
    if terminator:
        exact = lib.call(cls.parse_immutable, data + terminator)
        if exact.ok:
            exact.value = exact.value[0]
    else:
        exact = lib.call(cls.parse_exact_size, data)
    if not exact.ok:
        # a refusal of its own composed bytes violates C01 whatever the exception type (the type is C02's matter)
        findings.append(Finding('reparse-raises:%s/%s' % (type(exact.exc).__name__, name), {
            'error': repr(exact.exc)[:200], 'composed': data.hex()[:120], 'role': role}))
        return 'reparse-raises', findings, data
    immutable = lib.call(cls.parse_immutable, data + terminator)
    if not immutable.ok or immutable.value[1] != len(data):
        findings.append(Finding('short-consume/%s' % name, {
            'n': immutable.value[1] if immutable.ok else immutable.signature(), 'len': len(data), 'role': role}))
    difference = lib.same(exact.value, obj)
    if difference:
        if 'naive vs aware datetime' in difference:
            key = 'naive-datetime-becomes-gmt/%s' % name
        else:
            key = 'not-equal:%s/%s' % (lib.field_of_diff(difference), name)
        findings.append(Finding(key, {'difference': difference[:300], 'composed': data.hex()[:120], 'role': role}))
    # through the variant wrappers that dispatch to this class (generated objects of non-fallback classes only)
    if use_wrappers == 'parsed' and (_text_family(cls) or (name == 'SshX509Certificate' and data[:1] == b'\x30')):
        # an object parsed by its class directly need not be one its dispatcher can hand out: free text that an earlier
        # member of the dispatcher claims ('nonce-...' read as a host source), a header-less X.509 host certificate
        # (x509v3-sign-rsa / -dss: bare DER, no algorithm name to dispatch on)
        use_wrappers = False
    for wrapper in (wrappers_of(cls) if use_wrappers and name not in FALLBACK_CLASSES and not terminator else ()):
        wrapped = lib.call(wrapper.parse_exact_size, data)
        if not wrapped.ok:
            findings.append(Finding('wrapper-raises:%s/%s' % (type(wrapped.exc).__name__, _short(wrapper)), {
                'member': name, 'error': repr(wrapped.exc)[:160], 'composed': data.hex()[:120]}))
        else:
            difference = lib.same(wrapped.value, obj)
            if difference:
                findings.append(Finding('wrapper-differs/%s' % _short(wrapper), {
                    'member': name, 'difference': difference[:200], 'composed': data.hex()[:120]}))
    return ('ok' if not findings else 'finding'), findings, data


def _obtain(case):
    """-> (object or None, status, huge)"""
    if 'text_model' in case:
        from vf.props import c18  # pylint: disable=import-outside-toplevel
        built = lib.call(c18.build, case['type'], case['text_model'])
        if not built.ok:
            return None, 'constructor-rejects:' + type(built.exc).__name__, False
        return built.value, 'built', False
    if 'spec' in case:
        built = lib.call(specs.build, case['spec'])
        if not built.ok:
            exc = built.exc
            if isinstance(exc, specs.BuildError):
                raise exc
            return None, 'constructor-rejects:' + type(exc).__name__, False
        return built.value, 'built', _is_huge(case['spec'])
    cls = lib.resolve(case['cls'])
    parsed = lib.call(cls.parse_immutable, bytes.fromhex(case['hex']))
    if not parsed.ok:
        return None, 'input-rejected', False
    return parsed.value[0], 'parsed', len(case['hex']) > 1200


def judge(case):
    obj, status, huge = _obtain(case)
    if obj is None:
        return status, [], None
    status, findings, data = round_trip(obj, huge, parser_cls=lib.resolve(case['cls']) if 'cls' in case else None,
                                        use_wrappers=True if 'spec' in case else ('parsed' if 'cls' in case else False))
    if status in ('ok', 'finding') and data is not None:
        for child in nested_parsables(obj):
            _child_status, child_findings, _ = round_trip(child, huge, role='nested in ' + _short(type(obj)))
            if 'text_model' in case and status == 'ok':
                # a component of a text value is spelled inside its parent (JSON escapes, quoting); on its own it may
                # not be expressible at all (non-ASCII text in an ASCII header): its stand-alone compose refusing with
                # a documented error while the parent round-trips is not a deviation
                child_findings = [f for f in child_findings if not f.key.startswith('compose-raises:InvalidValue/')]
            findings.extend(child_findings)
    return ('finding' if findings else status), findings, data


def judge_edited(case):
    """The same clauses for an object reached by editing in place: a second instance is built from the spec, byte-string
    / text fields of items that sit inside its vectors are changed (vf/gen/edits.py), and the edited object must
    compose to exactly the bytes of an equal object built from scratch and parse back to it.
    -> (status, findings, edits made)"""
    if 'spec' not in case:
        return 'not-a-spec', [], []
    built = lib.call(specs.build, case['spec'])
    if not built.ok:
        return 'constructor-rejects', [], []
    obj = built.value
    untouched = lib.call(edits.rebuild, obj)
    if not untouched.ok or lib.same(untouched.value, obj) is not None:
        return 'not-rebuildable', [], []
    first, second = lib.call(obj.compose), lib.call(untouched.value.compose)
    if not first.ok or not second.ok or bytes(first.value) != bytes(second.value):
        return 'not-rebuildable', [], []
    rng = random.Random(digest(case['spec']))
    done = edits.nested_edits(obj, rng)
    # and / or one constructor field takes the value another instance of the class holds (a key rollover, a renamed
    # host ...); the object has been composed once before (first.value above), so anything it memoised is stale now
    donors = registry.example_specs(case['spec']['c']) if 'c' in case['spec'] else []
    if donors and (not done or rng.random() < 0.5):
        donor = lib.call(specs.build, donors[rng.randrange(len(donors))])
        if donor.ok:
            swapped = edits.swap_field(obj, donor.value, rng)
            if swapped:
                done = done + [swapped]
    if not done:
        return 'no-edit-site', [], []
    fresh = lib.call(edits.rebuild, obj)
    if not fresh.ok:
        return 'edit-out-of-domain', [], done          # the constructors refuse these field values
    if edits.state_without_cached_sizes(lib.dump(fresh.value)) != edits.state_without_cached_sizes(lib.dump(obj)):
        # the constructor normalises what the assignment left as it was (dependent fields, converters): the edited
        # object is not one the constructors produce - not judged
        return 'edit-normalised-by-constructor', [], done
    status, findings, reference = round_trip(fresh.value, _is_huge(case['spec']))
    if status != 'ok' or reference is None:
        return 'fresh-twin-' + status, [], done         # a matter of the plain clauses (reported there)
    locus = done[0].split('[')[0].split('.')[0]
    composed = lib.call(obj.compose)
    detail = {'edits': done, 'class': _short(type(obj))}
    if not composed.ok:
        return 'finding', [Finding('edited-compose-raises:%s/%s' % (type(composed.exc).__name__, locus),
                                   dict(detail, error=repr(composed.exc)[:200]))], done
    data = bytes(composed.value)
    if data != reference:
        return 'finding', [Finding('edited-compose-differs/%s' % locus, dict(
            detail, composed=data.hex()[:160], fresh_twin=reference.hex()[:160]))], done
    parsed = lib.call(type(obj).parse_exact_size, data + terminator_of(type(obj))) if not terminator_of(type(obj)) else None
    if parsed is not None and (not parsed.ok or lib.same(parsed.value, fresh.value) is not None):
        return 'finding', [Finding('edited-reparse-differs/%s' % locus, dict(
            detail, outcome=parsed.signature() if not parsed.ok else lib.same(parsed.value, fresh.value)[:200]))], done
    return 'ok', [], done


def check_case(case):
    return judge(case)[1] + judge_edited(case)[1]


# ---------------------------------------------------------------------------------------------------

def _spec_case_fn(ref):
    short = _short(ref)

    def case_fn(spec, stats):
        case = {'spec': spec}
        stats.evaluations += 1
        status, findings, data = judge(case)
        stats.labels['spec:' + status.split(':')[0]] += 1
        if not status.startswith('constructor-rejects'):
            edited_status, edited_findings, done = judge_edited(case)
            stats.labels['edited:' + edited_status] += 1
            findings = findings + edited_findings
            if done and data is not None:
                stats.nontriv(ref.encode() + b'|edited|' + data + repr(done).encode())
        if status.startswith('constructor-rejects'):
            stats.add('rejected:' + short)
        else:
            stats.classes[short] += 1
            if data is not None and (spec.get('a') or spec.get('k')):
                stats.nontriv(ref.encode() + b'|' + data)
            if status == 'ok' and stats.classes[short] % 50 == 1:
                stats.sample(short, specs.render(spec, 400))
        # findings are recorded by explore() against the *spec* so the replay file is a {'spec': ...} case
        return [Finding(f.key, f.detail) for f in findings]
    return case_fn


def _wrap_spec(strategy):
    return strategy


HEAVY = {'TlsHandshakeClientHello': 8, 'TlsCipherSuiteVector': 3, 'TlsHandshakeServerHello': 2,
         'TlsHandshakeHelloRetryRequest': 2, 'TlsExtensionsClient': 2, 'TlsExtensionsServer': 2}


def _spec_seed(ctx_seed, ref, part):
    return (ctx_seed ^ (digest(ref) & 0xffffffff)) + part


def _spec_job(arg):
    ref, part, examples, seed_value, budget_s = arg
    stats = Stats()
    hyp.explore(registry.strategy_for(ref), _spec_case_fn(ref), stats, examples, seed_value, budget_s=budget_s)
    # explore() stored findings with the bare spec as case: wrap them
    for entry in stats.findings.values():
        entry['case'] = {'spec': entry['case']}
    return stats


def _parsed_job(arg):
    index, budget_s = arg
    started = time.time()
    stats = Stats()
    # parsed-object source: every concrete class, its corpus seeds
    for cls in lib.concrete_classes()[index::N_SHARDS]:
        ref = lib.ref_of(cls)
        for data in seeds.seeds_for(cls):
            if time.time() - started > budget_s:
                stats.budget_reached = True
                break
            case = {'cls': ref, 'hex': data.hex()}
            stats.evaluations += 1
            status, findings, composed = judge(case)
            stats.labels['parsed:' + status.split(':')[0]] += 1
            if status != 'input-rejected':
                stats.classes[_short(ref)] += 1
                if composed is not None and composed != data:
                    stats.nontriv(ref.encode() + b'|' + composed)
            for finding in findings:
                stats.finding(finding, case)
    return stats


def _text_job(arg):
    """Text families (HTTP header values, TXT policies): objects built through the public constructors from the semantic
    models of the grammar generator (vf/gen/textgen.py) by the adapter of C18 - the object source these classes lack a
    spec strategy for."""
    type_name, examples, seed_value, budget_s = arg
    from vf.gen import textgen  # pylint: disable=import-outside-toplevel
    from vf.props import c18  # pylint: disable=import-outside-toplevel
    stats = Stats()

    from vf import run as runner  # pylint: disable=import-outside-toplevel
    c18_open = runner.load_known('C18')[0]

    def case_fn(model, inner):
        case = {'text_model': model, 'type': type_name}
        # a model whose canonical spelling already shows a recorded open C18 finding (same root cause: the parser's
        # reading of that spelling) is C18's to report; anything C18 has no record of stays in
        try:
            theirs = c18.check_case({'kind': 'value', 'type': type_name, 'model': model, 'spellings': []})
        except Exception:  # pylint: disable=broad-except
            theirs = []
        if any(runner.match_known(c18_open, finding.key) is not None for finding in theirs):
            inner.labels['text-model:skipped(shows an open C18 finding)'] += 1
            return ()
        inner.evaluations += 1
        status, findings, data = judge(case)
        inner.labels['text-model:' + status.split(':')[0]] += 1
        if data is not None:
            inner.classes[_short(c18.L().value_classes[type_name])] += 1
            inner.nontriv(type_name.encode() + b'|' + data)
        return findings
    hyp.explore(textgen.models(type_name), case_fn, stats, examples, seed_value, budget_s=budget_s)
    for entry in stats.findings.values():
        entry['case'] = {'text_model': entry['case'], 'type': type_name}
    return stats


def _job(arg):
    if arg[0] == 'text':
        return _text_job(arg[1:])
    return _spec_job(arg[1:]) if arg[0] == 'spec' else _parsed_job(arg[1:])


def _spec_jobs(ctx, per_class, budget_s):
    jobs = []
    base_seed = ctx.derive_seed('spec')
    for ref in registry.registered():
        parts = HEAVY.get(_short(ref), 1)
        for part in range(parts):
            jobs.append(('spec', ref, part, max(1, per_class // parts), _spec_seed(base_seed, ref, part), budget_s))
    # heavy jobs first so that the pool balances
    jobs.sort(key=lambda job: -HEAVY.get(_short(job[1]), 1))
    return jobs


def run(ctx):
    per_class = 120 if ctx.quick else 2500
    budget_s = 100 if ctx.quick else 1500
    jobs = _spec_jobs(ctx, per_class, budget_s) + [('parsed', index, budget_s) for index in range(N_SHARDS)]
    from vf.gen import textgen  # pylint: disable=import-outside-toplevel
    jobs += [('text', type_name, per_class, ctx.derive_seed('text', type_name), budget_s) for type_name in textgen.TYPES]
    stats = pool.run_shards(_job, jobs)
    covered, uncovered = registry.coverage()
    stats.extra['classes_with_spec_strategy'] = len(covered)
    stats.extra['classes_discovered'] = len(lib.all_classes())
    stats.extra['classes_concrete'] = len(lib.concrete_classes())
    stats.extra['uncovered_by_spec_strategy'] = uncovered
    return stats


def shrink(ctx, key, entry):
    case = entry['case']
    if 'spec' not in case:
        return None
    ref = specs.spec_class(case['spec'])
    if ref not in set(registry.registered()):
        return None

    def case_fn(spec, _stats):
        return judge({'spec': spec})[1]
    per_class = 120 if ctx.quick else 2500
    for job in _spec_jobs(ctx, per_class, 60):
        if job[1] != ref:
            continue
        smaller, detail = hyp.shrink(registry.strategy_for(ref), case_fn, key, job[3], job[4], box_s=20)
        if smaller is not None:
            return {'spec': smaller}, detail
    return None
