# -*- coding: utf-8 -*-
"""C07 — SSH banner, packets, key exchange messages and host keys follow the RFCs.

Hypothesis strategies generate *models* (plain JSON data); the reference codec vf/ref/ssh.py (written from the
RFC texts, validated against keys and certificates produced by OpenSSH 9.2 ssh-keygen) encodes them; adapters in
this module build library objects from models and turn parsed library objects back into models.
"""
import calendar
import datetime
import functools
import hashlib
import ipaddress
import math
import random

from hypothesis import strategies as st

from vf.core import hyp, pool
from vf.core.lib import library_exceptions_are_findings as _guard
from vf.core.stats import Finding, Stats
from vf.ref import ssh as ref

ID = 'C07'
LEVEL = 'exploration'
RULE = ('seeded Hypothesis models: identification strings (protocol 1.x/1.99/2.x, every vendor class of '
        'ssh/version.py with and without version, unknown and near-miss software strings, optional comment), '
        'KEXINIT over ordered lists of known, unknown and near-miss algorithm names (empty lists included), languages, '
        'first_kex_packet_follows, reserved, cookie; DISCONNECT, UNIMPLEMENTED, NEWKEYS, KEXDH/ECDH init+reply, DH-GEX '
        'request/group/init/reply; RSA/DSS/ECDSA(nistp256/384/521)/Ed25519 host keys with parameters of bit lengths '
        '8k-1, 8k, 8k+1 (0..4096 bits; shapes: top bit only, all ones, random); v01 certificates of all four key '
        'types and v00 RSA/DSS certificates (principals, validity incl. forever, sorted critical options / '
        'extensions with typed, flag, unknown and near-miss names, nonce, serial, key id, signature key, signature). '
        'Binary packets: a list of payload lengths (quick: every length 1..640, +-3 around every multiple of 256, '
        'around 32768 and 35000, seeded others; thorough: every length 0..35000) each realised by a message of exactly '
        'that length, composed (validity predicate) and parsed from reference packets with EVERY conformant padding '
        'length 4..255 and seeded random padding bytes. Non-trivial: a message/key with >=1 non-empty list or a key '
        'parameter whose top bit is set (bit length multiple of 8); every packet-length case; distinct by reference '
        'encoding.')
ASSUMPTIONS = [
    'vf/ref/ssh.py is trusted: it is written from RFC 4251/4253/4419/5656/8709/8332 and OpenSSH PROTOCOL.certkeys and '
    'reproduces byte-for-byte the RSA/DSA/ECDSA/Ed25519 keys and v01 certificates made by OpenSSH 9.2p1 ssh-keygen '
    '(one certificate with force-command, source-address and a custom extension is embedded as a self-test)',
    'v00 certificates have no published specification any more; the reference uses the OpenSSH 5.4-6.x layout '
    '(no serial; constraints, then nonce, reserved, signature key, signature) from memory of key.c, and v00 '
    'constraints are generated only as flags or opaque unknown options, whose encoding is the same in every version',
    'ECDSA keys are generated for the three REQUIRED curves of RFC 5656 only (for the other curves the host key '
    'algorithm names of the enum table are not of the RFC form ecdsa-sha2-<OID>); coordinates need not lie on the '
    'curve (the format is syntactic) except for compressed points',
    'RSA/DSS/Ed25519 blobs use the key format names ssh-rsa / ssh-dss / ssh-ed25519 (RFC 8332 keeps the ssh-rsa '
    'key format for rsa-sha2-*); X.509 based host keys are not judged here',
    'DH values e, f, p, g are opaque byte strings in the library API; the adapter hands over the canonical mpint '
    'body of the model integer and converts parsed bytes back with int.from_bytes(signed=True)',
    'payload lengths 0, 2, 3 and 4 cannot be realised by any message class of the library (NEWKEYS is the only '
    'one-byte message, every other message has >= 5 bytes); they are counted as unreachable, not as evaluated',
    'certificate validity instants are limited to what datetime can hold (< year 10000); valid_after is never the '
    'forever sentinel because the constructor requires a datetime there',
    'reason codes are limited to the 15 defined by RFC 4253 (unknown code points are the subject of C10)',
    'software version strings follow the real-world conventions OpenSSH_<v>, dropbear_<v>, IPSSH-<v>, cryptlib, '
    'Monaca; the minus sign rule of RFC 4253 4.2 for softwareversion is not enforced (IPSSH violates it by design)',
]

FOREVER = ref.FOREVER
EPOCH = datetime.datetime(1970, 1, 1, tzinfo=datetime.timezone.utc)
MAX_DATETIME_S = 253402300799

VENDOR_SEPARATORS = {'OpenSSH': '_', 'dropbear': '_', 'IPSSH': '-', 'cryptlib': None, 'Monaca': None}

MESSAGE_CLASSES = {
    'kexinit': 'SshKeyExchangeInit', 'disconnect': 'SshDisconnectMessage', 'unimplemented': 'SshUnimplementedMessage',
    'newkeys': 'SshNewKeys', 'kexdh_init': 'SshDHKeyExchangeInit', 'ecdh_init': 'SshDHKeyExchangeInit',
    'kexdh_reply': 'SshDHKeyExchangeReply', 'ecdh_reply': 'SshDHKeyExchangeReply',
    'gex_request': 'SshDHGroupExchangeRequest', 'gex_group': 'SshDHGroupExchangeGroup',
    'gex_init': 'SshDHGroupExchangeInit', 'gex_reply': 'SshDHGroupExchangeReply',
}
# message kind -> (kex context of the reference decoder, variant classes / record classes that carry it)
MESSAGE_CONTEXT = {
    'kexinit': ('dh', ('Init', 'KexDH', 'KexDHGroup')), 'disconnect': ('dh', ('Init', 'KexDH', 'KexDHGroup')),
    'unimplemented': ('dh', ('Init', 'KexDH', 'KexDHGroup')), 'newkeys': ('dh', ('KexDH', 'KexDHGroup')),
    'kexdh_init': ('dh', ('KexDH',)), 'kexdh_reply': ('dh', ('KexDH',)),
    'ecdh_init': ('ecdh', ('KexDH',)), 'ecdh_reply': ('ecdh', ('KexDH',)),
    'gex_request': ('gex', ('KexDHGroup',)), 'gex_group': ('gex', ('KexDHGroup',)),
    'gex_init': ('gex', ('KexDHGroup',)), 'gex_reply': ('gex', ('KexDHGroup',)),
}
KEY_CLASSES = {
    'ssh-rsa': 'SshHostKeyRSA', 'ssh-dss': 'SshHostKeyDSS', 'ssh-ed25519': 'SshHostKeyEDDSA',
    'ecdsa-sha2-nistp256': 'SshHostKeyECDSA', 'ecdsa-sha2-nistp384': 'SshHostKeyECDSA',
    'ecdsa-sha2-nistp521': 'SshHostKeyECDSA',
    'ssh-rsa-cert-v01@openssh.com': 'SshHostCertificateV01RSA', 'ssh-dss-cert-v01@openssh.com': 'SshHostCertificateV01DSS',
    'ecdsa-sha2-nistp256-cert-v01@openssh.com': 'SshHostCertificateV01ECDSA',
    'ecdsa-sha2-nistp384-cert-v01@openssh.com': 'SshHostCertificateV01ECDSA',
    'ecdsa-sha2-nistp521-cert-v01@openssh.com': 'SshHostCertificateV01ECDSA',
    'ssh-ed25519-cert-v01@openssh.com': 'SshHostCertificateV01EDDSA',
    'ssh-rsa-cert-v00@openssh.com': 'SshHostCertificateV00RSA', 'ssh-dss-cert-v00@openssh.com': 'SshHostCertificateV00DSS',
}
KEXINIT_FIELDS = {
    'kex': ('kex_algorithms', 'kex'), 'hostkey': ('host_key_algorithms', 'hostkey'),
    'enc_c2s': ('encryption_algorithms_client_to_server', 'enc'), 'enc_s2c': ('encryption_algorithms_server_to_client', 'enc'),
    'mac_c2s': ('mac_algorithms_client_to_server', 'mac'), 'mac_s2c': ('mac_algorithms_server_to_client', 'mac'),
    'cmp_c2s': ('compression_algorithms_client_to_server', 'cmp'),
    'cmp_s2c': ('compression_algorithms_server_to_client', 'cmp'),
    'lang_c2s': ('languages_client_to_server', 'lang'), 'lang_s2c': ('languages_server_to_client', 'lang'),
}
OPTION_FIELDS = {'critical': 'critical_options', 'extensions': 'extensions', 'constraints': 'constraints'}


# ---------------------------------------------------------------------------------------------------
# JSON case <-> native model
# ---------------------------------------------------------------------------------------------------

def gen_bytes(length, seed):
    return hashlib.shake_256(b'vf-c07:%d' % seed).digest(length) if length else b''


def decode(value):
    """JSON form -> native model: {'hex': ..} / {'gen': [n, seed]} -> bytes, {'int': hex} -> int."""
    if isinstance(value, dict):
        if len(value) == 1:
            if 'hex' in value:
                return bytes.fromhex(value['hex'])
            if 'gen' in value:
                return gen_bytes(value['gen'][0], value['gen'][1])
            if 'int' in value:
                return int(value['int'], 16)
        return {key: decode(item) for key, item in value.items()}
    if isinstance(value, list):
        return [decode(item) for item in value]
    return value


def jbytes(data):
    return {'hex': bytes(data).hex()}


def jint(value):
    return {'int': '%x' % value}


def _s(data):
    """uint32 length prefix (adapter side helper, independent of the reference module)."""
    return len(data).to_bytes(4, 'big') + bytes(data)


def int_body(value):
    """What a user of the library has to hand over for an mpint valued DH field: the canonical body octets."""
    if value == 0:
        return b''
    return value.to_bytes(value.bit_length() // 8 + 1, 'big')


# ---------------------------------------------------------------------------------------------------
# library access
# ---------------------------------------------------------------------------------------------------

class _Lib(object):
    def __init__(self):
        from cryptodatahub.common import key as cdh_key  # pylint: disable=import-outside-toplevel
        from cryptodatahub.common.algorithm import NamedGroup, Hash  # pylint: disable=import-outside-toplevel
        from cryptodatahub.ssh import algorithm as cdh_alg  # pylint: disable=import-outside-toplevel
        from cryptoparser.common.classes import LanguageTag  # pylint: disable=import-outside-toplevel
        from cryptoparser.ssh import key, record, subprotocol, version  # pylint: disable=import-outside-toplevel
        self.cdh_key, self.alg, self.key, self.record, self.sub, self.version = cdh_key, cdh_alg, key, record, subprotocol, version
        self.NamedGroup, self.Hash, self.LanguageTag = NamedGroup, Hash, LanguageTag
        self.names = {
            'kex': {m.value.code: m for m in cdh_alg.SshKexAlgorithm},
            'hostkey': {m.value.code: m for m in cdh_alg.SshHostKeyAlgorithm},
            'enc': {m.value.code: m for m in cdh_alg.SshEncryptionAlgorithm},
            'mac': {m.value.code: m for m in cdh_alg.SshMacAlgorithm},
            'cmp': {m.value.code: m for m in cdh_alg.SshCompressionAlgorithm},
        }
        self.curves = {m.value.code: m.value.named_group for m in cdh_alg.SshEllipticCurveIdentifier}
        self.curve_codes = {group: code for code, group in self.curves.items()}
        self.vendors = {}
        for classes in version.SshSoftwareVersionParsedVariant._get_variants().values():  # pylint: disable=protected-access
            for cls in classes:
                self.vendors[cls._get_vendor()] = cls  # pylint: disable=protected-access
        self.option_names = {m.value.code: m for m in key.SshCertExtensionName}
        self.option_tables = {
            'critical': self._option_table(key.SshCertCriticalOptionVariant._get_variants()),  # pylint: disable=protected-access
            'extensions': self._option_table(key.SshCertExtensionVariant._get_variants()),  # pylint: disable=protected-access
            'constraints': self._option_table(key.SshCertConstraintVariant._VARIANTS),  # pylint: disable=protected-access
        }
        self.records = {'Init': record.SshRecordInit, 'KexDH': record.SshRecordKexDH, 'KexDHGroup': record.SshRecordKexDHGroup}
        self.variants = {'Init': subprotocol.SshMessageVariantInit, 'KexDH': subprotocol.SshMessageVariantKexDH,
                         'KexDHGroup': subprotocol.SshMessageVariantKexDHGroup}

    @staticmethod
    def _option_table(variants):
        return {member.value.code: classes[0] for member, classes in variants.items()}


@functools.lru_cache(maxsize=None)
def lib():
    return _Lib()


def known_names():
    """Wire names of the five algorithm enums (for the generators)."""
    return {family: sorted(table) for family, table in lib().names.items()}


# ---------------------------------------------------------------------------------------------------
# model -> library objects
# ---------------------------------------------------------------------------------------------------

def software_string(sw):
    if 'raw' in sw:
        return sw['raw']
    separator = VENDOR_SEPARATORS[sw['vendor']]
    if sw.get('version') is None:
        return sw['vendor']
    return sw['vendor'] + separator + sw['version']


def lib_software(sw):
    L = lib()
    if 'raw' in sw:
        return L.version.SshSoftwareVersionUnparsed(sw['raw'])
    cls = L.vendors[sw['vendor']]
    return cls(sw.get('version'))


def lib_banner(model):
    L = lib()
    proto = L.version.SshProtocolVersion(L.version.SshVersion(model['proto'][0]), model['proto'][1])
    return L.sub.SshProtocolMessage(proto, lib_software(model['sw']), model.get('comment'))


def lib_public_key(key):
    L = lib()
    kind = key['t']
    K = L.cdh_key
    if kind == 'ssh-rsa':
        params = K.PublicKeyParamsRsa(modulus=key['n'], public_exponent=key['e'])
    elif kind == 'ssh-dss':
        params = K.PublicKeyParamsDsa(prime=key['p'], generator=key['g'], order=key['q'], public_key_value=key['y'])
    elif kind.startswith('ecdsa-sha2-'):
        params = K.PublicKeyParamsEcdsa(L.curves[key['curve']], key['x'], key['y'])
    elif kind == 'ssh-ed25519':
        params = K.PublicKeyParamsEddsa(curve_type=L.NamedGroup.CURVE25519, key_data=bytes(key['pk']))
    else:
        raise ValueError(kind)
    return K.PublicKey.from_params(params)


def lib_option(option, field):
    """-> (object, expected class name when the bytes are parsed back in this vector)."""
    L = lib()
    name, kind = option['name'], option['kind']
    cls = L.option_tables[field].get(name)
    if cls is not None:
        if issubclass(cls, L.key.SshCertExtensionNoData) and kind == 'flag':
            return cls(), cls.__name__
        if cls is L.key.SshCertExtensionForceCommand and kind == 'string':
            return cls(option['value']), cls.__name__
        if cls is L.key.SshCertExtensionSourceAddress and kind == 'string':
            return cls([ipaddress.ip_network(item) for item in option['value'].split(',')]), cls.__name__
        raise ValueError('option %r of kind %r is outside the generated domain' % (name, kind))
    if kind == 'flag':
        data = b''
    elif kind == 'string':
        data = _s(option['value'].encode('ascii'))
    else:
        data = bytes(option['data'])
    return L.key.SshCertExtensionUnparsed(name, data), 'SshCertExtensionUnparsed'


def _lib_time(seconds, offset_minutes=0):
    """The instant as an aware datetime; offset_minutes != 0 gives the same instant expressed in another zone (a
    caller in Kolkata or New York hands over such values; the wire carries the instant, not the spelling)."""
    instant = EPOCH + datetime.timedelta(seconds=seconds)
    if offset_minutes:
        try:
            return instant.astimezone(datetime.timezone(datetime.timedelta(minutes=offset_minutes)))
        except OverflowError:
            return instant
    return instant


def lib_key(key):
    L = lib()
    kind = key['t']
    cls = getattr(L.key, KEY_CLASSES[kind])
    algorithm = L.names['hostkey'][kind]
    if not ref.is_cert_type(kind):
        return cls(host_key_algorithm=algorithm, public_key=lib_public_key(key))
    cert_type = [m for m in L.key.SshCertType if m.value.code == key['type']][0]
    common = dict(
        host_key_algorithm=algorithm, public_key=lib_public_key(key['key']), certificate_type=cert_type,
        key_id=key['key_id'], valid_principals=L.key.SshCertValidPrincipals([L.key.SshString(p) for p in key['principals']]),
        valid_after=_lib_time(key['valid_after'], key.get('zone_minutes', 0)),
        valid_before=None if key['valid_before'] == FOREVER else _lib_time(key['valid_before'], key.get('zone_minutes', 0)),
        nonce=bytes(key['nonce']), reserved=bytes(key['reserved']), signature_key=lib_key(key['signature_key']),
        signature=L.key.SshCertSignature(L.names['hostkey'][key['signature']['type']], bytes(key['signature']['blob'])),
    )
    if kind.endswith(ref.CERT_V01_SUFFIX):
        return cls(serial=key['serial'],
                   critical_options=L.key.SshCertCriticalOptionVector([lib_option(o, 'critical')[0] for o in key['critical']]),
                   extensions=L.key.SshCertExtensionVector([lib_option(o, 'extensions')[0] for o in key['extensions']]),
                   **common)
    return cls(constraints=L.key.SshCertConstraintVector([lib_option(o, 'constraints')[0] for o in key['constraints']]),
               **common)


def _lib_names(names, family):
    L = lib()
    if family == 'lang':
        out = []
        for name in names:
            parts = name.split('-')
            out.append(L.LanguageTag(parts[0], parts[1:]))
        return out
    table = L.names[family]
    return [table.get(name, name) for name in names]


def lib_message(msg):
    L = lib()
    S = L.sub
    kind = msg['t']
    if kind == 'kexinit':
        kwargs = {}
        for field, (attribute, family) in KEXINIT_FIELDS.items():
            kwargs[attribute] = _lib_names(msg[field], family)
        return S.SshKeyExchangeInit(first_kex_packet_follows=1 if msg['follows'] else 0, cookie=bytes(msg['cookie']),
                                    reserved=msg['reserved'], **kwargs)
    if kind == 'disconnect':
        return S.SshDisconnectMessage(S.SshReasonCode(msg['reason']), msg['description'], msg['language'])
    if kind == 'unimplemented':
        return S.SshUnimplementedMessage(msg['seq'])
    if kind == 'newkeys':
        return S.SshNewKeys()
    if kind == 'kexdh_init':
        return S.SshDHKeyExchangeInit(int_body(msg['e']))
    if kind == 'ecdh_init':
        return S.SshDHKeyExchangeInit(bytes(msg['q']))
    if kind == 'kexdh_reply':
        return S.SshDHKeyExchangeReply(lib_key(msg['host_key']), int_body(msg['f']), bytes(msg['sig']))
    if kind == 'ecdh_reply':
        return S.SshDHKeyExchangeReply(lib_key(msg['host_key']), bytes(msg['q']), bytes(msg['sig']))
    if kind == 'gex_request':
        return S.SshDHGroupExchangeRequest(msg['min'], msg['n'], msg['max'])
    if kind == 'gex_group':
        return S.SshDHGroupExchangeGroup(int_body(msg['p']), int_body(msg['g']))
    if kind == 'gex_init':
        return S.SshDHGroupExchangeInit(int_body(msg['e']))
    if kind == 'gex_reply':
        return S.SshDHGroupExchangeReply(lib_key(msg['host_key']), int_body(msg['f']), bytes(msg['sig']))
    raise ValueError(kind)


# ---------------------------------------------------------------------------------------------------
# parsed library objects -> models (same shape as ref.generic_key / ref.generic_message)
# ---------------------------------------------------------------------------------------------------

def _seconds(value):
    if value is None:
        return FOREVER
    if value.tzinfo is None:
        return calendar.timegm(value.timetuple())
    return (value - EPOCH) // datetime.timedelta(seconds=1)


def public_key_model(public_key, plain_type):
    L = lib()
    params = public_key.params
    if plain_type == 'ssh-rsa':
        return {'t': plain_type, 'e': params.public_exponent, 'n': params.modulus}
    if plain_type == 'ssh-dss':
        return {'t': plain_type, 'p': params.prime, 'q': params.order, 'g': params.generator, 'y': params.public_key_value}
    if plain_type.startswith('ecdsa-sha2-'):
        return {'t': plain_type, 'curve': L.curve_codes.get(params.named_group, repr(params.named_group)),
                'x': params.point_x, 'y': params.point_y}
    if plain_type == 'ssh-ed25519':
        return {'t': plain_type, 'pk': bytes(params.key_data)}
    raise ValueError(plain_type)


def option_model(obj):
    """-> ({'name', 'data'}, class name): what the object says, expressed as PROTOCOL.certkeys (name, data)."""
    L = lib()
    K = L.key
    if isinstance(obj, K.SshCertExtensionUnparsed):
        return {'name': obj.extension_name, 'data': bytes(obj.extension_data)}, type(obj).__name__
    name = obj.extension_name.value.code
    if isinstance(obj, K.SshCertExtensionForceCommand):
        data = _s(obj.command.encode('ascii', 'backslashreplace'))
    elif isinstance(obj, K.SshCertExtensionSourceAddress):
        data = _s(','.join(str(item) for item in obj.addresses).encode('ascii'))
    else:
        data = b''
    return {'name': name, 'data': data}, type(obj).__name__


def key_model(obj):
    kind = obj.host_key_algorithm.value.code
    if not hasattr(obj, 'signature_key'):
        return public_key_model(obj.public_key, kind)
    out = {
        't': kind, 'key': public_key_model(obj.public_key, ref.plain_type_of(kind)),
        'type': obj.certificate_type.value.code, 'key_id': obj.key_id,
        'principals': [item.value for item in obj.valid_principals],
        'valid_after': _seconds(obj.valid_after), 'valid_before': _seconds(obj.valid_before),
        'nonce': bytes(obj.nonce), 'reserved': bytes(obj.reserved), 'signature_key': key_model(obj.signature_key),
        'signature': {'type': obj.signature.signature_type.value.code, 'blob': bytes(obj.signature.signature_data)},
    }
    for field, attribute in OPTION_FIELDS.items():
        if hasattr(obj, attribute):
            out[field] = [option_model(item)[0] for item in getattr(obj, attribute)]
    if hasattr(obj, 'serial'):
        out['serial'] = obj.serial
    return out


def _name_models(items, family):
    out = []
    for item in items:
        if family == 'lang':
            out.append('-'.join([item.primary_subtag] + list(item.subsequent_subtags)))
        elif isinstance(item, str):
            out.append(item)
        else:
            out.append(item.value.code)
    return out


def message_model(obj, kind):
    if kind == 'kexinit':
        out = {'t': kind, 'cookie': bytes(obj.cookie), 'follows': bool(obj.first_kex_packet_follows), 'reserved': obj.reserved}
        for field, (attribute, family) in KEXINIT_FIELDS.items():
            out[field] = _name_models(getattr(obj, attribute), family)
        return out
    if kind == 'disconnect':
        return {'t': kind, 'reason': int(obj.reason), 'description': obj.description, 'language': obj.language}
    if kind == 'unimplemented':
        return {'t': kind, 'seq': obj.sequence_number}
    if kind == 'newkeys':
        return {'t': kind}
    signed = lambda data: int.from_bytes(bytes(data), 'big', signed=True)  # noqa: E731
    if kind in ('kexdh_init', 'gex_init'):
        return {'t': kind, 'e': signed(obj.ephemeral_public_key)}
    if kind == 'ecdh_init':
        return {'t': kind, 'q': bytes(obj.ephemeral_public_key)}
    if kind in ('kexdh_reply', 'gex_reply'):
        return {'t': kind, 'host_key': key_model(obj.host_public_key), 'f': signed(obj.ephemeral_public_key),
                'sig': bytes(obj.signature)}
    if kind == 'ecdh_reply':
        return {'t': kind, 'host_key': key_model(obj.host_public_key), 'q': bytes(obj.ephemeral_public_key),
                'sig': bytes(obj.signature)}
    if kind == 'gex_request':
        return {'t': kind, 'min': obj.gex_min, 'n': obj.gex_number, 'max': obj.gex_max}
    if kind == 'gex_group':
        return {'t': kind, 'p': signed(obj.p), 'g': signed(obj.g)}
    raise ValueError(kind)


def banner_model(obj):
    L = lib()
    software = obj.software_version
    if isinstance(software, L.version.SshSoftwareVersionUnparsed):
        text = software.raw
    else:
        vendor = software.vendor
        text = vendor if software.version is None else vendor + (VENDOR_SEPARATORS.get(vendor) or '') + software.version
    return {'proto': [int(obj.protocol_version.major), obj.protocol_version.minor], 'software': text,
            'comment': obj.comment}, type(software).__name__


# ---------------------------------------------------------------------------------------------------
# comparison helpers
# ---------------------------------------------------------------------------------------------------

def diff(expected, got, path=''):
    """Path of the first difference (indices stripped), or None.  'compressed' is a wire detail, not a value."""
    if isinstance(expected, dict):
        if not isinstance(got, dict):
            return path or 'type'
        for name in expected:
            if name == 'compressed':
                continue
            if name not in got:
                return (path + '.' if path else '') + name
            sub = diff(expected[name], got[name], (path + '.' if path else '') + name)
            if sub is not None:
                return sub
        return None
    if isinstance(expected, (list, tuple)):
        if not isinstance(got, (list, tuple)) or len(expected) != len(got):
            return path
        for exp_item, got_item in zip(expected, got):
            sub = diff(exp_item, got_item, path)
            if sub is not None:
                return sub
        return None
    if isinstance(expected, (bytes, bytearray)):
        return None if isinstance(got, (bytes, bytearray)) and bytes(expected) == bytes(got) else path
    if isinstance(expected, bool) or isinstance(got, bool):
        return None if expected is got or (type(expected) is type(got) and expected == got) else path
    return None if type(expected) is type(got) and expected == got else path


def _short(value, limit=160):
    if isinstance(value, (bytes, bytearray)):
        text = bytes(value).hex()
    else:
        text = repr(value)
    return text if len(text) <= limit else text[:limit] + '...(%d)' % len(text)


def _at(model, path):
    for part in path.split('.'):
        if isinstance(model, dict) and part in model:
            model = model[part]
        else:
            return None
    return model


def _ec_condition(key):
    """Coordinate shapes on which cryptodatahub's PublicKeyParamsEcdsa (asn1crypto ECPointBitString.from_coords,
    width = ceil(log2(max(x, y)) / 8) in floating point) cannot give the fixed-width SEC1 point."""
    if not key['t'].startswith('ecdsa-sha2-') or key.get('compressed'):
        return None
    width = ref.CURVES[key['curve']]
    x, y = key['x'], key['y']
    if x == 0 or y == 0:
        return 'zero-coordinate'
    top = max(x, y)
    if math.ceil(math.log(top, 2) / 8.0) < (top.bit_length() + 7) // 8:
        return 'power-of-256-coordinate'
    if top.bit_length() <= 8 * (width - 1):
        return 'short-point'
    return None


def _ec_short_point(key):
    return _ec_condition(key) == 'short-point'


def _is_late_validity(model, path):
    """valid_after / valid_before beyond 32 bits: one root cause (the 8-byte timestamp parser masks to 32 bits)."""
    leaf = path.split('.')[-1]
    if leaf not in ('valid_after', 'valid_before'):
        return False
    holder = _at(model, '.'.join(path.split('.')[:-1])) if '.' in path else model
    value = holder.get(leaf) if isinstance(holder, dict) else None
    return isinstance(value, int) and value != FOREVER and value >= 1 << 32


def locate_compose_difference(model, obj):
    """(clause, locus) of the innermost part whose own composition differs from the reference."""
    kind = model['t']
    if kind in MESSAGE_CLASSES:
        if 'host_key' in model:
            try:
                if bytes(obj.host_public_key.compose()) != ref.encode_key(model['host_key']):
                    return locate_compose_difference(model['host_key'], obj.host_public_key)
            except Exception as e:  # pylint: disable=broad-except
                return 'compose-raises:' + type(e).__name__, KEY_CLASSES[model['host_key']['t']]
        return 'compose-differs', MESSAGE_CLASSES[kind]
    if ref.is_cert_type(kind):
        for field, attribute in OPTION_FIELDS.items():
            if field not in model:
                continue
            for option, item in zip(model[field], getattr(obj, attribute)):
                try:
                    if bytes(item.compose()) != ref.encode_option(option):
                        return 'compose-differs', type(item).__name__
                except Exception as e:  # pylint: disable=broad-except
                    return 'compose-raises:' + type(e).__name__, type(item).__name__
        try:
            if bytes(obj.signature_key.compose()) != ref.encode_key(model['signature_key']):
                return locate_compose_difference(model['signature_key'], obj.signature_key)
        except Exception as e:  # pylint: disable=broad-except
            return 'compose-raises:' + type(e).__name__, KEY_CLASSES[model['signature_key']['t']]
        if _ec_condition(model['key']):
            return 'compose-differs:' + _ec_condition(model['key']), 'PublicKeyParamsEcdsa'
        try:
            # the certified key's own fields are composed by the plain key base class
            if bytes(lib_key(model['key']).compose()) != ref.encode_key(model['key']):
                return 'compose-differs', KEY_CLASSES[model['key']['t']]
        except Exception:  # pylint: disable=broad-except
            pass
        return 'compose-differs', KEY_CLASSES[kind]
    if _ec_condition(model):
        return 'compose-differs:' + _ec_condition(model), 'PublicKeyParamsEcdsa'
    return 'compose-differs', KEY_CLASSES[kind]


def _compose_findings(model, obj, reference, locus):
    try:
        composed = bytes(obj.compose())
    except Exception as e:  # pylint: disable=broad-except
        return [Finding('compose-raises:%s/%s' % (type(e).__name__, locus), {'error': _short(e), 'model': _short(model, 400)})]
    if composed == reference:
        return []
    if 't' in model:
        clause, where = locate_compose_difference(model, obj)
    else:
        clause, where = 'compose-differs', locus
    position = next((i for i, (a, b) in enumerate(zip(composed, reference)) if a != b), min(len(composed), len(reference)))
    return [Finding('%s/%s' % (clause, where), {
        'first_difference_at': position, 'composed': _short(composed[max(0, position - 8):position + 40]),
        'reference': _short(reference[max(0, position - 8):position + 40]), 'composed_length': len(composed),
        'reference_length': len(reference), 'outer': locus})]


def _option_findings(model, obj, outer):
    """Per option comparison of a parsed certificate (precise loci for option level defects)."""
    findings = []
    for field, attribute in OPTION_FIELDS.items():
        if field not in model:
            continue
        expected = model[field]
        got = list(getattr(obj, attribute))
        if len(expected) != len(got):
            findings.append(Finding('parse-differs:%s/%s' % (field, type(getattr(obj, attribute)).__name__), {
                'expected_count': len(expected), 'got_count': len(got), 'outer': outer}))
            continue
        for option, item in zip(expected, got):
            expected_class = lib_option(option, field)[1]
            generic, got_class = option_model(item)
            wanted = {'name': option['name'], 'data': ref.option_data(option)}
            if generic != wanted:
                findings.append(Finding('parse-differs:option/%s' % expected_class, {
                    'field': field, 'expected': _short(wanted), 'got': _short(generic), 'got_class': got_class, 'outer': outer}))
            elif got_class != expected_class:
                findings.append(Finding('wrong-type/%s' % expected_class, {
                    'field': field, 'option': _short(wanted), 'got_class': got_class, 'outer': outer}))
    return findings


def _key_parse_findings(model, obj, locus):
    """Compare a parsed key / certificate object with the model."""
    findings = []
    expected_class = KEY_CLASSES[model['t']]
    if type(obj).__name__ != expected_class:
        return [Finding('wrong-type/%s' % expected_class, {'got_class': type(obj).__name__, 'outer': locus})]
    try:
        got = key_model(obj)
    except Exception as e:  # pylint: disable=broad-except
        return [Finding('parse-fails:%s/%s' % (type(e).__name__, expected_class), {'error': _short(e), 'stage': 'reading attributes'})]
    expected = ref.generic_key(_wire_fields(model))
    option_fields = [field for field in OPTION_FIELDS if field in model]
    if option_fields:
        findings.extend(_option_findings(model, obj, locus))
        expected = {k: v for k, v in expected.items() if k not in option_fields}
    if ref.is_cert_type(model['t']):
        inner = _key_parse_findings(model['signature_key'], obj.signature_key, locus)
        if inner:
            findings.extend(inner)
            expected = {k: v for k, v in expected.items() if k != 'signature_key'}
    path = diff(expected, got)
    if path is not None:
        holder = expected_class
        if path.split('.')[0] in ('valid_after', 'valid_before', 'serial', 'key_id', 'principals', 'nonce', 'reserved', 'type'):
            holder = 'SshHostCertificateV01Base' if model['t'].endswith(ref.CERT_V01_SUFFIX) else 'SshHostCertificateV00Base'
        key = 'parse-differs:%s/%s' % (path, holder)
        if _is_late_validity(model, path):
            key = 'parse-differs:validity-64bit/ParserBinary.parse_timestamp'
        findings.append(Finding(key, {'field': path, 'expected': _short(_at(expected, path)), 'got': _short(_at(got, path)),
                                      'outer': locus}))
    return findings


# ---------------------------------------------------------------------------------------------------
# check_case
# ---------------------------------------------------------------------------------------------------

def _plain_keys(model):
    """Every plain key model contained in a message / certificate / key model."""
    if 'host_key' in model:
        return _plain_keys(model['host_key'])
    if ref.is_cert_type(model.get('t', '')):
        return [model['key']] + _plain_keys(model['signature_key'])
    return [model] if model.get('t') in KEY_CLASSES else []


def _constructible(model):
    """PublicKey.from_params() (cryptodatahub) refuses these ECDSA shapes with ValueError / OverflowError, and a
    compressed point has no representation in PublicKeyParamsEcdsa: outside the constructors' domain."""
    for key in _plain_keys(model):
        if key.get('compressed') or _ec_condition(key) in ('zero-coordinate', 'power-of-256-coordinate'):
            return False
    return True


def _ec_root_cause(model, exc_name):
    """'PublicKeyParamsEcdsa:<condition>' when an arithmetic error meets an ECDSA key in a known bad shape."""
    if exc_name not in ('ValueError', 'OverflowError', 'InvalidValue'):
        return None
    for key in _plain_keys(model):
        condition = _ec_condition(key)
        if condition in ('zero-coordinate', 'power-of-256-coordinate'):
            return 'PublicKeyParamsEcdsa:' + condition
    return None


def locate_parse_failure(model):
    """(exception name, locus) of the innermost part whose own reference encoding is rejected, or None."""
    L = lib()
    K = L.key

    def attempt(parser_class, data):
        try:
            parser_class.parse_exact_size(data)
        except Exception as e:  # pylint: disable=broad-except
            return type(e).__name__
        return None
    if 'host_key' in model:
        failed = attempt(K.SshHostPublicKeyVariant, ref.encode_key(model['host_key']))
        if failed is None:
            return None
        return locate_parse_failure(model['host_key']) or (failed, KEY_CLASSES[model['host_key']['t']])
    kind = model.get('t', '')
    if not ref.is_cert_type(kind):
        if kind.startswith('ecdsa-sha2-'):
            failed = attempt(getattr(K, KEY_CLASSES[kind]), ref.encode_key(model))
            if failed is not None:
                if model.get('compressed'):
                    return failed, 'SshHostKeyECDSA:compressed-point'
                root = _ec_root_cause(model, failed)
                if root:
                    return failed, root
        return None
    vectors = {'critical': K.SshCertCriticalOptionVector, 'extensions': K.SshCertExtensionVector,
               'constraints': K.SshCertConstraintVector}
    for field in OPTION_FIELDS:
        if field in model:
            failed = attempt(vectors[field], ref.encode_options(model[field]))
            if failed is not None:
                for option in model[field]:
                    alone = attempt(vectors[field], ref.encode_options([option]))
                    if alone == failed and option['name'] not in L.option_names and any(
                            option['name'].startswith(code) for code in L.option_names):
                        # an unknown name that merely starts with a known one
                        return failed, 'SshCertExtensionParsed:name-prefix'
                return failed, vectors[field].__name__
    for part in (model['signature_key'], model['key']):
        failed = attempt(K.SshHostPublicKeyVariant, ref.encode_key(part))
        if failed is not None:
            return locate_parse_failure(part) or (failed, KEY_CLASSES[part['t']])
    return None


def _construct(builder, model, locus):
    try:
        return builder(model), []
    except Exception as e:  # pylint: disable=broad-except
        name = type(e).__name__
        where = _ec_root_cause(model, name) if 't' in model else None
        if where is None and 't' in model:
            for key in _plain_keys(model):
                if key is not model:
                    try:
                        lib_public_key(key)
                    except Exception as inner:  # pylint: disable=broad-except
                        if type(inner).__name__ == name:
                            where = KEY_CLASSES[key['t']]
                            break
        return None, [Finding('construct-fails:%s/%s' % (name, where or locus), {
            'error': _short(e), 'model': _short(model, 400), 'outer': locus})]


def _parse(parser_class, data, locus, entry='parse_exact_size', model=None):
    try:
        return getattr(parser_class, entry)(data), []
    except Exception as e:  # pylint: disable=broad-except
        name, where = type(e).__name__, locus
        inner = locate_parse_failure(model) if model is not None else None
        if inner is not None:
            name, where = inner
        return None, [Finding('parse-fails:%s/%s' % (name, where), {
            'error': _short(e), 'entry': '%s.%s' % (parser_class.__name__, entry), 'wire': _short(data, 300),
            'outer': locus})]


def _check_banner(case):
    L = lib()
    model = decode(case['model'])
    sw = model['sw']
    software = software_string(sw)
    ref_model = {'proto': '%d.%d' % tuple(model['proto']), 'software': software, 'comment': model.get('comment')}
    reference = ref.encode_banner(ref_model)
    if ref.decode_banner(reference) != ref_model:
        raise AssertionError('reference banner codec is not self-consistent: %r' % (ref_model,))
    findings = []
    locus = 'SshProtocolMessage'
    canonical = 'raw' in sw or sw['vendor'] in L.vendors
    if case.get('construct', True) and canonical:
        obj, failed = _construct(lib_banner, model, locus)
        findings.extend(failed)
        if obj is not None:
            findings.extend(_compose_findings({}, obj, reference, locus))
    parsed, failed = _parse(L.sub.SshProtocolMessage, reference, locus)
    findings.extend(failed)
    if parsed is not None:
        got, got_class = banner_model(parsed)
        expected = {'proto': list(model['proto']), 'software': software, 'comment': model.get('comment')}
        path = diff(expected, got)
        if path is not None:
            where = locus
            if path == 'software':
                where = got_class if got_class == 'SshSoftwareVersionUnparsed' else 'SshSoftwareVersionParsedBase'
            findings.append(Finding('parse-differs:%s/%s' % (path, where), {
                'wire': _short(reference), 'expected': _short(expected[path]), 'got': _short(got.get(path))}))
        elif case.get('expect_class'):
            expected_class = (L.vendors[sw['vendor']].__name__ if 'vendor' in sw and sw['vendor'] in L.vendors
                              else 'SshSoftwareVersionUnparsed')
            if got_class != expected_class:
                findings.append(Finding('wrong-type/%s' % expected_class, {'wire': _short(reference), 'got_class': got_class}))
    return findings


def _wire_fields(model):
    """The model without the adapter-only field zone_minutes (at any depth)."""
    if isinstance(model, dict):
        return {name: _wire_fields(value) for name, value in model.items() if name != 'zone_minutes'}
    if isinstance(model, list):
        return [_wire_fields(item) for item in model]
    return model


def message_reference(model):
    model = _wire_fields(model)
    reference = ref.encode_message(model)
    context = MESSAGE_CONTEXT[model['t']][0]
    if ref.decode_message(reference, context) != ref.generic_message(model):
        raise AssertionError('reference message codec is not self-consistent for %r' % (model['t'],))
    return reference


def key_reference(model):
    model = _wire_fields(model)
    reference = ref.encode_key(model)
    if diff(ref.generic_key(model), ref.decode_key(reference)) is not None:
        raise AssertionError('reference key codec is not self-consistent for %r' % (model['t'],))
    return reference


def _message_parse_findings(model, parsed, locus):
    kind = model['t']
    if type(parsed).__name__ != locus:
        return [Finding('wrong-type/%s' % locus, {'got_class': type(parsed).__name__})]
    findings = []
    expected = ref.generic_message(_wire_fields(model))
    if 'host_key' in model:
        inner = _key_parse_findings(model['host_key'], parsed.host_public_key, locus)
        if inner:
            return inner
    try:
        got = message_model(parsed, kind)
    except Exception as e:  # pylint: disable=broad-except
        return [Finding('parse-fails:%s/%s' % (type(e).__name__, locus), {'error': _short(e), 'stage': 'reading attributes'})]
    path = diff(expected, got)
    if path is not None:
        findings.append(Finding('parse-differs:%s/%s' % (path, locus), {
            'expected': _short(_at(expected, path)), 'got': _short(_at(got, path))}))
    return findings


def _check_message(case):
    L = lib()
    model = decode(case['model'])
    kind = model['t']
    locus = MESSAGE_CLASSES[kind]
    reference = message_reference(model)
    findings = []
    obj, failed = _construct(lib_message, model, locus) if _constructible(model) else (None, [])
    findings.extend(failed)
    if obj is not None:
        findings.extend(_compose_findings(model, obj, reference, locus))
    cls = getattr(L.sub, locus)
    parsed, failed = _parse(cls, reference, locus, model=model)
    findings.extend(failed)
    if parsed is not None:
        findings.extend(_message_parse_findings(model, parsed, locus))
        # the same bytes through a variant (what a record does) must give the same message
        variant = L.variants[MESSAGE_CONTEXT[kind][1][-1]]
        through, failed = _parse(variant, reference, locus, model=model)
        findings.extend(failed)
        if through is not None and not findings:
            findings.extend(_message_parse_findings(model, through, locus))
    return _dedupe(findings)


def _check_key(case):
    L = lib()
    model = decode(case['model'])
    locus = KEY_CLASSES[model['t']]
    reference = key_reference(model)
    findings = []
    if case.get('construct', True) and _constructible(model):
        obj, failed = _construct(lib_key, model, locus)
        findings.extend(failed)
        if obj is not None:
            findings.extend(_compose_findings(model, obj, reference, locus))
            if not findings and model.get('principals'):
                findings.extend(_edited_principal(model, locus))
    for parser_class in (L.key.SshHostPublicKeyVariant, getattr(L.key, locus)):
        parsed, failed = _parse(parser_class, reference, locus, model=model)
        findings.extend(failed)
        if parsed is not None:
            findings.extend(_key_parse_findings(model, parsed, locus))
    return _dedupe(findings)


def _edited_principal(model, locus):
    """A principal renamed in place on the built certificate (the list is a vector of mutable strings): compose() must
    give the reference encoding of the model with the new name."""
    import copy  # pylint: disable=import-outside-toplevel
    obj = lib_key(model)
    index = len(model['principals']) // 2
    edited = copy.deepcopy(model)
    edited['principals'][index] = model['principals'][index] + 'xy'
    obj.valid_principals[index].value = edited['principals'][index]
    try:
        reference = key_reference(edited)
    except Exception:  # pylint: disable=broad-except
        return []
    try:
        composed = bytes(obj.compose())
    except Exception as e:  # pylint: disable=broad-except
        return [Finding('edited-compose-raises:%s/SshCertValidPrincipals' % type(e).__name__, {'outer': locus, 'error': _short(e)})]
    if composed != reference:
        position = next((i for i, (a, b) in enumerate(zip(composed, reference)) if a != b), min(len(composed), len(reference)))
        return [Finding('edited-compose-differs/SshCertValidPrincipals', {
            'outer': locus, 'edit': 'valid_principals[%d].value + "xy"' % index, 'first_difference_at': position,
            'composed_length': len(composed), 'reference_length': len(reference)})]
    return []


def packet_message(spec):
    """Message model of exactly spec['length'] payload bytes (see _packet_specs)."""
    length, shape, seed = spec['length'], spec['shape'], spec.get('seed', 0)
    if shape == 'newkeys':
        return {'t': 'newkeys'}
    if shape in ('ecdh_init',):
        return {'t': 'ecdh_init', 'q': gen_bytes(length - 5, seed)}
    if shape == 'gex_init':
        # an mpint body of length-5 bytes: a positive number with that many body octets
        body = length - 5
        if body == 0:
            return {'t': 'gex_init', 'e': 0}
        value = int.from_bytes(gen_bytes(body, seed), 'big') | (1 << (8 * body - 2))
        value &= (1 << (8 * body - 1)) - 1
        return {'t': 'gex_init', 'e': value}
    if shape == 'disconnect':
        language = 'en' if length >= 15 else ''
        size = length - 13 - len(language)
        text = ''.join(chr(0x20 + byte % 0x5f) for byte in gen_bytes(size, seed))
        return {'t': 'disconnect', 'reason': 1 + seed % 15, 'description': text, 'language': language}
    if shape == 'kexinit':
        msg = {'t': 'kexinit', 'cookie': gen_bytes(16, seed), 'follows': bool(seed & 1), 'reserved': 0}
        for field in ref.KEXINIT_LISTS:
            msg[field] = []
        msg['kex'], msg['enc_c2s'], msg['mac_s2c'], msg['cmp_c2s'] = ['curve25519-sha256'], ['aes128-ctr'], ['hmac-sha2-256'], ['none']
        rest = length - len(ref.encode_message(msg))
        if rest < 0:
            msg['kex'], msg['enc_c2s'], msg['mac_s2c'], msg['cmp_c2s'] = [], [], [], []
            rest = length - 62
        names = []
        stream = gen_bytes(rest, seed + 1)
        alphabet = 'abcdefghijklmnopqrstuvwxyz0123456789-@._'
        used = 0
        while rest > 0:
            take = min(rest, 64)
            if rest - take == 1:          # a comma alone cannot follow: leave room for one more character
                take -= 1
            names.append(''.join(alphabet[b % 40] for b in stream[used:used + take]))
            used += take
            rest -= take
            if rest:
                rest -= 1                 # the separating comma
        msg['hostkey'] = names
        return msg
    raise ValueError(shape)


def _check_packet(case):
    L = lib()
    spec = case['packet']
    model = packet_message(spec)
    kind = model['t']
    payload = message_reference(model)
    if len(payload) != spec['length']:
        raise AssertionError('packet shape %r built %d payload bytes instead of %d' % (spec['shape'], len(payload), spec['length']))
    record_name = spec['record']
    record_class = L.records[record_name]
    locus = record_class.__name__
    findings = []
    message, failed = _construct(lib_message, model, MESSAGE_CLASSES[kind])
    findings.extend(failed)
    if message is not None:
        try:
            composed = bytes(record_class(message).compose())
        except Exception as e:  # pylint: disable=broad-except
            composed = None
            findings.append(Finding('compose-raises:%s/%s' % (type(e).__name__, locus), {'error': _short(e), 'payload_length': len(payload)}))
        if composed is not None:
            for rule in ref.packet_violations(composed, payload):
                findings.append(Finding('packet-invalid:%s/%s' % (rule, locus), {
                    'payload_length': len(payload), 'total_length': len(composed), 'header': composed[:5].hex()}))
    pads = ref.conformant_padding_lengths(len(payload))
    if spec.get('pads') not in (None, 'all'):
        pads = [pad for pad in spec['pads'] if pad in pads]
    rng = random.Random(spec.get('seed', 0) * 1000003 + spec['length'])
    expected = ref.generic_message(_wire_fields(model))
    for pad in pads:
        fill = spec.get('fill', 'random')
        padding = bytes(rng.getrandbits(8) for _ in range(pad)) if fill == 'random' else bytes([int(fill)]) * pad
        packet = ref.encode_packet(payload, padding)
        try:
            record, consumed = record_class.parse_immutable(packet)
        except Exception as e:  # pylint: disable=broad-except
            findings.append(Finding('parse-fails:%s/%s' % (type(e).__name__, locus), {
                'error': _short(e), 'payload_length': len(payload), 'padding_length': pad, 'header': packet[:5].hex(),
                'message': kind}))
            continue
        if consumed != len(packet):
            findings.append(Finding('parse-differs:consumed/%s' % locus, {
                'payload_length': len(payload), 'padding_length': pad, 'consumed': consumed, 'total': len(packet)}))
        inner = record.packet
        if type(inner).__name__ != MESSAGE_CLASSES[kind]:
            findings.append(Finding('wrong-type/%s' % locus, {'got_class': type(inner).__name__, 'message': kind}))
            continue
        path = diff(expected, message_model(inner, kind))
        if path is not None:
            findings.append(Finding('parse-differs:payload/%s' % locus, {
                'payload_length': len(payload), 'padding_length': pad, 'field': path, 'message': kind}))
    return _dedupe(findings)


def _dedupe(findings):
    seen, out = set(), []
    for finding in findings:
        if finding.key not in seen:
            seen.add(finding.key)
            out.append(finding)
    return out


# The names the dispatch tables of the pinned tree know (written down: the adapter above looks classes up in the live
# tables, and an oracle that asks the code under test what to expect follows it when a table loses an entry - the
# vendor or option is then silently handled as "unknown").  Only the presence of the names is pinned, not the class
# names behind them: a renamed class is not a deviation.
PINNED_TABLES = {
    'vendors': ('cryptlib', 'dropbear', 'IPSSH', 'Monaca', 'OpenSSH'),
    'critical': ('force-command', 'source-address'),
    'extensions': ('no-presence-required', 'permit-X11-forwarding', 'permit-agent-forwarding', 'permit-port-forwarding',
                   'permit-pty', 'permit-user-rc'),
}
PINNED_TABLES['constraints'] = PINNED_TABLES['extensions'] + PINNED_TABLES['critical']


def _check_tables(_case):
    L = lib()
    live = dict(L.option_tables, vendors=L.vendors)
    findings = []
    for table, pinned in sorted(PINNED_TABLES.items()):
        for name in pinned:
            if live[table].get(name) is None:
                findings.append(Finding('wrong-type/%s:%s' % (table, name), {
                    'table': table, 'name': name, 'what': 'no class is dispatched to for this name any more'}))
    return findings


_CHECKERS = {'banner': _check_banner, 'message': _check_message, 'key': _check_key, 'packet': _check_packet,
             'tables': _check_tables}


@_guard
def check_case(case):
    return _CHECKERS[case['kind']](case)


# ---------------------------------------------------------------------------------------------------
# strategies (models in JSON form)
# ---------------------------------------------------------------------------------------------------

NAME_ALPHABET = ''.join(chr(c) for c in range(0x21, 0x7f) if chr(c) != ',')
PRINTABLE = ''.join(chr(c) for c in range(0x20, 0x7f))
NOSPACE = ''.join(chr(c) for c in range(0x21, 0x7f))
COMMON_BITS = (0, 1, 2, 7, 8, 9, 15, 16, 17, 31, 32, 33, 63, 64, 65, 159, 160, 161, 255, 256, 257, 1023, 1024, 1025,
               2047, 2048, 2049, 3071, 3072, 3073, 4095, 4096)
NETWORKS = ('10.0.0.0/8', '192.168.0.0/16', '127.0.0.1/32', '0.0.0.0/0', '172.16.0.0/12', '2001:db8::/32', '::1/128',
            'fe80::/10', '198.51.100.0/24')
FLAG_EXTENSIONS = ('no-presence-required', 'permit-X11-forwarding', 'permit-agent-forwarding', 'permit-port-forwarding',
                   'permit-pty', 'permit-user-rc', 'no-touch-required')


def shaped_int(bits, shape, seed):
    if bits <= 0:
        return 0
    top = 1 << (bits - 1)
    if shape == 'top':
        return top
    if shape == 'ones':
        return (1 << bits) - 1
    if shape == 'top+1':
        return top | 1
    if shape == 'ones-zeros':
        return ((1 << bits) - 1) ^ ((1 << (seed % bits)) - 1)
    return top | (int.from_bytes(gen_bytes((bits + 7) // 8, seed), 'big') & (top - 1))


def st_bits(max_bits=4096):
    limit = max_bits // 8
    boundary = st.builds(lambda k, d: 8 * k + d,
                         st.one_of(st.integers(1, min(16, limit)), st.integers(1, min(130, limit)), st.integers(1, limit)),
                         st.sampled_from((-1, 0, 1)))
    return st.one_of(boundary, boundary, st.sampled_from([b for b in COMMON_BITS if b <= max_bits]), st.integers(0, min(70, max_bits))
                     ).map(lambda bits: max(0, min(bits, max_bits)))


def st_bigint(max_bits=4096, min_value=0):
    return st.builds(shaped_int, st_bits(max_bits), st.sampled_from(('top', 'ones', 'top+1', 'ones-zeros', 'random', 'random', 'random')),
                     st.integers(0, 2 ** 32 - 1)).map(lambda value: max(value, min_value))


def st_blob(max_size=80, sizes=None):
    """Octet strings: small ones literally, larger ones by (length, seed)."""
    small = st.binary(min_size=0, max_size=min(24, max_size)).map(jbytes)
    size = st.sampled_from(sizes) if sizes else st.integers(0, max_size)
    large = st.builds(lambda n, seed: {'gen': [n, seed]}, size, st.integers(0, 2 ** 32 - 1))
    return st.one_of(small, large)


def _mutate_name(name, how):
    if how == 0:
        out = name + 'x'
    elif how == 1:
        out = name[:-1]
    elif how == 2:
        out = name.upper() if name.upper() != name else name.lower()
    elif how == 3:
        out = 'x-' + name
    elif how == 4:
        out = name.split('@')[0] + '@example.com'
    else:
        out = name + '@'
    return out[:64]


def _valid_name(name):
    try:
        ref.check_name(name)
    except ValueError:
        return False
    return True


# names met on real wires whatever the library's tables say about them: the RFC 8308 / OpenSSH negotiation indicators
# that travel inside the kex list, post-quantum hybrids, vendor-suffixed names
WILD_NAMES = ('ext-info-c', 'ext-info-s', 'kex-strict-c-v00@openssh.com', 'kex-strict-s-v00@openssh.com',
              'sntrup761x25519-sha512', 'sntrup761x25519-sha512@openssh.com', 'mlkem768x25519-sha256', 'none',
              'zlib@openssh.com', 'hmac-sha2-256-etm@openssh.com', 'chacha20-poly1305@openssh.com',
              'aes128-gcm@openssh.com', 'rsa-sha2-512', 'ssh-ed25519-cert-v01@openssh.com',
              'webauthn-sk-ecdsa-sha2-nistp256@openssh.com', 'curve25519-sha256@libssh.org')


def st_name_list(known):
    sample = st.one_of(st.sampled_from(known), st.sampled_from(known), st.sampled_from(known), st.sampled_from(known),
                       st.sampled_from(WILD_NAMES))
    unknown = st.text(alphabet=NAME_ALPHABET, min_size=1, max_size=64)
    short_unknown = st.text(alphabet='abcdefghijklmnopqrstuvwxyz0123456789-@.', min_size=1, max_size=20)
    near = st.builds(_mutate_name, sample, st.integers(0, 5)).filter(_valid_name)
    name = st.one_of(sample, sample, sample, short_unknown, unknown, near)
    return st.one_of(
        st.just([]),
        st.lists(name, min_size=1, max_size=10),
        st.lists(name, min_size=1, max_size=4),
        st.lists(sample, min_size=1, max_size=min(40, len(known)), unique=True),
        st.lists(st.one_of(short_unknown, near), min_size=1, max_size=3),
    )


def st_language_tag():
    alpha = 'abcdefghijklmnopqrstuvwxyzABCDEFGHIJKLMNOPQRSTUVWXYZ'
    return st.builds(lambda primary, rest: '-'.join([primary] + rest),
                     st.text(alphabet=alpha, min_size=1, max_size=8),
                     st.lists(st.text(alphabet=alpha + '0123456789', min_size=1, max_size=8), max_size=2))


def st_kexinit():
    names = known_names()
    languages = st.one_of(st.just([]), st.just([]), st.just([]), st.lists(st_language_tag(), min_size=1, max_size=2))
    fields = {
        't': st.just('kexinit'), 'cookie': st.one_of(st.binary(min_size=16, max_size=16).map(jbytes),
                                                     st.integers(0, 2 ** 32 - 1).map(lambda seed: {'gen': [16, seed]})),
        'kex': st_name_list(names['kex']), 'hostkey': st_name_list(names['hostkey']),
        'enc_c2s': st_name_list(names['enc']), 'enc_s2c': st_name_list(names['enc']),
        'mac_c2s': st_name_list(names['mac']), 'mac_s2c': st_name_list(names['mac']),
        'cmp_c2s': st_name_list(names['cmp']), 'cmp_s2c': st_name_list(names['cmp']),
        'lang_c2s': languages, 'lang_s2c': languages, 'follows': st.booleans(),
        'reserved': st.one_of(st.just(0), st.just(0), st.just(0), st.sampled_from((1, 0x7fffffff, 0x80000000, 0xffffffff)),
                              st.integers(0, 0xffffffff)),
    }
    return st.fixed_dictionaries(fields)


def st_uint32():
    return st.one_of(st.sampled_from((0, 1, 255, 256, 65535, 65536, 0x7fffffff, 0x80000000, 0xfffffffe, 0xffffffff)),
                     st.integers(0, 0xffffffff))


def st_uint64():
    return st.one_of(st.sampled_from((0, 1, 0xffffffff, 0x100000000, 0x7fffffffffffffff, 0x8000000000000000,
                                      0xfffffffffffffffe, 0xffffffffffffffff)), st.integers(0, 0xffffffffffffffff),
                     st.integers(0, 1000))


def _on_curve_point(curve, seed, odd):
    prime, _ = ref.CURVE_PARAMS[curve]
    x = int.from_bytes(gen_bytes(ref.CURVES[curve], seed), 'big') % prime
    while True:
        y = ref.ec_lift_x(curve, x, odd)
        if y is not None and x > 0 and y > 0:
            return x, y
        x = (x + 1) % prime


def st_ecdsa_fields(for_parse_only=True):
    def build(curve, xb, yb, shape_x, shape_y, seed, mode):
        prime, _ = ref.CURVE_PARAMS[curve]
        width = ref.CURVES[curve]
        out = {'t': 'ecdsa-sha2-' + curve, 'curve': curve}
        if mode == 'compressed':
            x, y = _on_curve_point(curve, seed, bool(seed & 1))
            out['compressed'] = True
        else:
            bits = prime.bit_length()
            x = shaped_int(min(xb, bits), shape_x, seed) % prime or 1
            y = shaped_int(min(yb, bits), shape_y, seed + 1) % prime or 1
            if mode == 'full':
                probe = {'t': out['t'], 'curve': curve, 'x': x, 'y': y}
                if _ec_condition(probe) is not None:     # a realistic key: at least one full-width, non-degenerate coordinate
                    x = shaped_int(bits, 'random', seed + 2) % prime
                    if _ec_condition(dict(probe, x=x)) is not None:
                        x = (prime >> 1) | 5
            if mode == 'zero':
                x = 0
        out['x'], out['y'] = jint(x), jint(y)
        return out
    modes = ['full'] * 12 + ['any'] * 3 + (['compressed', 'zero'] if for_parse_only else [])
    shapes = st.sampled_from(('top', 'ones', 'random', 'random', 'random', 'ones-zeros'))
    return st.builds(build, st.sampled_from(sorted(ref.CURVES)), st_bits(528), st_bits(528), shapes, shapes,
                     st.integers(0, 2 ** 32 - 1), st.sampled_from(modes))


def st_plain_key(min_value=0, ecdsa_special=True):
    big = lambda bits=4096: st_bigint(bits, min_value).map(jint)  # noqa: E731
    exponent = st.one_of(st.sampled_from((3, 17, 65537, 2 ** 32 + 1)).map(jint), big(64), big())
    rsa = st.fixed_dictionaries({'t': st.just('ssh-rsa'), 'e': exponent, 'n': big()})
    dss = st.fixed_dictionaries({'t': st.just('ssh-dss'), 'p': big(3072), 'q': st.one_of(big(256), big(1024)),
                                 'g': big(3072), 'y': big(3072)})
    ed25519 = st.fixed_dictionaries({'t': st.just('ssh-ed25519'), 'pk': st.one_of(
        st.binary(min_size=32, max_size=32).map(jbytes), st.integers(0, 2 ** 32 - 1).map(lambda seed: {'gen': [32, seed]}))})
    return st.one_of(rsa, rsa, dss, st_ecdsa_fields(ecdsa_special), st_ecdsa_fields(ecdsa_special), ed25519)


def _sorted_options(options):
    seen, out = set(), []
    for option in sorted(options, key=lambda item: item['name'].encode('ascii')):
        if option['name'] not in seen:
            seen.add(option['name'])
            out.append(option)
    return out


def st_unknown_option(known_names_):
    base = st.one_of(
        st.sampled_from(('foo@example.com', 'verify-required', 'x', 'zzz@openssh.com', 'permit-pt', 'force-comman')),
        st.builds(lambda name, how: _mutate_name(name, how), st.sampled_from(known_names_), st.sampled_from((0, 4, 5))),
        st.text(alphabet='abcdefghijklmnopqrstuvwxyz-@.', min_size=1, max_size=24),
    ).filter(lambda name: name not in known_names_)
    flag = st.fixed_dictionaries({'name': base, 'kind': st.just('flag')})
    string = st.fixed_dictionaries({'name': base, 'kind': st.just('string'), 'value': st.text(alphabet=PRINTABLE, max_size=20)})
    raw = st.fixed_dictionaries({'name': base, 'kind': st.just('raw'), 'data': st.binary(max_size=16).map(jbytes)})
    return st.one_of(flag, string, raw)


def st_critical_options():
    force = st.fixed_dictionaries({'name': st.just('force-command'), 'kind': st.just('string'),
                                   'value': st.text(alphabet=PRINTABLE, max_size=40)})
    source = st.fixed_dictionaries({'name': st.just('source-address'), 'kind': st.just('string'),
                                    'value': st.lists(st.sampled_from(NETWORKS), min_size=1, max_size=3, unique=True).map(','.join)})
    unknown = st_unknown_option(('force-command', 'source-address'))
    return st.one_of(st.just([]), st.just([]), st.lists(st.one_of(force, source, unknown, unknown), max_size=4).map(_sorted_options))


def st_extensions():
    flag = st.fixed_dictionaries({'name': st.sampled_from(FLAG_EXTENSIONS), 'kind': st.just('flag')})
    unknown = st_unknown_option(FLAG_EXTENSIONS[:6])
    return st.one_of(st.just([]), st.lists(st.one_of(flag, flag, flag, unknown), max_size=8).map(_sorted_options))


def st_v00_constraints():
    flag = st.fixed_dictionaries({'name': st.sampled_from(FLAG_EXTENSIONS[:6]), 'kind': st.just('flag')})
    unknown = st.fixed_dictionaries({'name': st.sampled_from(('foo@example.com', 'x', 'zzz')), 'kind': st.just('raw'),
                                     'data': st.binary(max_size=12).map(jbytes)})
    return st.one_of(st.just([]), st.lists(st.one_of(flag, flag, unknown), max_size=5).map(_sorted_options))


def _signature_for(key, choice, blob):
    kind = key['t']
    names = ('ssh-rsa', 'rsa-sha2-256', 'rsa-sha2-512') if kind == 'ssh-rsa' else (kind,)
    return {'type': names[choice % len(names)], 'blob': blob}


def st_validity():
    instant = st.one_of(st.sampled_from((0, 1, 0x7fffffff, 0x80000000, 0xfffffffe, 0xffffffff)), st.integers(0, 0xffffffff),
                        st.integers(1500000000, 2000000000))
    late = st.one_of(st.sampled_from((0x100000000, 0x100000001, MAX_DATETIME_S)), st.integers(0x100000000, MAX_DATETIME_S))
    after = st.one_of(instant, instant, instant, instant, instant, instant, instant, instant, instant, late)
    before = st.one_of(st.just(FOREVER), instant, instant, st.just(FOREVER), instant, instant, instant, instant, instant, late)
    return st.tuples(after, before)


def st_certificate(min_value=0, versions=('v01', 'v01', 'v01', 'v00')):
    text = lambda limit: st.text(alphabet=PRINTABLE, max_size=limit)  # noqa: E731

    @st.composite
    def build(draw):
        version = draw(st.sampled_from(versions))
        plain = draw(st_plain_key(min_value, ecdsa_special=False))
        if version == 'v00' and plain['t'] not in ('ssh-rsa', 'ssh-dss'):
            version = 'v01'
        signature_key = draw(st_plain_key(min_value, ecdsa_special=False))
        valid_after, valid_before = draw(st_validity())
        out = {
            't': plain['t'] + (ref.CERT_V01_SUFFIX if version == 'v01' else ref.CERT_V00_SUFFIX),
            'key': plain, 'type': draw(st.sampled_from((1, 2))),
            'key_id': draw(st.one_of(text(30), st.text(alphabet=[chr(c) for c in range(0x80)], max_size=12))),
            'principals': draw(st.one_of(st.just([]), st.lists(st.text(alphabet=NOSPACE, min_size=1, max_size=20), min_size=1, max_size=4),
                                         st.lists(text(12), max_size=3))),
            'valid_after': valid_after, 'valid_before': valid_before,
            # the zone in which the adapter expresses the two instants when it builds the object (not on the wire)
            'zone_minutes': draw(st.sampled_from((0, 0, 0, 120, -330, 345, -720, 840))),
            'nonce': draw(st_blob(40, (0, 16, 32, 33))),
            'reserved': draw(st.one_of(st.just(jbytes(b'')), st.just(jbytes(b'')), st.just(jbytes(b'')), st_blob(12))),
            'signature_key': signature_key,
            'signature': _signature_for(signature_key, draw(st.integers(0, 2)), draw(st_blob(100, (0, 64, 83, 100, 271)))),
        }
        if version == 'v01':
            out['serial'] = draw(st_uint64())
            out['critical'] = draw(st_critical_options())
            out['extensions'] = draw(st_extensions())
        else:
            out['constraints'] = draw(st_v00_constraints())
        return out
    return build()


def st_any_key(min_value=0, ecdsa_special=True):
    return st.one_of(st_plain_key(min_value, ecdsa_special), st_certificate(min_value))


def st_other_message():
    big = lambda bits=4096: st_bigint(bits).map(jint)  # noqa: E731
    host_key = st.one_of(st_plain_key(0, False), st_plain_key(0, False), st_certificate())
    signature = st_blob(120, (0, 55, 83, 100, 271, 527))
    disconnect = st.fixed_dictionaries({
        't': st.just('disconnect'), 'reason': st.integers(1, 15),
        'description': st.one_of(st.text(max_size=60), st.text(alphabet=PRINTABLE, max_size=80), st.just('')),
        'language': st.one_of(st.sampled_from(('', 'en', 'en-US', 'US', 'de-CH-1996')), st_language_tag())})
    options = [
        disconnect,
        st.fixed_dictionaries({'t': st.just('unimplemented'), 'seq': st_uint32()}),
        st.just({'t': 'newkeys'}),
        st.fixed_dictionaries({'t': st.just('kexdh_init'), 'e': big(8192)}),
        st.fixed_dictionaries({'t': st.just('kexdh_reply'), 'host_key': host_key, 'f': big(8192), 'sig': signature}),
        st.fixed_dictionaries({'t': st.just('ecdh_init'), 'q': st_blob(140, (0, 32, 56, 65, 97, 133))}),
        st.fixed_dictionaries({'t': st.just('ecdh_reply'), 'host_key': host_key, 'q': st_blob(140, (32, 56, 65, 97, 133)),
                               'sig': signature}),
        st.fixed_dictionaries({'t': st.just('gex_request'), 'min': st_uint32(), 'n': st_uint32(), 'max': st_uint32()}),
        st.fixed_dictionaries({'t': st.just('gex_group'), 'p': big(8192), 'g': st.one_of(st.sampled_from((2, 5)).map(jint), big())}),
        st.fixed_dictionaries({'t': st.just('gex_init'), 'e': big(8192)}),
        st.fixed_dictionaries({'t': st.just('gex_reply'), 'host_key': host_key, 'f': big(8192), 'sig': signature}),
    ]
    return st.one_of(options)


def st_banner():
    proto = st.one_of(st.sampled_from(([2, 0], [2, 0], [2, 0], [1, 99], [1, 5], [1, 3], [1, 0], [2, 1])),
                      st.tuples(st.sampled_from((1, 2)), st.integers(0, 120)).map(list))
    version_text = st.one_of(st.sampled_from(('8.9p1', '7.4', '2020.81', '6.6.0', '9.6', '3.4_hpn', '1')),
                             st.text(alphabet=NOSPACE, min_size=1, max_size=24))
    vendors = sorted(VENDOR_SEPARATORS)

    def vendor_model(vendor, version, with_version):
        separator = VENDOR_SEPARATORS[vendor]
        if separator is not None:
            version = version.lstrip(separator)      # "OpenSSH__1" is not the canonical spelling of any version
        if separator is None or not with_version or not version:
            return {'vendor': vendor, 'version': None}
        return {'vendor': vendor, 'version': version}
    canonical = st.builds(vendor_model, st.sampled_from(vendors), version_text, st.booleans())
    raw = st.one_of(st.sampled_from(('libssh_0.9.6', 'libssh2_1.10.0', 'Cisco-1.25', 'ROSSSH', 'mod_sftp', 'x', 'WeOnlyDo_2.4.3')),
                    st.text(alphabet=NOSPACE, min_size=1, max_size=40))

    def is_plain_unknown(text):
        for vendor, separator in VENDOR_SEPARATORS.items():
            if text == vendor or (separator is not None and text.split(separator)[0] == vendor):
                return False
        return True
    unknown = raw.filter(is_plain_unknown).map(lambda text: {'raw': text})
    near = st.builds(lambda vendor, how, tail: {'raw': [vendor + '_', vendor + '__' + tail, vendor + '-', vendor + '--' + tail,
                                                        vendor.lower() + '_' + tail, vendor + tail, vendor.upper() + '-' + tail][how]},
                     st.sampled_from(vendors), st.integers(0, 6), st.sampled_from(('1', '8.9', 'x')))
    comment = st.one_of(st.none(), st.none(), st.sampled_from(('Ubuntu-3ubuntu0.6', 'Debian-5', 'FreeBSD-20200214', 'a  b', 'x ')),
                        st.text(alphabet=PRINTABLE, min_size=1, max_size=60))

    def assemble(proto_, sw, comment_, near_miss):
        case = {'kind': 'banner', 'model': {'proto': proto_, 'sw': sw, 'comment': comment_}}
        if near_miss:
            case['construct'] = False          # ambiguous strings: only "parse, and get the same string back"
        else:
            case['expect_class'] = True
        return case

    def length_of(model):
        length = 4 + len('%d.%d' % tuple(model['proto'])) + 1 + len(software_string(model['sw'])) + 2
        if model['comment'] is not None:
            length += 1 + len(model['comment'])
        return length

    def fits(case):
        return length_of(case['model']) <= 255

    def stretched(case, target):
        """The same banner with its comment padded so that the whole line (CR LF included) is `target` octets long:
        RFC 4253 4.2 allows 255."""
        model = dict(case['model'])
        if model['comment'] is None:
            model['comment'] = 'c'
        missing = target - length_of(model)
        if missing < 0:
            return case
        model['comment'] = model['comment'] + 'c' * missing
        return dict(case, model=model)
    plain = st.builds(assemble, proto, st.one_of(canonical, canonical, unknown), comment, st.just(False)).filter(fits)
    at_limit = st.builds(stretched, plain, st.sampled_from((253, 254, 255, 255)))
    return st.one_of(
        at_limit,
        st.builds(assemble, proto, st.one_of(canonical, canonical, canonical, unknown), comment, st.just(False)),
        st.builds(assemble, proto, st.one_of(canonical, canonical, canonical, unknown), comment, st.just(False)),
        st.builds(assemble, proto, st.one_of(canonical, canonical, canonical, unknown), comment, st.just(False)),
        st.builds(assemble, proto, near, comment, st.just(True)),
    ).filter(fits)


def st_case():
    message = lambda strategy: strategy.map(lambda model: {'kind': 'message', 'model': model})  # noqa: E731
    key = lambda strategy: strategy.map(lambda model: {'kind': 'key', 'model': model})  # noqa: E731
    return st.one_of(
        st_banner(), st_banner(),
        message(st_kexinit()), message(st_kexinit()), message(st_kexinit()),
        message(st_other_message()), message(st_other_message()), message(st_other_message()),
        key(st_plain_key()), key(st_plain_key()), key(st_plain_key()),
        key(st_certificate()), key(st_certificate()),
    )


# ---------------------------------------------------------------------------------------------------
# observation (labels, classes, non-triviality) and shards
# ---------------------------------------------------------------------------------------------------

def _key_features(key, stats, labels):
    """Walk a decoded key model; returns True when a parameter has its top bit at a byte boundary."""
    kind = key['t']
    stats.cls(KEY_CLASSES[kind])
    top = False
    if ref.is_cert_type(kind):
        labels.add('cert:v01' if kind.endswith(ref.CERT_V01_SUFFIX) else 'cert:v00')
        if key['valid_before'] == FOREVER:
            labels.add('cert:forever')
        if key['valid_after'] >= 1 << 32 or (key['valid_before'] != FOREVER and key['valid_before'] >= 1 << 32):
            labels.add('cert:validity>32bit')
        if key['principals']:
            labels.add('cert:principals')
        for field in OPTION_FIELDS:
            for option in key.get(field, ()):
                labels.add('cert:%s' % field)
                stats.cls(lib_option(option, field)[1])
        top = _key_features(key['key'], stats, labels) or top
        top = _key_features(key['signature_key'], stats, labels) or top
        return top
    for name in ('e', 'n', 'p', 'q', 'g', 'y', 'x'):
        value = key.get(name)
        if isinstance(value, int):
            if value and value.bit_length() % 8 == 0:
                top = True
                labels.add('mpint:top-bit-set')
            elif value.bit_length() % 8 == 7:
                labels.add('mpint:8k-1')
            elif value.bit_length() % 8 == 1:
                labels.add('mpint:8k+1')
            if value == 0:
                labels.add('mpint:zero')
    if kind.startswith('ecdsa-sha2-'):
        if key.get('compressed'):
            labels.add('ecdsa:compressed')
        elif _ec_short_point(key):
            labels.add('ecdsa:both-coordinates-short')
    return top


def observe(case, stats):
    """Record labels / classes / non-triviality of one case; returns its reference encoding."""
    kind = case['kind']
    labels = {kind}
    nontrivial = False
    if kind == 'banner':
        model = case['model']
        sw = model['sw']
        reference = ref.encode_banner({'proto': '%d.%d' % tuple(model['proto']), 'software': software_string(sw),
                                       'comment': model.get('comment')})
        stats.cls('SshProtocolMessage')
        if 'vendor' in sw:
            stats.cls(lib().vendors[sw['vendor']].__name__ if sw['vendor'] in lib().vendors else 'SshSoftwareVersionUnparsed')
            labels.add('banner:vendor')
        elif case.get('construct', True):
            stats.cls('SshSoftwareVersionUnparsed')
            labels.add('banner:unknown-software')
        else:
            labels.add('banner:near-miss-software')
        labels.add('banner:proto-%d.%s' % (model['proto'][0], model['proto'][1] if model['proto'][1] in (0, 99) else 'x'))
        if model.get('comment') is not None:
            labels.add('banner:comment')
            nontrivial = True
        nontrivial = nontrivial or 'vendor' in sw
    elif kind == 'message':
        model = decode(case['model'])
        reference = ref.encode_message(model)
        stats.cls(MESSAGE_CLASSES[model['t']])
        labels.add('message:' + model['t'])
        if model['t'] == 'kexinit':
            tables = lib().names
            for field, (_, family) in KEXINIT_FIELDS.items():
                if model[field]:
                    nontrivial = True
                else:
                    labels.add('kexinit:empty-list')
                if family != 'lang' and any(name not in tables[family] for name in model[field]):
                    labels.add('kexinit:unknown-names')
                if family == 'lang' and model[field]:
                    labels.add('kexinit:languages')
            if model['follows']:
                labels.add('kexinit:first_kex_packet_follows')
            if model['reserved']:
                labels.add('kexinit:reserved-nonzero')
        elif 'host_key' in model:
            nontrivial = _key_features(model['host_key'], stats, labels) or bool(model['host_key'].get('principals'))
        for name in ('e', 'f', 'p', 'g'):
            value = model.get(name)
            if isinstance(value, int) and value and value.bit_length() % 8 == 0:
                labels.add('mpint:top-bit-set')
                nontrivial = True
        if model['t'] == 'disconnect' and model['description']:
            nontrivial = True
    elif kind == 'key':
        model = decode(case['model'])
        reference = ref.encode_key(model)
        top = _key_features(model, stats, labels)
        labels.add('key:' + KEY_CLASSES[model['t']])
        nontrivial = top or any(model.get(field) for field in ('principals', 'critical', 'extensions', 'constraints'))
    else:
        spec = case['packet']
        reference = b'packet:%d:%s:%s' % (spec['length'], spec['shape'].encode(), spec['record'].encode())
        stats.cls('SshRecord' + spec['record'])
        stats.cls(MESSAGE_CLASSES[spec['shape']])
        labels.add('packet:len%%8=%d' % (spec['length'] % 8))
        labels.add('packet:' + spec['shape'])
        nontrivial = True
    for label in sorted(labels):
        stats.label(label)
    if nontrivial:
        stats.nontriv(reference)
    return reference, labels, nontrivial


def _render(case, reference):
    text = jdump_short(case)
    return {'case': text, 'reference_encoding': reference[:48].hex() + ('...' if len(reference) > 48 else ''),
            'reference_length': len(reference)}


def jdump_short(case, limit=700):
    from vf.core.stats import jdump  # pylint: disable=import-outside-toplevel
    text = jdump(case)
    return text if len(text) <= limit else text[:limit] + '...(%d chars)' % len(text)


def case_fn(case, stats):
    stats.evaluated()
    reference, labels, nontrivial = observe(case, stats)
    if nontrivial:
        for label in sorted(labels):
            if label != case['kind']:
                stats.sample(label, _render(case, reference))
                break
    return check_case(case)


def packet_lengths(quick, seed_value):
    if not quick:
        return list(range(0, 35001))
    rng = random.Random(seed_value)
    lengths = set(range(0, 641))
    for multiple in range(0, 35001, 256):
        lengths.update(range(max(0, multiple - 3), min(35000, multiple + 3) + 1))
    lengths.update(range(32760, 32777))
    lengths.update(range(34984, 35001))
    while len(lengths) < 4000:
        lengths.add(8 * rng.randrange(0, 4375) + rng.choice((-1, 0, 1, 2, 3, 4)) if rng.random() < 0.6 else rng.randrange(0, 35001))
    return sorted(length for length in lengths if 0 <= length <= 35000)


def packet_specs(length, seed_value):
    """The packet cases of one payload length (deterministic in length and seed)."""
    if length == 1:
        return [{'length': 1, 'shape': 'newkeys', 'record': record} for record in ('KexDH', 'KexDHGroup')]
    if length < 5:
        return []
    pick = (length * 2654435761 + seed_value) & 0xffffffff
    specs = [{'length': length, 'shape': 'ecdh_init', 'record': 'KexDH', 'seed': pick & 0xffff}
             if pick & 1 else {'length': length, 'shape': 'gex_init', 'record': 'KexDHGroup', 'seed': pick & 0xffff}]
    extra = (pick >> 1) % 6
    records = ('Init', 'KexDH', 'KexDHGroup')
    # the other variable-length messages ride along with three padding lengths (smallest, largest, one in between):
    # whether a padding length is accepted does not depend on the message, and long name-lists are slow to parse
    pads = ref.conformant_padding_lengths(length)
    some = sorted({pads[0], pads[-1], pads[(pick >> 8) % len(pads)]})
    if extra == 0 and length >= 13:
        specs.append({'length': length, 'shape': 'disconnect', 'record': records[(pick >> 4) % 3], 'seed': pick & 0xffff,
                      'pads': some})
    elif extra == 1 and length >= 62:
        specs.append({'length': length, 'shape': 'kexinit', 'record': records[(pick >> 4) % 3], 'seed': pick & 0xffff,
                      'pads': some})
    return specs


def _shard(arg):
    stats = Stats()
    ref.selftest()
    if arg[0] == 'models':
        _, seed_value, count = arg
        hyp.explore(st_case(), case_fn, stats, count, seed_value)
        return stats
    _, lengths, seed_value = arg
    unreachable = 0
    for length in lengths:
        specs = packet_specs(length, seed_value)
        if not specs:
            unreachable += 1
        for spec in specs:
            case = {'kind': 'packet', 'packet': dict(spec, pads=spec.get('pads', 'all'))}
            for finding in case_fn(case, stats):
                stats.finding(finding, case)
            stats.add('packet_parses', len(spec['pads']) if 'pads' in spec else len(ref.conformant_padding_lengths(length)))
    stats.add('payload_lengths_covered', len(lengths) - unreachable)
    stats.add('payload_lengths_unreachable', unreachable)
    return stats


def fixed_cases():
    """The OpenSSH-made certificate, parsed only (its options are the real-world encoding)."""
    blob, model = ref.openssh_certificate_vector()

    def to_json(value):
        if isinstance(value, (bytes, bytearray)):
            return jbytes(value)
        if isinstance(value, dict):
            return {k: to_json(v) for k, v in value.items()}
        if isinstance(value, list):
            return [to_json(v) for v in value]
        return value
    return [{'kind': 'key', 'model': to_json(model), 'construct': False}]


def run(ctx):
    ref.selftest()
    stats = Stats()
    for case in fixed_cases():
        for finding in case_fn(case, stats):
            stats.finding(finding, case)
    for finding in check_case({'kind': 'tables'}):
        stats.finding(finding, {'kind': 'tables'})
    stats.label('fixed:openssh-certificate')
    model_shards = 32 if ctx.quick else 96
    per_shard = 950 if ctx.quick else 4700
    jobs = [('models', ctx.derive_seed('models', index), per_shard) for index in range(model_shards)]
    lengths = packet_lengths(ctx.quick, ctx.derive_seed('packet-lengths'))
    chunks = 32 if ctx.quick else 128
    for index in range(chunks):
        part = lengths[index::chunks]
        if part:
            jobs.append(('packets', part, ctx.derive_seed('packets') & 0xffff))
    # longest jobs first
    stats.merge(pool.run_shards(_shard, jobs))
    stats.extra['payload_lengths_requested'] = len(lengths)
    stats.extra['unreachable_payload_lengths'] = [0, 2, 3, 4]
    if not ctx.quick:
        stats.extra['every_payload_length_0_35000'] = True
    stats.extra.pop('shard_wall_s', None)
    return stats


def shrink(ctx, key, entry):
    case = entry['case']
    if case.get('kind') == 'packet':
        return None
    if case.get('kind') == 'banner':
        strategy = st_banner()
    elif case.get('kind') == 'key':
        kind = case['model']['t']
        strategy = (st_certificate() if ref.is_cert_type(kind) else st_plain_key()).map(lambda m: {'kind': 'key', 'model': m})
    else:
        kind = case['model']['t']
        strategy = (st_kexinit() if kind == 'kexinit' else st_other_message()).map(lambda m: {'kind': 'message', 'model': m})
    from vf.core.stats import jdump  # pylint: disable=import-outside-toplevel
    if len(jdump(case)) < 500:
        return None
    smaller, detail = hyp.shrink(strategy, lambda c, s: check_case(c), key, 400, ctx.derive_seed('shrink', key), box_s=3.0)
    if smaller is None or len(jdump(smaller)) >= len(jdump(case)):
        return None
    return smaller, detail
