# -*- coding: utf-8 -*-
"""C15 — JA3 of a client hello equals the published algorithm applied to its bytes.

Client-hello models (the C06 strategies) are encoded by the independent reference encoder, parsed by the
library, and `hello.ja3()` is compared with vf.ref.ja3.ja3(wire bytes) — a TLV walk that knows nothing of
cryptoparser.  The budget is split by construction into stratum S (no GREASE cipher suite, no SCSV in the
suite list: any mismatch is `ja3/other`) and stratum D (GREASE suites and/or SCSVs present: a mismatch is
attributed to a documented deviation only if the reference with exactly that deviation switched on reproduces
the library's string).
"""
from hypothesis import strategies as st

from vf.core import hyp, pool
from vf.core.lib import library_exceptions_are_findings as _guard
from vf.core.stats import Finding, Stats
from vf.props import c06
from vf.ref import ja3 as J
from vf.ref import tls as R

ID = 'C15'
LEVEL = 'exploration'
RULE = ('ClientHello models from the C06 strategies (any version, 1..60 known/unknown suites, 0..12 parsed, '
        'unparsed, unknown and GREASE extensions in any order, supported_groups / ec_point_formats present or '
        'absent with known, unknown and GREASE entries) are reference-encoded; four strata by construction: S = no '
        'GREASE suite and no SCSV, G = 1..3 GREASE suites, V = 1..3 SCSVs at arbitrary positions, GV = both. '
        'A case is non-trivial when the hello has >=2 cipher suites and >=1 extension; distinct by encoding.')
ASSUMPTIONS = [
    'vf/ref/ja3.py is the published definition: decimal values in wire order, "-" and "," separators, the 16 '
    'values of RFC 8701 removed from the suite, extension and group sections, nothing else touched',
    'point-format bytes that equal a one-byte GREASE value (0x0b, 0x2a, ...) are not judged: the published '
    'definition has no one-byte GREASE table, both "kept" and "removed" are accepted',
    'a mismatch in stratum D is attributed to ja3/grease-suite-kept or ja3/scsv-dropped only when the reference '
    'with exactly that deviation (or, for GV hellos, exactly both) reproduces the library string; anything else '
    'is ja3/other',
    'hellos the library refuses because the suite list holds only SCSVs are C06 territory and are skipped '
    '(counted under the label skipped:scsv-only)',
]

GREASE = frozenset(R.GREASE_TWO_BYTE)


def stratum_of(suites):
    grease = any(code in GREASE for code in suites)
    scsv = any(code in c06.SCSVS for code in suites)
    return {(False, False): 'S', (True, False): 'G', (False, True): 'V', (True, True): 'GV'}[grease, scsv]


def _variants(wire, **switches):
    return {J.ja3(wire, drop_grease_like_formats=drop, **switches) for drop in (False, True)}


_PROCESS = {'parsed_any': False}
# ServerHello (TLS 1.2) with extended_master_secret, renegotiation_info and ec_point_formats
SERVER_HELLO_FIRST = bytes.fromhex('020000350303' + '11' * 32 + '00' + 'c02f' + '00' + '000d' + '00170000' + 'ff01000100' + '000b00020100')


def evaluate(case):
    hello = dict((key, value) for key, value in case['hello'].items() if key != 'record_version')
    wire = R.encode(hello)
    findings = []
    info = {'wire': wire, 'stratum': stratum_of(hello['cipher_suites']), 'skipped': None}
    S = c06.lib().S
    if case.get('server_first') and not _PROCESS['parsed_any']:
        # the first hello this process ever parses is a server hello (a scanner reads the server's answer before it
        # ever sees a client hello): the value of a client hello must not depend on that
        c06._call(lambda: S.TlsHandshakeServerHello.parse_exact_size(SERVER_HELLO_FIRST))  # pylint: disable=protected-access
        info['server_first'] = True
    _PROCESS['parsed_any'] = True
    parsed, error = c06._call(lambda: S.TlsHandshakeClientHello.parse_exact_size(wire))  # pylint: disable=protected-access
    if error is not None:
        if not c06.split_scsv(hello['cipher_suites'])[0]:
            info['skipped'] = 'scsv-only'
            return findings, info
        findings.append(Finding('hello-rejected:%s' % type(error).__name__, {'wire': wire.hex()[:600], 'error': repr(error)[:300]}))
        return findings, info
    got, error = c06._call(parsed.ja3)  # pylint: disable=protected-access
    if error is not None:
        findings.append(Finding('ja3/raises:%s' % type(error).__name__, {'wire': wire.hex()[:600], 'error': repr(error)[:300]}))
        return findings, info
    expected = J.ja3(wire)
    if got not in _variants(wire):
        detail = {'wire': wire.hex()[:600], 'library': got[:400], 'reference': expected[:400], 'stratum': info['stratum']}
        kept = got in _variants(wire, keep_grease_suites=True)
        dropped = got in _variants(wire, drop_scsv=True)
        both = got in _variants(wire, keep_grease_suites=True, drop_scsv=True)
        if info['stratum'] == 'S':
            findings.append(Finding('ja3/other', detail))
        elif kept:
            findings.append(Finding('ja3/grease-suite-kept', detail))
        elif dropped:
            findings.append(Finding('ja3/scsv-dropped', detail))
        elif both:
            findings.append(Finding('ja3/grease-suite-kept', detail))
            findings.append(Finding('ja3/scsv-dropped', detail))
        else:
            findings.append(Finding('ja3/other', detail))
    # the value is a function of the message: compose and parse again
    again, error = c06._call(lambda: S.TlsHandshakeClientHello.parse_exact_size(bytes(parsed.compose())).ja3())  # pylint: disable=protected-access
    if error is not None or again != got:
        findings.append(Finding('ja3/recompose-changed', {
            'wire': wire.hex()[:600], 'first': got[:400], 'second': None if again is None else again[:400],
            'error': None if error is None else repr(error)[:300]}))
    else:
        after, error = c06._call(parsed.ja3)  # pylint: disable=protected-access
        if error is not None or after != got:
            findings.append(Finding('ja3/not-a-function', {'first': got[:400], 'second': None if after is None else after[:400]}))
    if not findings:
        findings.extend(_edited_in_place(S, wire))
    return findings, info


def _edited_in_place(S, wire):
    """A hello edited in place (more groups appended to its supported_groups extension, the way the repository's own
    JA3 test does): ja3() of the object, the published algorithm applied to the bytes it composes, and ja3() of those
    bytes parsed again are one value."""
    edited, error = c06._call(lambda: S.TlsHandshakeClientHello.parse_exact_size(wire))  # pylint: disable=protected-access
    if error is not None:
        return []
    target = None
    for extension in edited.extensions:
        curves = getattr(extension, 'elliptic_curves', None)
        if curves is not None and len(curves):
            target = curves
            break
    if target is None:
        return []
    _done, error = c06._call(lambda: target.extend([list(target)[0], list(target)[-1]]))  # pylint: disable=protected-access
    if error is not None:
        return []          # the vector is at its ceiling: not an edit it accepts
    _edited_in_place.count += 1
    value, error = c06._call(edited.ja3)  # pylint: disable=protected-access
    composed, compose_error = c06._call(lambda: bytes(edited.compose()))  # pylint: disable=protected-access
    if error is not None or compose_error is not None:
        return [Finding('ja3/edited-in-place', {'error': repr(error or compose_error)[:300], 'wire': wire.hex()[:400]})]
    reparsed, error = c06._call(lambda: S.TlsHandshakeClientHello.parse_exact_size(composed).ja3())  # pylint: disable=protected-access
    try:
        accepted = _variants(composed) | _variants(composed, keep_grease_suites=True) | _variants(composed, drop_scsv=True) | \
            _variants(composed, keep_grease_suites=True, drop_scsv=True)
    except Exception as e:  # pylint: disable=broad-except
        return [Finding('ja3/edited-in-place', {'what': 'the composed bytes are not a client hello the reference can read',
                                                'error': repr(e)[:200], 'composed': composed.hex()[:400]})]
    if error is not None or reparsed != value or value not in accepted:
        return [Finding('ja3/edited-in-place', {
            'object': value[:300], 'reparsed': None if reparsed is None else reparsed[:300],
            'error': None if error is None else repr(error)[:200], 'composed': composed.hex()[:400]})]
    return []


_edited_in_place.count = 0


@_guard
def check_case(case):
    if case.get('fresh_process') and not __import__('os').environ.get('VERIF_C15_CHILD'):
        # a finding of the server-first history is replayed in a fresh interpreter as well
        import json  # pylint: disable=import-outside-toplevel
        import os  # pylint: disable=import-outside-toplevel
        import subprocess  # pylint: disable=import-outside-toplevel
        import sys  # pylint: disable=import-outside-toplevel
        from vf.core import env  # pylint: disable=import-outside-toplevel
        single = dict(case)
        single.pop('fresh_process')
        proc = subprocess.run([sys.executable, '-B', '-m', 'vf.props.c15'], cwd=env.VERIF_DIR, stdout=subprocess.PIPE,
                              stderr=subprocess.PIPE, timeout=600,
                              env=dict(os.environ, VERIF_C15_CHILD='case', VERIF_C15_CASE=json.dumps(single)))
        if proc.returncode != 0:
            raise RuntimeError('C15 child failed: %s' % proc.stderr.decode()[-2000:])
        return [Finding(key, detail) for key, detail in json.loads(proc.stdout.decode().strip().splitlines()[-1])]
    return evaluate(case)[0]


def case_fn(case, stats):
    findings, info = evaluate(case)
    stats.evaluated()
    stats.label('stratum:' + info['stratum'])
    if info.get('server_first'):
        stats.label('first-hello-of-the-process-was-a-server-hello')
    if info['skipped']:
        stats.label('skipped:' + info['skipped'])
        return findings
    hello = case['hello']
    names = [ext['ext'] for ext in hello['extensions'] or ()]
    stats.label('groups:' + ('present' if 'supported_groups' in names else 'absent'))
    stats.label('formats:' + ('present' if 'ec_point_formats' in names else 'absent'))
    if any(ext['ext'] == 'opaque' and ext['type'] in GREASE for ext in hello['extensions'] or ()):
        stats.label('grease-extension')
    for ext in hello['extensions'] or ():
        if ext['ext'] == 'supported_groups' and any(code in GREASE for code in ext['groups']):
            stats.label('grease-group')
        if ext['ext'] == 'ec_point_formats' and any(code in J.GREASE_LIKE_ONE_BYTE for code in ext['formats']):
            stats.label('grease-like-format(not judged)')
    stats.cls('TlsHandshakeClientHello')
    if len(hello['cipher_suites']) >= 2 and names:
        stats.nontriv(info['wire'])
        if len(info['wire']) <= 400:
            stats.sample('stratum:' + info['stratum'], case)
    return findings


def cases(stratum):
    s = c06.strategies()
    required = st.sampled_from(((), ('supported_groups',), ('ec_point_formats',), ('supported_groups', 'ec_point_formats'),
                                ('supported_groups', 'ec_point_formats')))
    return required.flatmap(lambda require: s.client_hello(
        stratum=stratum, require=require, max_extensions=10 if require else 12)).map(
            lambda hello: {'hello': dict((k, v) for k, v in hello.items() if k != 'record_version')})


def fixed_cases():
    def hello(suites, extensions):
        return {'hello': {'kind': 'client_hello', 'version': 0x0303, 'random': c06.ZERO_RANDOM, 'session_id': '',
                          'cipher_suites': suites, 'compression_methods': [0], 'extensions': extensions}}
    groups = {'ext': 'supported_groups', 'groups': [0x0a0a, 29, 23, 0xeeee]}
    formats = {'ext': 'ec_point_formats', 'formats': [0, 1, 2]}
    grease_ext = {'ext': 'opaque', 'type': 0x1a1a, 'data': ''}
    out = [hello([1, 2, 3, 4, 5], None), hello([1, 2, 3, 4, 5], []), hello([0x1301], [grease_ext, groups, formats]),
           hello([0x0a0a, 1, 2, 3, 4, 5], None), hello([1, 2, 0x00ff], [groups]), hello([0x5600, 1, 2], [formats, groups]),
           hello([0x0a0a, 1, 0x00ff, 0xfafa, 0x5600], [formats, grease_ext, groups]),
           hello([0xc02b], [{'ext': 'ec_point_formats', 'formats': [0, 0x0b, 0x2a]}, groups]),
           hello([0x00ff], None), hello([0x5600, 0x00ff], [groups, formats])]      # refused by the library: C06
    for code in R.GREASE_TWO_BYTE:
        out.append(hello([0x1301, 0x1302], [{'ext': 'opaque', 'type': code, 'data': '00'},
                                             {'ext': 'supported_groups', 'groups': [code, 29]}]))
        out.append(hello([code, 0x1301], None))
    return out


def _shard(arg):
    name = arg[0]
    stats = Stats()
    if name == 'fixed':
        for case in fixed_cases():
            for finding in case_fn(case, stats):
                stats.finding(finding, case)
        stats.label('fixed', stats.evaluations)
        return stats
    _, stratum, seed_value, count = arg[:4]
    strategy = cases(stratum)
    if len(arg) > 4 and arg[4]:
        strategy = strategy.map(lambda case: dict(case, server_first=True))
    hyp.explore(strategy, case_fn, stats, count, seed_value)
    stats.labels['edited-in-place-then-composed'] += _edited_in_place.count
    return stats


def run(ctx):
    # half of the budget for the strict stratum, the other half for the three deviation strata
    layout = ['S', 'G', 'V', 'GV', 'S', 'S', 'G', 'V'] * 2 if ctx.quick else ['S', 'G', 'V', 'GV', 'S', 'S', 'G', 'V'] * 20
    per_shard = 1000 if ctx.quick else 3800
    jobs = [('hyp', stratum, ctx.derive_seed('ja3', index), per_shard, False) for index, stratum in enumerate(layout)]
    jobs.append(('fixed',))
    stats = pool.run_shards(_shard, jobs)
    _server_first_history(ctx, stats)
    return stats


def _child(seed_value, count):
    """Runs in a fresh interpreter: the first hello it parses is a server hello, then `count` generated client hellos
    of the strict stratum are judged.  Prints {'evaluations': n, 'findings': [[key, detail, case], ...]}."""
    stats = Stats()

    def first(case, inner):
        return case_fn(dict(case, server_first=True), inner)
    hyp.explore(cases('S'), first, stats, count, seed_value)
    out = []
    for key, entry in sorted(stats.findings.items()):
        out.append([key, entry['detail'], dict(entry['case'], server_first=True, fresh_process=True)])
    return {'evaluations': stats.evaluations, 'server_first': stats.labels.get('first-hello-of-the-process-was-a-server-hello', 0),
            'findings': out}


def _run_child(seed_value, count):
    import json  # pylint: disable=import-outside-toplevel
    import os  # pylint: disable=import-outside-toplevel
    import subprocess  # pylint: disable=import-outside-toplevel
    import sys  # pylint: disable=import-outside-toplevel
    from vf.core import env  # pylint: disable=import-outside-toplevel
    environment = dict(os.environ, VERIF_C15_CHILD='%d:%d' % (seed_value, count))
    proc = subprocess.run([sys.executable, '-B', '-m', 'vf.props.c15'], cwd=env.VERIF_DIR, env=environment,
                          stdout=subprocess.PIPE, stderr=subprocess.PIPE, timeout=1800)
    if proc.returncode != 0:
        raise RuntimeError('C15 child failed: %s' % proc.stderr.decode()[-2000:])
    return json.loads(proc.stdout.decode().strip().splitlines()[-1])


def _server_first_history(ctx, stats):
    """History over the process: a scanner reads server hellos before it ever parses a client hello."""
    result = _run_child(ctx.derive_seed('server-first'), 300 if ctx.quick else 6000)
    stats.evaluations += result['evaluations']
    stats.labels['fresh-process:server-hello-parsed-first'] += result['evaluations']
    if not result['server_first']:
        raise RuntimeError('C15 child did not parse the server hello first')
    for key, detail, case in result['findings']:
        stats.finding(Finding(key, detail), case)


def shrink(ctx, key, entry, max_checks=500):  # pylint: disable=unused-argument
    best, detail = entry['case'], entry.get('detail')
    checks = [0]

    def still_fails(candidate):
        checks[0] += 1
        try:
            for finding in check_case(candidate):
                if finding.key == key:
                    return finding
        except (R.RefError, J.Ja3Error, c06.HarnessError, KeyError, TypeError, ValueError, IndexError):
            return None
        return None

    progress = True
    while progress and checks[0] < max_checks:
        progress = False
        for smaller in c06._candidates(best['hello']):  # pylint: disable=protected-access
            if checks[0] >= max_checks:
                break
            hit = still_fails({'hello': smaller})
            if hit is not None:
                best, detail, progress = {'hello': smaller}, hit.detail, True
                break
    return best, detail


if __name__ == '__main__':
    import json as _json
    import os as _os
    from vf.core import env as _env
    if _os.environ.get('VERIF_C15_CHILD'):
        _env.bootstrap()
        if _os.environ['VERIF_C15_CHILD'] == 'case':
            print(_json.dumps([[f.key, f.detail] for f in evaluate(_json.loads(_os.environ['VERIF_C15_CASE']))[0]], default=repr))
        else:
            _seed, _count = _os.environ['VERIF_C15_CHILD'].split(':')
            print(_json.dumps(_child(int(_seed), int(_count)), default=repr))
