# -*- coding: utf-8 -*-
"""C13 — observers are pure and objects never share state with inputs or each other.

Three history-based sub-checks:
  observe   a generated sequence of observer calls (compose, ja3, hassh, fingerprints, key_tag, as_json, as_markdown,
            _asdict, str, repr, ==) on one object; after every call the object's structural dump is unchanged and the
            outcome equals the first outcome of that observer
  alias     parse from a bytearray, then mutate / clear / extend the buffer; parse the same bytes twice and mutate
            every mutable field of the first object in place
  defaults  construct with required arguments only, mutate default-valued fields in place, construct again
"""
import copy
import random
import time

from hypothesis import strategies as st

from vf.core import hyp, lib, pool
from vf.core.stats import Finding, Stats, digest, jdump
from vf.gen import objects, registry, seeds
from vf.gen import spec as specs

ID = 'C13'
LEVEL = 'exploration'
RULE = ('observe: for every class with a spec strategy (plus objects parsed from the corpus, plus client hellos with '
        '32764..32767 cipher suites and either SCSV flag set) a generated sequence of 3..10 observer calls with '
        'repetitions; alias: every accepted corpus input and composed generated object of every concrete class is parsed '
        'from a bytearray through the three entry points, then the buffer is overwritten / cleared / extended, and '
        'two parses of the same bytes are checked for shared mutable sub-objects by mutating one in place; defaults: '
        'for every class with default field values a generated history of "construct with required arguments only" '
        'and "mutate a field of a live instance in place". Non-trivial: observe - >=2 different observers and a '
        'failing call or an object at a size bound or >=4 calls; alias - the buffer was changed after a successful '
        'parse; defaults - >=1 in-place mutation between two constructions. Distinct by the case data.')
ASSUMPTIONS = [
    'state = the structural dump of vf.core.lib.dump() (all attrs fields incl. private ones, vector items and the '
    'vector\'s recorded size, vars() of non-attrs classes)',
    'fields in which two instances freshly built from the same arguments already differ (defaults produced per '
    'call: time, random values) are excluded from the "new instance equals the first one" comparison, never from '
    'the "mutating one instance must not change another" comparison',
    'an observer outcome is its return value (json-dumped / repr) or the type of the exception it raises',
]

OBSERVERS = ('compose', 'ja3', 'hassh', 'hassh_server', 'fingerprints', 'key_bytes', 'host_key_asdict', 'key_tag',
             'as_json', 'json.dumps', 'as_markdown', '_asdict', 'str', 'repr', 'eq-self', 'hash', 'as_markdown:with-hook')


def _observe(obj, name):
    import json  # pylint: disable=import-outside-toplevel
    if name == 'json.dumps':
        return json.dumps(obj)
    if name == 'str':
        return str(obj)
    if name == 'repr':
        return repr(obj)[:2000]
    if name == 'eq-self':
        return obj == copy.deepcopy(obj)
    if name == 'hash':
        return hash(obj) if type(obj).__hash__ is not None else 'unhashable'
    if name == 'as_markdown:with-hook':
        # the documented text-encoder hook installed for the duration of the call (an application colouring / escaping
        # the leaves): the same call gives the same text every time
        from cryptoparser.common.base import Serializable, SerializableTextEncoder  # pylint: disable=import-outside-toplevel

        class Marking(SerializableTextEncoder):
            def __call__(self, value, level):
                multiline, text = super(Marking, self).__call__(value, level)
                return multiline, text.upper()
        original = Serializable.__dict__['post_text_encoder']
        Serializable.post_text_encoder = Marking()
        try:
            return obj.as_markdown()
        finally:
            Serializable.post_text_encoder = original
    attribute = getattr(obj, name)
    value = attribute() if callable(attribute) else attribute
    return value


def available_observers(obj):
    out = []
    for name in OBSERVERS:
        if name in ('json.dumps', 'str', 'repr', 'eq-self', 'hash'):
            out.append(name)
        elif name == 'as_markdown:with-hook':
            if hasattr(type(obj), 'as_markdown'):
                out.append(name)
        elif hasattr(type(obj), name):
            out.append(name)
    return out


def _outcome_signature(outcome):
    if outcome.ok:
        value = outcome.value
        if isinstance(value, (bytes, bytearray)):
            return 'ok:' + bytes(value).hex()
        try:
            return 'ok:' + jdump(lib.dump(value))
        except Exception:  # pylint: disable=broad-except
            return 'ok:' + repr(value)[:500]
    return outcome.signature()


def _state(obj):
    return jdump(lib.dump(obj))


def _obtain(case):
    if 'spec' in case:
        built = lib.call(specs.build, case['spec'])
        if not built.ok:
            if isinstance(built.exc, specs.BuildError):
                raise built.exc
            return None
        return built.value
    cls = lib.resolve(case['cls'])
    parsed = lib.call(cls.parse_immutable, bytes.fromhex(case['hex']))
    return parsed.value[0] if parsed.ok else None


def _class_attributes(obj):
    """{class: names defined on the class itself} for the classes of obj and of the library objects inside it
    (bases included): observers must not add any (interpreter bookkeeping such as __slotnames__ aside)."""
    from vf.props import c01  # pylint: disable=import-outside-toplevel
    classes = set()
    for item in [obj] + c01.nested_parsables(obj, limit=40):
        for cls in type(item).__mro__:
            if cls.__module__.startswith('cryptoparser.'):
                classes.add(cls)
    return {cls: frozenset(name for name in vars(cls) if not (name.startswith('__') and name.endswith('__')) and not name.startswith('_abc_'))
            for cls in classes}


def _new_class_attributes(before, name, obj):
    findings = []
    for cls, names in _class_attributes(obj).items():
        added = names - before.get(cls, names)
        for attribute in sorted(added):
            findings.append(Finding('observer-leaves-class-state:%s/%s' % (attribute, name), {'class': cls.__name__}))
            try:
                delattr(cls, attribute)          # do not let one case poison the next
            except AttributeError:
                pass
    return findings[:3]


def check_observe(case):
    obj = _obtain(case)
    if obj is None:
        return []
    name = type(obj).__name__
    findings = []
    class_state = _class_attributes(obj)
    check_observe.edited = False
    if case.get('edited'):
        # the object a caller has after editing items of its vectors in place (sizes cached by the vectors are then
        # out of step with the items): observers must leave that object alone as well
        from vf.gen import edits  # pylint: disable=import-outside-toplevel
        check_observe.edited = bool(edits.nested_edits(obj, random.Random(digest(jdump(case.get('spec') or case.get('hex'))))))
    before = _state(obj)
    first = {}
    failed_any = False
    available = available_observers(obj)
    for step, index in enumerate(case['observers']):
        observer = available[index % len(available)]
        outcome = lib.call(_observe, obj, observer)
        signature = _outcome_signature(outcome)
        if not outcome.ok:
            failed_any = True
        after = _state(obj)
        if after != before:
            findings.append(Finding('observer-mutates:%s/%s' % (observer, name), {
                'step': step, 'outcome': signature[:120], 'observers': [available[i % len(available)] for i in case['observers'][:step + 1]]}))
            return findings
        if observer in first and first[observer] != signature and observer not in ('repr',):
            findings.append(Finding('observer-unstable:%s/%s' % (observer, name), {
                'step': step, 'first': first[observer][:160], 'now': signature[:160]}))
            return findings
        first.setdefault(observer, signature)
    check_observe.failed_any = failed_any
    if not findings and 'as_markdown:with-hook' in available:
        # every history ends with: plain render, two renders under an installed text-encoder hook, plain render
        plain = _outcome_signature(lib.call(_observe, obj, 'as_markdown'))
        hooked = [_outcome_signature(lib.call(_observe, obj, 'as_markdown:with-hook')) for _ in range(2)]
        again = _outcome_signature(lib.call(_observe, obj, 'as_markdown'))
        if hooked[0] != hooked[1]:
            findings.append(Finding('observer-unstable:as_markdown:with-hook/%s' % name, {
                'first': hooked[0][:160], 'now': hooked[1][:160]}))
        elif plain != again:
            findings.append(Finding('observer-unstable:as_markdown/%s' % name, {
                'what': 'differs after a render under an installed (and removed) encoder hook', 'first': plain[:160], 'now': again[:160]}))
        elif _state(obj) != before:
            findings.append(Finding('observer-mutates:as_markdown:with-hook/%s' % name, {}))
    findings.extend(_new_class_attributes(class_state, name, obj))
    return findings


check_observe.failed_any = False
check_observe.edited = False


# ---------------------------------------------------------------------------------------------------
# aliasing
# ---------------------------------------------------------------------------------------------------

def mutate_in_place(value, rng, depth=0, seen=None, donor=None):
    """Change every mutable part reachable from value in place (through public mutation interfaces of the
    containers).  Returns the number of changes made.  `donor`: a value of the same field taken from another,
    independently built object; an empty typed vector can only be edited with items it accepts, and the donor's
    items are such items."""
    from cryptoparser.common.base import ArrayBase  # pylint: disable=import-outside-toplevel
    import collections  # pylint: disable=import-outside-toplevel
    import enum  # pylint: disable=import-outside-toplevel
    seen = seen if seen is not None else set()
    if depth > 12 or id(value) in seen or value is None or isinstance(value, (bool, int, float, str, bytes, enum.Enum)):
        return 0
    seen.add(id(value))
    changes = 0
    if isinstance(value, bytearray):
        value.extend(b'\xa5')
        if len(value) > 1:
            value[0] ^= 0xff
        return 1
    if isinstance(value, ArrayBase):
        items = list(value)
        for item in items[:6]:
            changes += mutate_in_place(item, rng, depth + 1, seen)
        if items:
            actions = (lambda: value.append(items[0]), lambda: value.__delitem__(0), lambda: value.reverse(),
                       lambda: value.__setitem__(0, items[-1]))
        else:
            actions = (lambda: value.append(0), lambda: value.append('vf-marker'))
            if isinstance(donor, ArrayBase) and len(donor):
                actions = (lambda: value.append(list(donor)[0]),) + actions
        for action in actions:
            if lib.call(action).ok and list(value) != items:
                changes += 1
                break
        return changes
    if isinstance(value, list):
        for item in value[:6]:
            changes += mutate_in_place(item, rng, depth + 1, seen)
        value.append(value[0] if value else 0)
        return changes + 1
    if isinstance(value, set):
        value.add('vf-marker')
        return 1
    if isinstance(value, (dict, collections.OrderedDict)):
        for item in list(value.values())[:6]:
            changes += mutate_in_place(item, rng, depth + 1, seen)
        value['vf-marker'] = None
        return changes + 1
    module = type(value).__module__
    if module.startswith('cryptoparser.'):
        for name, item in (lib._fields_of(value) or []):  # pylint: disable=protected-access
            changes += mutate_in_place(item, rng, depth + 1, seen)
            # a scalar held by a (mutable) library object is edited by assignment: `record.percent.value = 10`
            if not name.startswith('_') and depth >= 1 and type(item) in (bool, int, str):
                replacement = (not item) if isinstance(item, bool) else (item + 1 if isinstance(item, int) else item + 'x')
                try:
                    setattr(value, name, replacement)
                    changes += 1
                except Exception:  # pylint: disable=broad-except
                    pass        # a frozen class: nothing a caller could edit
    return changes


def check_alias(case):
    cls = lib.resolve(case['cls'])
    name = cls.__name__
    data = bytes.fromhex(case['hex'])
    suffix = bytes.fromhex(case.get('suffix', ''))
    findings = []
    for entry in ('immutable', 'mutable', 'exact'):
        buffer = bytearray(data + (suffix if entry != 'exact' else b''))
        if entry == 'immutable':
            outcome = lib.call(cls.parse_immutable, buffer)
            obj = outcome.value[0] if outcome.ok else None
        elif entry == 'mutable':
            outcome = lib.call(cls.parse_mutable, buffer)
            obj = outcome.value if outcome.ok else None
        else:
            outcome = lib.call(cls.parse_exact_size, buffer)
            obj = outcome.value if outcome.ok else None
        if obj is None:
            continue
        before = _state(obj)
        composed_before = _outcome_signature(lib.call(obj.compose)) if hasattr(obj, 'compose') else None
        for mutation in case.get('buffer_mutations', ('overwrite', 'clear', 'extend')):
            if mutation == 'overwrite':
                for index in range(len(buffer)):
                    buffer[index] = (buffer[index] + 0x55) & 0xff
            elif mutation == 'clear':
                del buffer[:]
            else:
                buffer.extend(b'\x00\x01\x02\x03')
            if _state(obj) != before or (composed_before is not None and
                                         _outcome_signature(lib.call(obj.compose)) != composed_before):
                findings.append(Finding('alias-buffer/%s' % name, {'entry': entry, 'after': mutation}))
                break
    # two parses of the same bytes must not share mutable state
    one = lib.call(cls.parse_immutable, data)
    two = lib.call(cls.parse_immutable, data)
    if one.ok and two.ok:
        before = _state(two.value[0])
        rng = random.Random(digest(case['hex']))
        changed = mutate_in_place(one.value[0], rng)
        check_alias.changed = changed
        if _state(two.value[0]) != before:
            # named after the class of the parsed object (a variant parser is not where shared state lives)
            findings.append(Finding('alias-objects/%s' % type(one.value[0]).__name__, {
                'changes_made_to_first': changed, 'parsed_through': name}))
    return findings


check_alias.changed = 0


def check_noarg_defaults(case):
    """Classes that can be built without any argument (every field has a default): one instance is edited in place, a
    second instance built afterwards equals what a first-ever instance looked like.  -> findings, or None when the
    class cannot be built that way."""
    cls = lib.resolve(case['cls'])
    first = lib.call(cls)
    if not first.ok:
        return None
    baseline = _state(first.value)
    twin = lib.call(cls)
    if not twin.ok or _state(twin.value) != baseline:
        return []          # defaults produced per call (time, random values): two fresh instances differ anyway
    changed = mutate_in_place(first.value, random.Random(digest(case['cls'])), depth=1)
    if not changed:
        return []
    second = lib.call(cls)
    if not second.ok:
        return []
    if _state(second.value) != baseline:
        return [Finding('shared-default:noarg/%s' % cls.__name__, {
            'what': 'an instance built with no arguments after another one was edited in place differs from the first-ever one',
            'changes_made_to_first': changed})]
    return []


# ---------------------------------------------------------------------------------------------------
# defaults
# ---------------------------------------------------------------------------------------------------

def classes_with_defaults():
    import attr  # pylint: disable=import-outside-toplevel
    out = []
    registered = set(registry.registered())
    for cls in lib.concrete_classes():
        ref = lib.ref_of(cls)
        if ref not in registered or not attr.has(cls):
            continue
        if any(f.init and f.default is not attr.NOTHING for f in attr.fields(cls)):
            out.append(ref)
    return out


def minimal_spec(spec):
    """Drop every argument that has a default (keep required ones)."""
    import attr  # pylint: disable=import-outside-toplevel
    cls = lib.resolve(spec['c'])
    fields = [f for f in attr.fields(cls) if f.init]
    # a default of None next to a validator that refuses None is a required argument in practice
    required = [f.name.lstrip('_') for f in fields if f.default is attr.NOTHING or f.default is None]
    positional = list(spec.get('a', ()))
    names = [f.name.lstrip('_') for f in fields]
    keywords = dict(spec.get('k', {}))
    for index, value in enumerate(positional):
        if index < len(names):
            keywords.setdefault(names[index], value)
    return {'c': spec['c'], 'k': {name: value for name, value in keywords.items() if name in required}}


def _defaults_dump(obj, exclude=()):
    import attr  # pylint: disable=import-outside-toplevel
    out = []
    for field in attr.fields(type(obj)):
        if field.name in exclude:
            continue
        out.append((field.name, lib.dump(getattr(obj, field.name))))
    return jdump(out)


def _volatile_fields(one, two):
    """Fields whose default is produced per call (time, random): two fresh instances differ in them."""
    import attr  # pylint: disable=import-outside-toplevel
    return {f.name for f in attr.fields(type(one))
            if jdump(lib.dump(getattr(one, f.name))) != jdump(lib.dump(getattr(two, f.name)))}


def _default_field_names(cls):
    import attr  # pylint: disable=import-outside-toplevel
    return [f.name for f in attr.fields(cls) if f.init and f.default is not attr.NOTHING]


def check_defaults(case):
    spec = minimal_spec(case['spec'])
    cls = lib.resolve(spec['c'])
    name = cls.__name__
    first = lib.call(specs.build, spec)
    second = lib.call(specs.build, spec)
    if not first.ok or not second.ok:
        return []
    donor = lib.call(specs.build, case['spec'])       # the fully specified object: a source of acceptable items
    volatile = _volatile_fields(first.value, second.value)
    baseline = _defaults_dump(first.value, volatile)
    live = [first.value]
    snapshots = [_defaults_dump(first.value)]
    touched = set()
    findings = []
    default_fields = _default_field_names(cls)
    rng = random.Random(digest(case))
    mutations = 0
    for step, op in enumerate(case['ops']):
        if op['op'] == 'construct':
            made = lib.call(specs.build, spec)
            if not made.ok:
                continue
            state = _defaults_dump(made.value, volatile)
            if state != baseline:
                import json  # pylint: disable=import-outside-toplevel
                differing = [a[0] for a, b in zip(json.loads(state), json.loads(baseline)) if a != b]
                findings.append(Finding('shared-default:%s/%s' % (','.join(differing) or '?', name), {
                    'step': step, 'what': 'a new instance built from the same arguments differs from the first one built',
                    'mutations_before': mutations}))
                return findings
            live.append(made.value)
            snapshots.append(_defaults_dump(made.value))
        else:
            if not default_fields:
                continue
            index = op['target'] % len(live)
            field = default_fields[op['field'] % len(default_fields)]
            changed = mutate_in_place(getattr(live[index], field), rng,
                                      donor=getattr(donor.value, field, None) if donor.ok else None)
            if changed:
                mutations += 1
                touched.add(index)
                snapshots[index] = _defaults_dump(live[index])
            for other, instance in enumerate(live):
                if other in touched:
                    continue
                if _defaults_dump(instance) != snapshots[other]:
                    findings.append(Finding('shared-default:%s/%s' % (field, name), {
                        'step': step, 'what': 'mutating a field of one instance in place changed another instance'}))
                    return findings
    check_defaults.mutations = mutations
    return findings


check_defaults.mutations = 0


def check_case(case):
    kind = case['kind']
    if kind == 'observe':
        return check_observe(case)
    if kind == 'alias':
        return check_alias(case)
    if kind == 'defaults':
        return check_defaults(case)
    if kind == 'noarg-defaults':
        return check_noarg_defaults(case) or []
    raise ValueError(kind)


# ---------------------------------------------------------------------------------------------------
# generation
# ---------------------------------------------------------------------------------------------------

def _observer_sequences():
    return st.lists(st.integers(0, 40), min_size=3, max_size=10)


def observe_strategy(ref):
    return st.fixed_dictionaries({'kind': st.just('observe'), 'spec': objects.strategy_for(ref), 'observers': _observer_sequences(),
                                  'edited': st.sampled_from([False, False, True])})


def full_client_hello_cases(rng):
    """client hellos whose cipher suite vector is at / next to its ceiling, with either SCSV flag set: every
    combination of (count, flags) is enumerated, the observer sequences are seeded"""
    suite = objects.first_member(objects.ALG + 'TlsCipherSuite')
    cases = []
    for count in (32764, 32765, 32766, 32767):
        for flags in ((True, True), (True, False), (False, True), (False, False)):
            for _ in range(2):
                spec = {'c': objects.SUB + 'TlsHandshakeClientHello', 'k': {
                    'cipher_suites': {'cycle': [suite], 'n': count},
                    'fallback_scsv': flags[0], 'empty_renegotiation_info_scsv': flags[1]}}
                cases.append({'kind': 'observe', 'spec': spec,
                              'observers': [rng.randrange(40), 0] + [rng.randrange(40) for _ in range(rng.randrange(2, 7))]})
    # names whose label list ends in the (empty) root label - what a caller gets from splitting 'mail.example.com.'
    # himself: compose() refuses them, and a refused call must leave the object alone like any other
    name_ref = 'cryptoparser.dnsrec.record:DnsNameUncompressed'
    for labels in (['mail', 'example', 'com', ''], [''], ['a', '']):
        for wrap in (None, 'cryptoparser.dnsrec.record:DnsRecordMx'):
            spec = {'c': name_ref, 'a': [labels]}
            if wrap:
                spec = {'c': wrap, 'a': [10, spec]}
            for _ in range(2):
                cases.append({'kind': 'observe', 'spec': spec,
                              'observers': [rng.randrange(40) for _ in range(rng.randrange(3, 8))] + [0, 0]})
    return cases


def _observe_case_fn(case, stats):
    stats.evaluations += 1
    stats.labels['observe'] += 1
    check_observe.failed_any = False
    findings = check_observe(case)
    if check_observe.edited:
        stats.labels['observe:after-in-place-edit'] += 1
    name = specs.spec_class(case['spec']).split(':')[-1] if 'spec' in case else case['cls'].split(':')[-1]
    stats.classes[name] += 1
    if len(set(case['observers'])) >= 2 and (check_observe.failed_any or len(case['observers']) >= 4):
        stats.nontriv(jdump(case))
        if check_observe.failed_any:
            stats.labels['observe:with-failing-call'] += 1
        if stats.classes[name] % 60 == 2:
            stats.sample('observe', {'class': name, 'observers': case['observers']})
    return findings


def _defaults_case_fn(case, stats):
    stats.evaluations += 1
    stats.labels['defaults'] += 1
    check_defaults.mutations = 0
    findings = check_defaults(case)
    name = case['spec']['c'].split(':')[-1]
    stats.classes[name] += 1
    if check_defaults.mutations >= 1 or findings:
        stats.nontriv(jdump(case))
        if stats.classes[name] % 30 == 2:
            stats.sample('defaults', {'class': name, 'ops': case['ops'][:8]})
    return findings


def defaults_strategy(ref):
    ops = st.lists(st.one_of(
        st.just({'op': 'construct'}),
        st.builds(lambda t, f: {'op': 'mutate', 'target': t, 'field': f}, st.integers(0, 5), st.integers(0, 12))),
        min_size=2, max_size=8)
    return st.fixed_dictionaries({'kind': st.just('defaults'), 'spec': objects.strategy_for(ref), 'ops': ops})


def _job(arg):
    kind = arg[0]
    stats = Stats()
    if kind == 'observe':
        _, ref, examples, seed_value, budget_s = arg
        if ref == 'full-client-hello':
            for case in full_client_hello_cases(random.Random(seed_value)):
                for finding in _observe_case_fn(case, stats):
                    stats.finding(finding, case)
        else:
            hyp.explore(observe_strategy(ref), _observe_case_fn, stats, examples, seed_value, budget_s=budget_s)
    elif kind == 'defaults':
        _, ref, examples, seed_value, budget_s = arg
        hyp.explore(defaults_strategy(ref), _defaults_case_fn, stats, examples, seed_value, budget_s=budget_s)
    else:
        _, index, shards, seed_value, budget_s = arg
        started = time.time()
        rng = random.Random(seed_value)
        for cls in lib.concrete_classes()[index::shards]:
            ref = lib.ref_of(cls)
            case = {'kind': 'noarg-defaults', 'cls': ref}
            found = check_noarg_defaults(case)
            if found is not None:
                stats.evaluations += 1
                stats.labels['noarg-defaults'] += 1
                stats.nontriv(jdump(case))
                for finding in found:
                    stats.finding(finding, case)
            inputs = list(seeds.seeds_for(cls)) + registry.composed_examples(cls)
            for data in inputs:
                if time.time() - started > budget_s:
                    stats.budget_reached = True
                    break
                # observers on parsed objects
                case = {'kind': 'observe', 'cls': ref, 'hex': data.hex(), 'observers': [rng.randrange(40) for _ in range(5)]}
                for finding in _observe_case_fn(case, stats):
                    stats.finding(finding, case)
                case = {'kind': 'alias', 'cls': ref, 'hex': data.hex(), 'suffix': bytes(rng.randrange(256) for _ in range(rng.choice((0, 1, 7)))).hex()}
                stats.evaluations += 1
                stats.labels['alias'] += 1
                check_alias.changed = 0
                found = check_alias(case)
                if lib.call(cls.parse_immutable, data).ok:
                    stats.nontriv(jdump(case))
                    stats.classes[cls.__name__] += 1
                    if check_alias.changed:
                        stats.labels['alias:first-object-mutated'] += 1
                for finding in found:
                    stats.finding(finding, case)
    return stats


def _jobs(ctx):
    observe_n = 60 if ctx.quick else 1500
    defaults_n = 60 if ctx.quick else 1500
    budget_s = 100 if ctx.quick else 1500
    base = ctx.derive_seed('c13')
    jobs = [('observe', 'full-client-hello', 24 if ctx.quick else 300, base ^ 0x5c5f, budget_s)]
    for ref in registry.registered():
        jobs.append(('observe', ref, observe_n, base ^ (digest(ref) & 0xffffffff), budget_s))
    for ref in classes_with_defaults():
        jobs.append(('defaults', ref, defaults_n, base ^ (digest('d' + ref) & 0xffffffff), budget_s))
    shards = 32
    for index in range(shards):
        jobs.append(('parsed', index, shards, base + index, budget_s))
    return jobs


def run(ctx):
    jobs = _jobs(ctx)
    stats = pool.run_shards(_job, jobs)
    stats.extra['classes_with_defaults'] = len(classes_with_defaults())
    return stats


def shrink(ctx, key, entry):
    case = entry['case']
    if case['kind'] == 'alias' or 'cls' in case:
        return None
    ref = case['spec']['c']

    def case_fn(candidate, _stats):
        return check_case(candidate)
    for job in _jobs(ctx):
        if job[0] == case['kind'] and job[1] == ref:
            strategy = observe_strategy(ref) if job[0] == 'observe' else defaults_strategy(ref)
            result = hyp.shrink(strategy, case_fn, key, job[2], job[3], box_s=20)
            if result and result[0] is not None:
                return result
    return None
