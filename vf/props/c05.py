# -*- coding: utf-8 -*-
"""C05 — re-serialising an accepted input is a stable canonical form.

For every accepted byte string b:  o1 = parse(b);  b2 = o1.compose() succeeds;  o2 = parse(b2) succeeds and equals o1;
o2.compose() == b2.  Inputs are chosen to be accepted but *not* canonical.
"""
import os
import random
import re
import time

from vf.core import lib, pool, targets
from vf.core.stats import Finding, Stats
from vf.gen import mutate, registry, seeds
from vf.props import c01

ID = 'C05'
LEVEL = 'exploration'
RULE = ('inputs per concrete class: its seeds (unit-test corpus, composed generated objects, grammar-generated '
        'spelling variants of text fields where available) and seeded mutants of them (bit flips, length-field '
        'corruption, case flips, inserted separators / whitespace / unknown tokens, splices); only inputs the class '
        'accepts are cases. Non-trivial: the re-composed bytes differ from the consumed input bytes (accepted but not '
        'canonical). Distinct by (class, input).')
ASSUMPTIONS = [
    'header-field classes are re-parsed with the CRLF that terminates a field inside a header block appended (they '
    'refuse an input without it and do not consume it)',
    'values that are not composable on their own (enum members returned by *Factory classes) are composed through '
    'their containers only and are skipped here',
    'equality as in C01 (structural, plus == where every nested class defines it); exception *types* are C02\'s '
    'business: a leak while composing/re-parsing is reported by C02, not here',
]

N_SHARDS = 64

IDNA_CLASSES = ('DnsNameUncompressed', 'DnsRecordMx', 'DnsRecordRrsig', 'TlsExtensionServerNameClient')


TEXT_MODULES = ('cryptoparser.httpx.', 'cryptoparser.dnsrec.txt', 'cryptoparser.common.field')


def family_key(clause, name, text, case=None):
    """Root-cause family of a deviation, or None for the precise per-class key."""
    text_class = case is not None and case['cls'].startswith(TEXT_MODULES)
    if text_class and case.get('origin') == 'mutant':
        # the text parsers are lenient by design of their building blocks (dateutil dates, urllib3 URLs, CSP host
        # sources, quote stripping): a byte-mutated header that is still accepted is "garbage in"; its handling is
        # recorded as one family per clause.  Seeds and grammar variants of text classes keep precise keys.
        return 'text-mutant:%s' % clause.split(':')[0]
    if 'naive vs aware datetime' in text:
        return 'naive-datetime-becomes-gmt/%s' % name
    if not text_class:
        if (name in IDNA_CLASSES and clause.startswith('compose-fails')) or 'labels[' in text or 'host_name:' in text:
            # the known family is about names that are not in canonical spelling already (upper-case letters, A-labels,
            # bytes outside letters-digits-hyphen).  Where the harness can see the name - the stand-alone server_name
            # extension: 9 octets of framing, then the name - a name of plain lower-case LDH labels that changes its
            # meaning is a new finding, not a member of the family
            plain = False
            if name == 'TlsExtensionServerNameClient' and case is not None and 'hex' in case:
                host = bytes.fromhex(case['hex'])[9:]
                plain = bool(host) and all(0x61 <= b <= 0x7a or 0x30 <= b <= 0x39 or b in (0x2d, 0x2e) for b in host) \
                    and b'xn--' not in host and b'..' not in host and not host.startswith(b'.')
            if not plain:
                return 'idna-label-not-preserved/%s' % name
        if name == 'DnsRecordDnskey':
            return 'key-leading-zeros-not-preserved/%s' % name
    return None


def _variant_seeds(cls):
    try:
        from vf.gen import textgen  # pylint: disable=import-outside-toplevel
    except ImportError:
        return []
    try:
        return list(textgen.accepted_texts(lib.ref_of(cls), 48, 20240917))
    except Exception:  # pylint: disable=broad-except
        return []


def check_case(case):
    from cryptoparser.common.parse import ParsableBaseNoABC  # pylint: disable=import-outside-toplevel
    cls = lib.resolve(case['cls'])
    if case.get('kind') == 'history':
        return history_clause(cls, bytes.fromhex(case['hex']))
    name = cls.__name__
    data = bytes.fromhex(case['hex'])
    with targets.watchdog(30):
        first = lib.call(cls.parse_immutable, data)
        if not first.ok:
            return []
        obj, consumed = first.value
        if not isinstance(obj, ParsableBaseNoABC) and not callable(getattr(obj, 'compose', None)):
            return []
        parser = type(obj) if isinstance(obj, ParsableBaseNoABC) else cls
        composed = lib.call(obj.compose)
        if composed.kind == 'leak':
            return []
        if not composed.ok:
            clause = 'compose-fails:%s' % type(composed.exc).__name__
            return [Finding(family_key(clause, name, repr(composed.exc), case) or '%s/%s' % (clause, name), {
                'error': repr(composed.exc)[:160], 'input': data[:consumed].hex()[:160]})]
        canonical = bytes(composed.value)
        terminator = c01.terminator_of(parser)
        if terminator:
            second = lib.call(parser.parse_immutable, canonical + terminator)
            if second.ok:
                if second.value[1] != len(canonical):
                    return [Finding('reparse-fails:short/%s' % name, {'canonical': canonical.hex()[:160]})]
                second.value = second.value[0]
        else:
            second = lib.call(parser.parse_exact_size, canonical)
        if second.kind == 'leak':
            return []
        if not second.ok:
            clause = 'reparse-fails:%s' % type(second.exc).__name__
            return [Finding(family_key(clause, name, repr(second.exc), case) or '%s/%s' % (clause, name), {
                'error': repr(second.exc)[:160], 'input': data[:consumed].hex()[:160], 'canonical': canonical.hex()[:160]})]
        findings = []
        difference = lib.same(second.value, obj)
        if difference and 'dump() raised' in difference:
            # a damaged X.509 certificate that asn1crypto accepted lazily and cannot re-encode: there is no value to
            # compare (the lazy acceptance itself is recorded under C14); not a case of this property
            check_case.noncanonical = False
            return []
        if difference:
            key = family_key('meaning-changed', name, difference, case) or \
                'meaning-changed:%s/%s' % (lib.field_of_diff(difference), name)
            findings.append(Finding(key, {
                'difference': difference[:240], 'input': data[:consumed].hex()[:160], 'canonical': canonical.hex()[:160]}))
        again = lib.call(second.value.compose)
        if again.ok and bytes(again.value) != canonical:
            findings.append(Finding(family_key('unstable', name, (difference or '') + canonical.decode('latin-1'), case) or 'unstable/%s' % name, {
                'first': canonical.hex()[:160], 'second': bytes(again.value).hex()[:160]}))
        check_case.noncanonical = canonical != data[:consumed]
    return findings


check_case.noncanonical = False


def _canonical_of(cls, data):
    parsed = lib.call(cls.parse_immutable, data)
    if not parsed.ok or not callable(getattr(parsed.value[0], 'compose', None)):
        return None
    composed = lib.call(parsed.value[0].compose)
    return bytes(composed.value) if composed.ok else None


def history_clause(cls, seed):
    """The seed is judged right after a case variant of it (ASCII letters flipped) has gone through the library - before
    the seed itself has been seen by this process, as far as the harness can arrange that.  A cache keyed by a folded
    name hands the variant's spelling to the seed."""
    variant = bytes(byte ^ 0x20 if 0x41 <= byte <= 0x5a or 0x61 <= byte <= 0x7a else byte for byte in seed)
    if variant == seed:
        return []
    _canonical_of(cls, variant)            # whatever happens to the variant is judged as an input of its own
    first = _canonical_of(cls, seed)
    findings = check_case({'cls': lib.ref_of(cls), 'hex': seed.hex(), 'origin': 'seed'})
    again = _canonical_of(cls, seed)
    if first != again:
        findings.append(Finding('canonical-depends-on-history/%s' % cls.__name__, {
            'input': seed.hex()[:200], 'first': None if first is None else first.hex()[:200],
            'second': None if again is None else again.hex()[:200]}))
    return findings


def _shard(arg):
    index, seed_value, per_class, budget_s = arg
    started = time.time()
    stats = Stats()
    rng = random.Random(seed_value)
    donors = seeds.all_seeds()
    for cls in lib.concrete_classes()[index::N_SHARDS]:
        ref = lib.ref_of(cls)
        base = list(seeds.seeds_for(cls))
        base += [b for b in registry.composed_examples(cls) if b not in base]
        base += [b for b in _variant_seeds(cls) if b not in base]
        if not base:
            stats.labels['classes-without-seed'] += 1
            continue
        inputs = [(seed, 'seed') for seed in base]
        # the canonical form is a function of the input: what an input re-serialises to must not depend on which other
        # spelling of the same value the process has handled before (a case variant of its letters here)
        for seed in base[:12]:
            for finding in history_clause(cls, seed):
                stats.finding(finding, {'kind': 'history', 'cls': ref, 'hex': seed.hex()})
            stats.labels['history:case-variant-first'] += 1
        for seed in base[:16]:
            for name, data in mutate.utf8_substitutions(seed):
                inputs.append((data, 'mutant:' + name))
        # many in-range values in the fixed-width numeric fields of a few accepted binary seeds (timestamps, serials)
        swept = 0
        for seed in base:
            if swept >= 3 or len(seed) > 1500 or mutate.looks_textual(seed) or not lib.call(cls.parse_immutable, seed).ok:
                continue
            from vf.props import c02  # pylint: disable=import-outside-toplevel
            fields = [field for field in c02.numeric_fields(cls, seed) if field[1] in (4, 8)][:6]
            fields += [field for field in mutate.small_u64_windows(seed) if field not in fields]
            if fields:
                swept += 1
                for name, data in mutate.field_sweeps(rng, seed, fields):
                    inputs.append((data, 'mutant:' + name))
        text = None
        for number in range(per_class):
            seed = base[number % len(base)]
            name, data = mutate.mutate(rng, seed, donors, text)
            if rng.random() < 0.25:
                name, data = mutate.mutate(rng, data, donors, text)
            inputs.append((data, 'mutant:' + name))
        for data, label in inputs:
            if time.time() - started > budget_s:
                stats.budget_reached = True
                break
            case = {'cls': ref, 'hex': data.hex(), 'origin': label.split(':')[0]}
            stats.evaluations += 1
            check_case.noncanonical = False
            try:
                findings = check_case(case)
            except targets.Hang:
                findings = [Finding('hang/' + cls.__name__, {})]
            accepted = lib.call(cls.parse_immutable, data).ok
            if accepted:
                stats.labels['accepted:' + label.split(':')[0]] += 1
                stats.classes[cls.__name__] += 1
                if check_case.noncanonical:
                    stats.nontriv(ref.encode() + b'|' + data)
                    stats.labels['non-canonical'] += 1
                    if stats.labels['non-canonical'] % 97 == 1:
                        stats.sample('non-canonical', {'cls': cls.__name__, 'input': data.hex()[:120], 'how': label})
            else:
                stats.labels['rejected'] += 1
            for finding in findings:
                stats.finding(finding, case)
    return stats


def run(ctx):
    from vf.gen import registry as _registry  # pylint: disable=import-outside-toplevel
    _registry.warm()
    per_class = 400 if ctx.quick else 10000
    budget_s = 100 if ctx.quick else 1500
    jobs = [(index, ctx.derive_seed('shard', index), per_class, budget_s) for index in range(N_SHARDS)]
    stats = pool.run_shards(_shard, jobs)
    if not ctx.quick:
        from vf.fuzz import campaign  # pylint: disable=import-outside-toplevel
        campaign.run(ID, ctx.derive_seed, stats, runs=int(os.environ.get('VERIF_ATHERIS_RUNS', '150000')))
    return stats


def shrink(ctx, key, entry):
    case = dict(entry['case'])
    data = bytes.fromhex(case['hex'])
    started = time.time()

    def still(candidate):
        try:
            return any(f.key == key for f in check_case(dict(case, hex=candidate.hex())))
        except targets.Hang:
            return False
    chunk = max(1, len(data) // 2)
    while chunk >= 1 and time.time() - started < 15:
        pos = 0
        while pos < len(data) and time.time() - started < 15:
            candidate = data[:pos] + data[pos + chunk:]
            if len(candidate) < len(data) and still(candidate):
                data = candidate
            else:
                pos += chunk
        chunk //= 2
    case['hex'] = data.hex()
    detail = None
    for finding in check_case(case):
        if finding.key == key:
            detail = finding.detail
    return case, detail
