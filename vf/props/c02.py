# -*- coding: utf-8 -*-
"""C02 — parsing untrusted bytes fails only with the documented parse errors.

Fuzzing with a semantic oracle: every public parse entry point is fed truncations (exhaustive), seeded mutants
and splices of valid encodings of the same class, plus unstructured bytes; the call must return or raise one
of NotEnoughData / TooMuchData / InvalidValue / InvalidType.
"""
import os
import random
import time

from vf.core import lib, pool, targets
from vf.core.stats import Finding, Stats
from vf.gen import mutate, seeds

ID = 'C02'
LEVEL = 'exploration'
RULE = ('for every concrete parsable class (and the subprotocol / parse_key entry points) inputs are: every proper '
        'prefix of every seed of the class (seed = input used by the repository\'s unit tests for that class, its '
        'bases, subclasses or variant members, and encodings composed from generated objects), seeded mutants '
        '(bit flips, byte sets, length-field corruption, insert/delete/duplicate, splices with other classes\' '
        'seeds, text tokens incl. non-ASCII / NUL / separators / huge digit strings) and unstructured bytes, '
        'through parse_immutable (all) and parse_exact_size / parse_mutable (sample). Non-trivial: the input is '
        'accepted, or it is a mutant/prefix of an input that this class accepts. Distinct by (target, input).')
ASSUMPTIONS = [
    'only bytes / bytearray arguments are passed (the documented types)',
    'classes that are abstract in practice (enum mix-ins without members, field-less multi-field bases, mix-in '
    'halves of the SSH certificate diamond) are excluded by the registry, not by catching their errors',
    'a call that does not return within 20 s is reported as hang/<target> (interpreter-level work is judged by C19)',
]

N_SHARDS = 64


def _parse(target, entry, data):
    if entry == 'immutable':
        return lib.call(target.parse_immutable, data)
    if entry == 'exact':
        return lib.call(target.parse_exact_size, data)
    if entry == 'mutable':
        return lib.call(target.parse_mutable, bytearray(data))
    raise ValueError(entry)


def check_case(case):
    target = targets.by_name(case['target'])
    data = bytes.fromhex(case['hex'])
    findings = []
    try:
        with targets.watchdog(20):
            outcome = _parse(target, case.get('entry', 'immutable'), data)
    except targets.Hang:
        return [Finding('hang/' + target.name, {'length': len(data)})]
    if outcome.kind == 'leak':
        exc = outcome.exc
        if isinstance(exc, targets.Hang):
            return [Finding('hang/' + target.name, {'length': len(data)})]
        findings.append(Finding(
            'leak:%s@%s' % (type(exc).__name__, lib.innermost_repo_frame(exc)),
            {'target': target.name, 'entry': case.get('entry', 'immutable'), 'error': repr(exc)[:200]}))
    return findings


def _evaluate(stats, target, entry, data, label, nontrivial):
    case = {'target': target.name, 'entry': entry, 'hex': data.hex()}
    stats.evaluations += 1
    stats.labels[label] += 1
    found = check_case(case)
    if nontrivial:
        stats.nontriv(target.name.encode() + b'|' + data)
    for finding in found:
        stats.finding(finding, case)
    return found


def extra_seeds_for(cls):
    """Encodings composed from generated objects (registry), if the generator package is available."""
    try:
        from vf.gen import registry  # pylint: disable=import-outside-toplevel
    except ImportError:
        return []
    return registry.composed_examples(cls)


INFLATED_SEEDS = 4


def header_block_seeds(already):
    """Header blocks made of the unit-test lines of every header field class (one line per block, and all of them in
    one block): what a field parser accepts alone reaches the block parser, which composes every item it has parsed."""
    from cryptoparser.httpx.header import HttpHeaderFieldParsedBase  # pylint: disable=import-outside-toplevel
    lines = []
    for cls in lib.concrete_classes():
        if issubclass(cls, HttpHeaderFieldParsedBase):
            for seed in seeds.seeds_for(cls)[:3]:
                line = seed.split(b'\r\n')[0]
                if b': ' in line and lib.call(cls.parse_immutable, line + b'\r\n').ok and line not in lines:
                    lines.append(line)
    # and "Name: value" lines made of the unit-test inputs of the value classes (most vectors exist for these)
    try:
        from vf.gen import textgen  # pylint: disable=import-outside-toplevel
        for info in textgen.TYPES.values():
            if not info.header:
                continue
            value_class = lib.resolve(info[2])
            for seed in [b for b in seeds.seeds_for(value_class) if lib.call(value_class.parse_exact_size, b).ok][:6]:
                line = info.header.encode('ascii') + b': ' + seed
                if b'\r' not in line and b'\n' not in line and line not in lines:
                    lines.append(line)
    except ImportError:
        pass
    blocks = [line + b'\r\n\r\n' for line in lines] + [b'\r\n'.join(lines[:40]) + b'\r\n\r\n']
    return [block for block in blocks if block not in already]


def numeric_fields(cls, seed):
    """[(offset, width)] of the fixed-width quantities the parser reads from an accepted seed: cutting the seed at the
    offset is answered with NotEnoughData(width), one byte later with width - 1 (same detector as C19's probes)."""
    errors = lib.errors()
    needed = []
    for pos in range(len(seed)):
        outcome = lib.call(cls.parse_immutable, seed[:pos])
        needed.append(outcome.exc.bytes_needed if not outcome.ok and isinstance(outcome.exc, errors.NotEnoughData) else None)
    found = []
    for pos, width in enumerate(needed):
        if width in (1, 2, 3, 4, 8) and pos + width <= len(seed) and (pos == 0 or needed[pos - 1] != width + 1):
            if width == 1 or needed[pos + 1] == width - 1:
                found.append((pos, width))
    return found


def _shard(arg):
    index, seed_value, per_target, budget_s = arg
    started = time.time()
    stats = Stats()
    rng = random.Random(seed_value)
    every = targets.all_targets()
    mine = every[index::N_SHARDS]
    donors = seeds.all_seeds()
    for target in mine:
        base = list(seeds.seeds_for(target.seeds_class)) if target.seeds_class is not None else []
        if target.is_class:
            base += [b for b in extra_seeds_for(target.cls) if b not in base]
        if target.is_class and target.cls.__name__ == 'HttpHeaderFields':
            base += header_block_seeds(base)
        if target.seed_transform is not None:
            base = sorted({target.seed_transform(b) for b in base}, key=lambda b: (len(b), b))
        accepted = {}
        for seed in base:
            outcome = lib.call(target.parse_immutable, seed)
            accepted[seed] = outcome.ok
            _evaluate(stats, target, 'immutable', seed, 'seed', outcome.ok)
            if outcome.ok:
                stats.classes[target.name] += 1
        if not base:
            stats.labels['targets-without-seed'] += 1
            base = [rng.choice(donors) for _ in range(4)]
            accepted = {seed: False for seed in base}
        # 1. exhaustive truncation
        for seed in base:
            for prefix in mutate.truncations(seed):
                _evaluate(stats, target, 'immutable', prefix, 'prefix', accepted[seed])
        # 1b. inflated variants of the accepted seeds (extreme numbers, long labels, deep nesting, calendar edges)
        #     and extreme values in every fixed-width numeric field the parser reads
        inflate_count = 80 if target.is_class and target.cls.__name__ == 'HttpHeaderFields' else INFLATED_SEEDS
        for seed in [s for s in base if accepted[s]][:inflate_count]:
            for name, data in mutate.inflations(seed):
                _evaluate(stats, target, 'immutable', data, 'inflated:' + name.split('-')[0], True)
            for name, data in mutate.utf8_substitutions(seed, limit=9):
                _evaluate(stats, target, 'immutable', data, 'inflated:' + name.split('-')[0], True)
            if target.is_class and not mutate.looks_textual(seed) and len(seed) <= 1500:
                fields = numeric_fields(target.cls, seed)
                for name, data in mutate.field_extremes(seed, fields[:48]):
                    _evaluate(stats, target, 'immutable', data, 'inflated:' + name, True)
        # 2. mutants
        text = None
        for number in range(per_target):
            if time.time() - started > budget_s:
                stats.budget_reached = True
                break
            seed = base[number % len(base)]
            rounds = rng.choice((1, 1, 1, 2, 3))
            name, data = mutate.mutate(rng, seed, donors, text)
            for _ in range(rounds - 1):
                name, data = mutate.mutate(rng, data, donors, text)
            entry = 'immutable'
            if not target.is_class:
                pass
            elif number % 8 == 6:
                entry = 'exact'
            elif number % 8 == 7:
                entry = 'mutable'
            found = _evaluate(stats, target, entry, data, 'mutant:' + name, accepted[seed])
            if number < 2 and not found:
                stats.sample('mutant', {'target': target.name, 'entry': entry, 'hex': data.hex()[:160],
                                        'mutator': name})
        # 3. unstructured
        for _ in range(max(20, per_target // 10)):
            _evaluate(stats, target, 'immutable', mutate.random_bytes(rng), 'random', False)
        stats.extra.setdefault('targets', 0)
        stats.extra['targets'] += 1
    return stats


def _hostile_shard(arg):
    """Reference-encoded TLS models with one opaque leaf replaced by a hostile value (vf/gen/hostile.py)."""
    seed_value, count = arg[0], arg[1]
    from vf.core import hyp  # pylint: disable=import-outside-toplevel
    from vf.gen import hostile  # pylint: disable=import-outside-toplevel
    from vf.props import c06  # pylint: disable=import-outside-toplevel
    stats = Stats()
    rng = random.Random(seed_value)
    by_class = {target.cls.__name__: target for target in targets.class_targets()}

    def case_fn(case, inner):
        model = c06._strip(case)  # pylint: disable=protected-access
        kind = model['kind']
        name = c06.ext_class_name(model, model['side']) if kind == 'extension' else c06.MESSAGE_CLASS[kind]
        target = by_class.get(name)
        if target is None:
            return ()
        for description, wire in hostile.variants(model, rng):
            found = _evaluate(inner, target, 'immutable', wire, 'hostile-model', True)
            inner.classes[name] += 1
            if not found and inner.labels['hostile-model'] % 400 == 1:
                inner.sample('hostile-model', {'target': name, 'replaced': description, 'hex': wire.hex()[:160]})
            # the same message through the containers a peer's bytes arrive in
            if kind in ('client_hello', 'server_hello', 'certificate', 'certificate_request', 'certificate_status'):
                variant = by_class.get('TlsHandshakeMessageVariant')
                if variant is not None:
                    _evaluate(inner, variant, 'immutable', wire, 'hostile-model:via-variant', True)
            elif kind == 'extension':
                vector = by_class.get('TlsExtensionsClient' if model['side'] == 'client' else 'TlsExtensionsServer')
                if vector is not None:
                    _evaluate(inner, vector, 'immutable', len(wire).to_bytes(2, 'big') + wire, 'hostile-model:via-vector', True)
        return ()
    hyp.explore(c06.strategies().any_case(), case_fn, stats, count, seed_value)
    # and, so that rare leaves (an SNI host name sits in 1 model of 80) are not left to chance: a fixed harvest of
    # models, up to six per leaf name, each given every hostile value suited to that leaf
    index = arg[2] if len(arg) > 2 else 0
    harvest = {}

    def collect(case, _inner):
        model = c06._strip(case)  # pylint: disable=protected-access
        for path in hostile._leaves(model):  # pylint: disable=protected-access
            bucket = harvest.setdefault(hostile.leaf_name(path), [])
            if len(bucket) < 6 and model not in bucket:
                bucket.append(model)
        return ()
    hyp.explore(c06.strategies().any_case(), collect, Stats(), 500, 20240931)
    for name in sorted(harvest)[index::16]:
        for model in harvest[name]:
            kind = model['kind']
            class_name = c06.ext_class_name(model, model['side']) if kind == 'extension' else c06.MESSAGE_CLASS[kind]
            target = by_class.get(class_name)
            if target is None:
                continue
            for _description, wire in hostile.all_variants(model, name):
                _evaluate(stats, target, 'immutable', wire, 'hostile-model:leaf-sweep', True)
                if kind == 'extension':
                    vector = by_class.get('TlsExtensionsClient' if model['side'] == 'client' else 'TlsExtensionsServer')
                    if vector is not None:
                        _evaluate(stats, vector, 'immutable', len(wire).to_bytes(2, 'big') + wire, 'hostile-model:via-vector', True)
    return stats


def run(ctx):
    from vf.gen import registry as _registry  # pylint: disable=import-outside-toplevel
    _registry.warm()
    per_target = 1500 if ctx.quick else 40000
    budget_s = 100 if ctx.quick else 1500
    jobs = [(index, ctx.derive_seed('shard', index), per_target, budget_s) for index in range(N_SHARDS)]
    stats = pool.run_shards(_shard, jobs)
    stats.merge(pool.run_shards(_hostile_shard, [(ctx.derive_seed('hostile', index), 60 if ctx.quick else 2500, index)
                                                 for index in range(16)]))
    if not ctx.quick:
        from vf.fuzz import campaign  # pylint: disable=import-outside-toplevel
        campaign.run(ID, ctx.derive_seed, stats, runs=int(os.environ.get('VERIF_ATHERIS_RUNS', '300000')))
    stats.extra['targets_total'] = len(targets.all_targets())
    stats.extra['classes_discovered'] = len(lib.all_classes())
    stats.extra['classes_excluded_abstract_in_practice'] = dict(lib.ABSTRACT_IN_PRACTICE)
    return stats


def shrink(ctx, key, entry):
    """Greedy byte-level minimisation keeping the same finding key (time-boxed)."""
    case = dict(entry['case'])
    data = bytes.fromhex(case['hex'])
    started = time.time()

    def still(candidate):
        trial = dict(case, hex=candidate.hex())
        return any(f.key == key for f in check_case(trial))

    changed = True
    while changed and time.time() - started < 20:
        changed = False
        size = len(data)
        chunk = max(1, size // 2)
        while chunk >= 1 and time.time() - started < 20:
            pos = 0
            while pos < len(data):
                candidate = data[:pos] + data[pos + chunk:]
                if len(candidate) < len(data) and still(candidate):
                    data = candidate
                    changed = True
                else:
                    pos += chunk
            chunk //= 2
    # canonicalise bytes towards zero
    for pos in range(len(data)):
        if time.time() - started > 25:
            break
        if data[pos] != 0:
            candidate = data[:pos] + b'\x00' + data[pos + 1:]
            if still(candidate):
                data = candidate
    case['hex'] = data.hex()
    detail = None
    for finding in check_case(case):
        if finding.key == key:
            detail = finding.detail
    return case, detail
