# -*- coding: utf-8 -*-
"""C17 — TLS protocol versions form a strict total order consistent with equality.

Finite space, enumerated completely: all ordered pairs and triples of all TlsVersion members, plus
Hypothesis-generated permutations of version lists for sorted/min/max/set.
"""
import itertools

from hypothesis import strategies as st

from vf.core import hyp
from vf.core.stats import Finding, Stats

ID = 'C17'
LEVEL = 'exploration'
RULE = ('all ordered pairs and all ordered triples of all members of TlsVersion are enumerated (exhaustive); '
        'additionally seeded Hypothesis permutations/sub-multisets of the member list are sorted/min/max/set-ed, and '
        'for every member every observer (str, repr, markdown, json, compose, all properties, comparisons, copy) '
        'alone and all of them in two orders are applied to one object whose hash / equality / set membership is '
        're-checked against a fresh object after each. '
        'A pair is non-trivial when its two versions differ, a triple when it has >=2 different versions, a '
        'permutation case when it holds >=3 different versions; distinct by the tuple of member names.')
ASSUMPTIONS = [
    'TlsVersion (cryptodatahub, installed in /venv) is the member table; the check enumerates whatever it holds',
    'the relative order of Google experiments versus drafts is not prescribed by the property and not asserted; '
    'only that both lie strictly between TLS 1.2 and TLS 1.3 and that the relation is a strict total order',
]


def _versions():
    from cryptodatahub.tls.version import TlsVersion  # pylint: disable=import-outside-toplevel
    from cryptoparser.tls.version import TlsProtocolVersion  # pylint: disable=import-outside-toplevel
    return TlsVersion, TlsProtocolVersion


def _obj(name):
    TlsVersion, TlsProtocolVersion = _versions()
    return TlsProtocolVersion(TlsVersion[name])


def _rank_class(name):
    """Position prescribed by the property text: (band, number-in-band or None if not prescribed)."""
    TlsVersion, _ = _versions()
    code = TlsVersion[name].value.code
    fixed = {0x0002: 0, 0x0300: 1, 0x0301: 2, 0x0302: 3, 0x0303: 4, 0x0304: 6}
    if code in fixed:
        return fixed[code], 0
    if code >> 8 == 0x7f:
        return 5, code & 0xff     # drafts are ordered by draft number
    if code >> 8 == 0x7e:
        return 5, None            # experiments: inside the band, position not prescribed
    return None, None


def _cmp_outcomes(a, b):
    return (a < b, a == b, a > b, a <= b, a >= b, a != b)


def check_case(case):
    findings = []
    kind = case['kind']
    names = case['versions']
    objs = [_obj(n) for n in names]
    if kind == 'pair':
        a, b = objs
        lt, eq, gt, le, ge, ne = _cmp_outcomes(a, b)
        if [bool(lt), bool(eq), bool(gt)].count(True) != 1:
            findings.append(Finding('trichotomy', {'pair': names, 'lt': lt, 'eq': eq, 'gt': gt}))
        if bool(le) != bool(lt or eq) or bool(ge) != bool(gt or eq) or bool(ne) == bool(eq):
            findings.append(Finding('derived-operators', {'pair': names, 'le': le, 'ge': ge, 'ne': ne}))
        if bool(eq) != (names[0] == names[1]):
            findings.append(Finding('equality', {'pair': names, 'eq': eq}))
        if eq and hash(a) != hash(b):
            findings.append(Finding('hash', {'pair': names}))
        if names[0] == names[1] and hash(a) != hash(_obj(names[0])):
            findings.append(Finding('hash', {'pair': names}))
        # antisymmetry of the strict order
        if lt and (b < a):
            findings.append(Finding('trichotomy', {'pair': names, 'both_less': True}))
        # prescribed chain
        (band_a, num_a), (band_b, num_b) = _rank_class(names[0]), _rank_class(names[1])
        if band_a is not None and band_b is not None:
            expected = None
            if band_a != band_b:
                expected = band_a < band_b
            elif num_a is not None and num_b is not None and num_a != num_b:
                expected = num_a < num_b
            if expected is not None and bool(lt) != expected:
                findings.append(Finding('chain', {'pair': names, 'lt': lt, 'expected_lt': expected}))
    elif kind == 'triple':
        a, b, c = objs
        if a < b and b < c and not a < c:
            findings.append(Finding('transitivity', {'triple': names}))
        if a == b and b == c and not a == c:
            findings.append(Finding('transitivity', {'triple': names, 'of': 'eq'}))
        if a == b and ((a < c) != (b < c) or (c < a) != (c < b)):
            findings.append(Finding('equality', {'triple': names, 'not_congruent': True}))
    elif kind == 'perm':
        # two arrival orders of the same multiset must give the same answers
        other = [_obj(n) for n in case['permuted']]
        if sorted(names) != sorted(case['permuted']):
            raise ValueError('not a permutation')
        key = lambda v: v.version.value.code  # noqa: E731  (identity of a member)
        try:
            s1, s2 = [key(v) for v in sorted(objs)], [key(v) for v in sorted(other)]
            if s1 != s2:
                findings.append(Finding('permutation', {'what': 'sorted', 'a': names, 'b': case['permuted']}))
            if key(min(objs)) != key(min(other)) or key(max(objs)) != key(max(other)):
                findings.append(Finding('permutation', {'what': 'min/max', 'a': names, 'b': case['permuted']}))
            if key(max(objs)) != s1[-1] or key(min(objs)) != s1[0]:
                findings.append(Finding('permutation', {'what': 'max!=sorted[-1]', 'a': names}))
            # sorted result must be ascending w.r.t. <
            srt = sorted(objs)
            for x, y in zip(srt, srt[1:]):
                if y < x:
                    findings.append(Finding('permutation', {'what': 'sorted-not-ascending', 'a': names}))
                    break
            if len(set(objs)) != len(set(names)) or len(set(other)) != len(set(names)):
                findings.append(Finding('hash', {'what': 'set-size', 'a': names}))
            for n in set(names):
                if _obj(n) not in set(objs):
                    findings.append(Finding('hash', {'what': 'set-membership', 'a': names, 'missing': n}))
                    break
        except TypeError as e:
            findings.append(Finding('trichotomy', {'what': 'comparison raised', 'error': repr(e), 'a': names}))
    elif kind == 'history':
        # observers of one object (rendering, serialising, composing, reading every public attribute) leave its
        # hash, its equality with a fresh object and its set membership as they were
        used = objs[0]
        fresh = _obj(names[0])
        before = hash(used)
        holder = {used}
        for op in case['ops']:
            _observe(used, op)
            if hash(used) != before or hash(used) != hash(_obj(names[0])):
                findings.append(Finding('hash', {'what': 'hash changed after an observer', 'version': names[0], 'op': op}))
                break
            if not used == fresh or used not in holder or fresh not in holder or used not in {fresh}:
                findings.append(Finding('hash', {'what': 'set membership / equality changed after an observer',
                                                 'version': names[0], 'op': op}))
                break
    else:
        raise ValueError(kind)
    return findings


OBSERVERS = ('str', 'repr', 'markdown', 'json', 'compose', 'attributes', 'compare', 'copy', 'format')


def _observe(obj, op):
    import copy  # pylint: disable=import-outside-toplevel
    try:
        if op == 'str':
            str(obj)
        elif op == 'repr':
            repr(obj)
        elif op == 'markdown':
            obj.as_markdown()
        elif op == 'json':
            obj.as_json()
        elif op == 'compose':
            obj.compose()
        elif op == 'attributes':
            for attribute in dir(type(obj)):
                if not attribute.startswith('_') and isinstance(getattr(type(obj), attribute, None), property):
                    getattr(obj, attribute)
        elif op == 'compare':
            other = _obj('TLS1_2')
            _cmp_outcomes(obj, other)
        elif op == 'copy':
            copy.deepcopy(obj)
            copy.copy(obj)
        elif op == 'format':
            '{}'.format(obj)
        else:
            raise ValueError(op)
    except ValueError:
        raise
    except Exception:  # pylint: disable=broad-except
        pass        # whether an observer works is the business of C14; here only what it leaves behind


def _perm_strategy(names):
    return st.lists(st.sampled_from(names), min_size=2, max_size=12).flatmap(
        lambda lst: st.permutations(lst).map(lambda p: {'kind': 'perm', 'versions': lst, 'permuted': list(p)}))


def _perm_case(case, stats):
    stats.evaluated()
    stats.label('perm')
    if len(set(case['versions'])) >= 3:
        stats.nontriv(('perm', case['versions'], case['permuted']))
        stats.sample('perm', case)
    return check_case(case)


def run(ctx):
    TlsVersion, _ = _versions()
    names = [v.name for v in TlsVersion]
    stats = Stats()
    for pair in itertools.product(names, repeat=2):
        case = {'kind': 'pair', 'versions': list(pair)}
        stats.evaluated()
        stats.label('pair')
        if pair[0] != pair[1]:
            stats.nontriv(('pair',) + pair)
        for finding in check_case(case):
            stats.finding(finding, case)
    stats.sample('pair', {'kind': 'pair', 'versions': [names[0], names[-1]]})
    stats.sample('pair', {'kind': 'pair', 'versions': ['TLS1_3', 'TLS1_3_GOOGLE_EXPERIMENT_1']})
    objs = {n: _obj(n) for n in names}
    lt = {(a, b): objs[a] < objs[b] for a in names for b in names}
    eq = {(a, b): objs[a] == objs[b] for a in names for b in names}
    for a, b, c in itertools.product(names, repeat=3):
        stats.evaluations += 1
        if a != b or b != c:
            stats.nontrivial.add(hash((a, b, c)) & 0xffffffffffffffff)
        # fast path on the precomputed relation; the slow path re-evaluates through check_case
        if (lt[a, b] and lt[b, c] and not lt[a, c]) or (eq[a, b] and (lt[a, c] != lt[b, c] or lt[c, a] != lt[c, b])):
            case = {'kind': 'triple', 'versions': [a, b, c]}
            for finding in check_case(case):
                stats.finding(finding, case)
    stats.labels['triple'] += len(names) ** 3
    stats.sample('triple', {'kind': 'triple', 'versions': ['TLS1_3_DRAFT_28', 'TLS1_3', 'TLS1_3_GOOGLE_EXPERIMENT_2']})
    for name in names:
        for ops in [[op] for op in OBSERVERS] + [list(OBSERVERS), list(reversed(OBSERVERS))]:
            case = {'kind': 'history', 'versions': [name], 'ops': ops}
            stats.evaluated()
            stats.label('history')
            stats.nontriv(('history', name, tuple(ops)))
            for finding in check_case(case):
                stats.finding(finding, case)
    stats.sample('history', {'kind': 'history', 'versions': [names[-1]], 'ops': list(OBSERVERS)})
    stats.extra['members'] = len(names)
    stats.extra['pairs'] = len(names) ** 2
    stats.extra['triples'] = len(names) ** 3
    stats.extra['exhaustive'] = True
    n = 2000 if ctx.quick else 50000
    hyp.explore(_perm_strategy(names), _perm_case, stats, n, ctx.derive_seed('perm'))
    return stats
