# -*- coding: utf-8 -*-
"""C04 — incremental reads guided by the missing-byte count reassemble the stream.

Two reader models are driven against the real parsers over generated record sequences and generated delivery
schedules; in addition the equivalent prefix formulation is enumerated for every generated record: every proper prefix
must be refused with NotEnoughData(k), 1 <= k <= bytes really missing.

A case is data: construction specs of the records (or hex for hand-encoded ones), the reader model, the list of
delivery chunks [size, attempt-after-it], and for the handshake layer the sizes of the TLS record fragments.
"""
import hashlib
import time

from hypothesis import strategies as st

from vf.core import hyp, lib, pool
from vf.core.stats import Finding, Stats
from vf.gen import objects
from vf.gen import spec as specs
from vf.props import c03

ID = 'C04'
LEVEL = 'exploration'
RULE = ('for every record layer (TlsRecord, SslRecord incl. hand-encoded three-byte-header records with padding, '
        'SshRecordInit/KexDH/KexDHGroup, MySQLRecord, TPKT, OpenVpnPacketWrapperTcp, the two LDAP StartTLS messages, '
        'PostgreSQL SslRequest) records are generated spec-first (registry strategies), composed, and (1) every '
        'proper prefix of every record <= 4 KiB is parsed (longer records, quick <= 33 KiB, thorough <= 64 KiB: the '
        'first and last 64 prefixes and 512 evenly spaced ones), (2) sequences of 1-6 records are cut '
        'into delivery chunks - one cut is forced strictly inside the header / length field of (almost) every '
        'record, further cuts at generated offsets, at record boundaries and one byte around them - and read by '
        'reader A (gets the first chunk unasked, then obtains exactly bytes_needed more bytes after every refusal) '
        'or reader B (takes the chunks as they come, '
        'retries after a chunk only when at least bytes_needed new bytes have arrived since the last failure; the '
        'schedule says after which chunks it tries at all). TLS handshake messages are concatenated, cut into TLS '
        'record fragments of 1..2^14 bytes (a cut forced inside every 4-byte handshake header), and read by a '
        'handshake-level reader stacked on the record-level reader. Non-trivial: >= 2 records and >= 1 cut strictly '
        'inside a header / length field (prefix enumeration: every record). Distinct by (stream hash, cuts, reader).')
ASSUMPTIONS = [
    'the bytes a sender "still has to write for the record in progress" are measured against the concatenation of '
    'the separately composed records; every composed record is checked to be exactly one frame by the independent '
    'header readers of C03 (otherwise it is not a case)',
    'the SSH identification string is line-delimited, not length-framed: for SshProtocolMessage only "a proper prefix '
    'is never accepted as a complete banner" is asserted',
    'when the incrementally parsed record differs from the original object in exactly the way the one-shot parse of '
    'the complete record does, the difference is a round-trip matter (C01), counted, not reported here',
    'hand-encoded wire-conformant messages (client hello whose cipher_suites holds only SCSVs, RFC 5746 3.3; '
    'Certificate with an empty certificate_list, RFC 5246 7.4.6) have no original object: for them only the reader '
    'invariants are judged',
    'a reader that has no bytes buffered does not call the parser (model B); model A starts with an empty buffer',
]

QUICK_MAX_RECORD = 4096
# the largest frame of the SSL 2.0 two-byte header (2 + 2^15-1) and of a TLS record (5 + 2^14 + 2048) fit
QUICK_CEILING = 33 * 1024
RANDOM32 = '5f000000' + '11' * 28
# wire-conformant handshake messages the spec strategies cannot express (no object model for them)
HANDSHAKE_HEX_POOL = [
    '01000029' + '0303' + RANDOM32 + '00' + '0002' + '00ff' + '0100',            # client hello, cipher_suites = {SCSV}
    '0100002b' + '0303' + RANDOM32 + '00' + '0004' + '560000ff' + '0100',        # both SCSVs, nothing else
    '0b000003' + '000000',                                                        # Certificate, empty certificate_list
]

# extensions at the lower bound of their grammar (an empty body, an empty or one-item list); the library's own
# constructors may refuse to build some of them, a peer may send every one
MINIMAL_EXTENSIONS = {
    'server': ['33740000', 'ff01000100', '00230000', '00050000', '00000000', '00170000', '00160000', '000b00020100',
               '00100005000302' + '6832', '002b00020304'],
    'client': ['33740000', 'ff01000100', '00230000', '00120000', '00150000', '00170000', '00160000',
               '000500050100000000', '000b00020100', '000a00040002001d', '000d00040002' + '0403', '002d00020101',
               '002b0003020304', '001c00024000', '0015000400000000'],
}


def _hello(message_type, extensions):
    body = '0303' + RANDOM32 + '00' + ('c02f' + '00' if message_type == '02' else '0002c02f' + '0100')
    if extensions is not None:
        joined = ''.join(extensions)
        body += '%04x' % (len(joined) // 2) + joined
    return message_type + '%06x' % (len(body) // 2) + body


def _minimal_extension_hellos():
    out = []
    for side, message_type in (('server', '02'), ('client', '01')):
        out.append(_hello(message_type, None))
        out.append(_hello(message_type, []))
        out.extend(_hello(message_type, [extension]) for extension in MINIMAL_EXTENSIONS[side])
        out.append(_hello(message_type, MINIMAL_EXTENSIONS[side]))
    return out


REFERENCE_POOL = []


def reference_pool():
    """Reference-encoded handshake messages (vf/gen/refseeds.py: the encoders of C06's model, independent of compose())
    and hellos carrying extensions at their lower bound.  They are 'lenient' entries: a message the parser refuses with
    a documented error other than NotEnoughData is not a case here (acceptance is C06's subject); one that is answered
    with NotEnoughData although it is complete is."""
    if not REFERENCE_POOL:
        from vf.gen import refseeds  # pylint: disable=import-outside-toplevel
        texts = list(_minimal_extension_hellos())
        for ref in HANDSHAKE_REFS:
            for wire in refseeds.for_class(lib.resolve(ref)):
                if len(wire) >= 4 and int.from_bytes(wire[1:4], 'big') + 4 == len(wire) and len(wire) <= 4096:
                    texts.append(wire.hex())
        REFERENCE_POOL.extend(sorted(set(texts)))
    return REFERENCE_POOL


REC = 'cryptoparser.tls.record:'
SUB = 'cryptoparser.tls.subprotocol:'
HANDSHAKE_REFS = [SUB + name for name in (
    'TlsHandshakeClientHello', 'TlsHandshakeServerHello', 'TlsHandshakeCertificate', 'TlsHandshakeServerKeyExchange',
    'TlsHandshakeCertificateRequest', 'TlsHandshakeCertificateStatus', 'TlsHandshakeServerHelloDone',
    'TlsHandshakeHelloRetryRequest')]

# layer -> (class the reader calls, spec sources, independent frame reader, header span used for the forced cut)
LAYERS = {
    'TlsRecord': (REC + 'TlsRecord', [REC + 'TlsRecord'], c03._decl_tls_record, 5),
    'SslRecord': (REC + 'SslRecord', [REC + 'SslRecord'], c03._decl_ssl_record, 2),
    'SshRecordInit': ('cryptoparser.ssh.record:SshRecordInit', ['cryptoparser.ssh.record:SshRecordInit'],
                      c03._decl_ssh_record, 5),
    'SshRecordKexDH': ('cryptoparser.ssh.record:SshRecordKexDH', ['cryptoparser.ssh.record:SshRecordKexDH'],
                       c03._decl_ssh_record, 5),
    'SshRecordKexDHGroup': ('cryptoparser.ssh.record:SshRecordKexDHGroup',
                            ['cryptoparser.ssh.record:SshRecordKexDHGroup'], c03._decl_ssh_record, 5),
    'MySQLRecord': ('cryptoparser.tls.mysql:MySQLRecord', ['cryptoparser.tls.mysql:MySQLRecord'], c03._decl_mysql, 4),
    'TPKT': ('cryptoparser.tls.rdp:TPKT', ['cryptoparser.tls.rdp:TPKT'], c03._decl_tpkt, 4),
    'OpenVpnPacketWrapperTcp': ('cryptoparser.tls.openvpn:OpenVpnPacketWrapperTcp',
                                ['cryptoparser.tls.openvpn:OpenVpnPacketWrapperTcp'], c03._decl_openvpn_tcp, 2),
    'LDAPExtendedRequestStartTLS': ('cryptoparser.tls.ldap:LDAPExtendedRequestStartTLS',
                                    ['cryptoparser.tls.ldap:LDAPExtendedRequestStartTLS'], c03._decl_ber, 2),
    'LDAPExtendedResponseStartTLS': ('cryptoparser.tls.ldap:LDAPExtendedResponseStartTLS',
                                     ['cryptoparser.tls.ldap:LDAPExtendedResponseStartTLS'], c03._decl_ber, 2),
    'SslRequest': ('cryptoparser.tls.postgresql:SslRequest', ['cryptoparser.tls.postgresql:SslRequest'],
                   c03._decl_pg, 8),
    # second-level units: TLS handshake messages (read through the variant)
    'TlsHandshakeMessageVariant': (SUB + 'TlsHandshakeMessageVariant', HANDSHAKE_REFS, c03._decl_handshake, 4),
}
BANNER = 'cryptoparser.ssh.subprotocol:SshProtocolMessage'


def _short(ref):
    return ref.split(':')[-1]


# ---------------------------------------------------------------------------------------------------
# records: entry (data) -> wire bytes + original object
# ---------------------------------------------------------------------------------------------------

def ssl2_three_byte(composed, padding):
    """Re-frame a composed SSL 2.0 record (two-byte header) with the three-byte header: 0|escape|14-bit length,
    padding length; the length counts the body and the padding (SSL 2.0 draft, record header format)."""
    body = composed[2:]
    length = len(body) + padding
    return bytes([(length >> 8) & 0x3f, length & 0xff, padding]) + body + b'\x00' * padding


class NotACase(Exception):
    pass


def realize(layer, entry):
    """-> (wire, original object or None, locus).  Raises NotACase when the constructor / composer refuses."""
    if 'hex' in entry:
        wire = bytes.fromhex(entry['hex'])
        if entry.get('lenient'):
            whole = lib.call(_class_of(layer).parse_exact_size, wire)
            if not whole.ok and not isinstance(whole.exc, lib.errors().NotEnoughData):
                raise NotACase('reference message refused: ' + type(whole.exc).__name__)
        return wire, None, entry.get('cls', layer)
    built = lib.call(specs.build, entry['spec'])
    if not built.ok:
        if isinstance(built.exc, specs.BuildError):
            raise built.exc
        raise NotACase('constructor: ' + type(built.exc).__name__)
    composed = lib.call(built.value.compose)
    if not composed.ok:
        raise NotACase('compose: ' + type(composed.exc).__name__)
    wire = bytes(composed.value)
    if entry.get('pad') is not None:
        if len(wire) - 2 + entry['pad'] >= 1 << 14:
            raise NotACase('too long for a three-byte header')
        wire = ssl2_three_byte(wire, entry['pad'])
    declared = LAYERS[layer][2](wire) if layer in LAYERS else len(wire)
    if declared != len(wire):
        raise NotACase('composed record is not one frame')
    return wire, built.value, _short(specs.spec_class(entry['spec']))


def _class_of(layer):
    return lib.resolve(LAYERS[layer][0]) if layer in LAYERS else lib.resolve(BANNER)


def _bad_count(value):
    return not isinstance(value, int) or isinstance(value, bool) or value < 1


# ---------------------------------------------------------------------------------------------------
# prefix formulation
# ---------------------------------------------------------------------------------------------------

EXHAUSTIVE_PREFIX_LIMIT = 4096


def prefix_sizes(length):
    """Every proper prefix for records up to 4 KiB; for longer records the first and last 64 prefixes and 512
    evenly spaced ones (the parse of a prefix copies it, so all prefixes of a 64 KiB record cost ~2 GB of copying)."""
    if length <= EXHAUSTIVE_PREFIX_LIMIT:
        return range(length)
    chosen = set(range(64)) | set(range(length - 64, length)) | set(range(0, length, max(1, length // 512)))
    return sorted(chosen)


def judge_prefixes(layer, entry):
    """-> (findings, number of prefixes parsed)"""
    errors = lib.errors()
    cls = _class_of(layer)
    wire, original, locus = realize(layer, entry)
    if layer in LAYERS and layer != 'TlsHandshakeMessageVariant':
        locus = layer
    findings = {}

    def add(key, detail):
        findings.setdefault(key, Finding(key, detail))

    whole = lib.call(cls.parse_mutable, bytearray(wire))
    banner = layer == 'SshProtocolMessage'
    if not whole.ok:
        if banner and isinstance(whole.exc, errors.NotEnoughData):
            # the identification string ends with its line end: a reader told to wait for more waits for a peer that
            # is itself waiting for our banner
            add('complete-rejected:NotEnoughData/' + locus, {
                'length': len(wire), 'error': repr(whole.exc)[:160], 'record': wire.hex()[:120]})
        if not banner:
            add('complete-rejected:%s/%s' % (type(whole.exc).__name__, locus), {
                'length': len(wire), 'error': repr(whole.exc)[:160], 'record': wire.hex()[:120]})
    elif original is not None and not banner:
        difference = lib.same(whole.value, original)
        if difference:
            add('sequence-differs/' + locus, {'difference': difference[:200], 'record': wire.hex()[:120], 'cut': None})
    sizes = prefix_sizes(len(wire))
    for size in sizes:
        out = lib.call(cls.parse_mutable, bytearray(wire[:size]))
        if out.ok:
            add('prefix-accepted/' + locus, {'prefix': size, 'length': len(wire), 'record': wire.hex()[:120]})
            continue
        if banner:
            continue
        exc = out.exc
        if not isinstance(exc, errors.NotEnoughData):
            add('prefix-other-error:%s/%s' % (type(exc).__name__, locus), {
                'prefix': size, 'length': len(wire), 'error': repr(exc)[:160], 'record': wire.hex()[:120]})
        elif _bad_count(exc.bytes_needed):
            add('needed<1/' + locus, {'prefix': size, 'length': len(wire), 'bytes_needed': repr(exc.bytes_needed),
                                      'record': wire.hex()[:120]})
        elif exc.bytes_needed > len(wire) - size:
            add('needed>missing/' + locus, {
                'prefix': size, 'length': len(wire), 'bytes_needed': exc.bytes_needed, 'missing': len(wire) - size,
                'record': wire.hex()[:120]})
    return list(findings.values()), len(sizes)


# ---------------------------------------------------------------------------------------------------
# reader models
# ---------------------------------------------------------------------------------------------------

class _Level(object):  # pylint: disable=too-many-instance-attributes
    """One framing level of a reader: a buffer, the units the sender writes (end offsets in the level's byte
    stream), and the parser that is asked for the next unit."""

    def __init__(self, cls, ends, loci, on_unit=None):
        self.cls, self.ends, self.loci, self.on_unit = cls, ends, loci, on_unit
        self.buf = bytearray()
        self.delivered = 0          # bytes of this level's stream that have arrived
        self.consumed = 0           # bytes handed out as complete units
        self.index = 0              # unit in progress
        self.need = 0               # bytes_needed of the last refusal
        self.fresh = 0              # bytes arrived since the last refusal
        self.parsed = []
        self.findings = []
        self.dead = False
        self.attempts = 0
        self.errors = lib.errors()

    def done(self):
        return self.index >= len(self.ends)

    def deliver(self, data):
        self.buf += data
        self.delivered += len(data)
        self.fresh += len(data)

    def _stop(self, key, detail):
        detail.update(unit=self.index, delivered=self.delivered, unit_end=self.ends[self.index] if not self.done() else None)
        self.findings.append(Finding(key, detail))
        self.dead = True
        return 'dead'

    def attempt(self):
        """Ask the parser for the unit in progress.  -> 'ok' | 'wait' | 'dead'"""
        if self.done():
            return 'dead'
        self.attempts += 1
        locus = self.loci[self.index]
        end = self.ends[self.index]
        before = len(self.buf)
        out = lib.call(self.cls.parse_mutable, self.buf)
        complete = self.delivered >= end
        if out.ok:
            length = before - len(self.buf)
            if not complete or self.consumed + length < end:
                return self._stop('prefix-accepted/' + locus, {'returned_bytes': length, 'complete': complete})
            if self.consumed + length > end:
                return self._stop('sequence-differs/' + locus, {
                    'what': 'the returned unit swallowed bytes of the next one', 'returned_bytes': length})
            self.consumed += length
            self.index += 1
            self.need = 0
            self.parsed.append(out.value)
            if self.on_unit is not None:
                self.on_unit(out.value)
            return 'ok'
        exc = out.exc
        name = type(exc).__name__
        if complete:
            return self._stop('complete-rejected:%s/%s' % (name, locus), {'error': repr(exc)[:160]})
        if not isinstance(exc, self.errors.NotEnoughData):
            return self._stop('prefix-other-error:%s/%s' % (name, locus), {'error': repr(exc)[:160]})
        count = exc.bytes_needed
        if _bad_count(count):
            return self._stop('needed<1/' + locus, {'bytes_needed': repr(count)})
        missing = end - self.delivered
        if count > missing:
            self.findings.append(Finding('needed>missing/' + locus, {
                'bytes_needed': count, 'missing': missing, 'unit': self.index, 'buffered': before}))
            count = missing                     # keep going: the rest of the stream is still worth reading
        self.need = count
        self.fresh = 0
        return 'wait'

    def pump(self):
        """Model B: retry only when something is buffered and at least `need` new bytes arrived."""
        while not self.dead and not self.done() and self.buf and self.fresh >= self.need:
            if self.attempt() != 'ok':
                break


def _read_stream(level, stream, reader, chunks):
    """Deliver `stream` to `level` as the reader model prescribes.

    A: the first chunk of the schedule arrives unasked (the peer started writing), from then on the reader obtains
       exactly bytes_needed more bytes after every refusal.
    B: the chunks arrive as scheduled; after a chunk flagged `attempt` the reader retries if the k-rule allows."""
    position = 0
    if reader == 'A':
        if chunks:
            level.deliver(stream[:chunks[0][0]])
            position = min(len(stream), chunks[0][0])
        guard = 0
        while not level.dead and not level.done() and guard < 200000:
            guard += 1
            if level.attempt() == 'wait':
                step = level.need
                level.deliver(stream[position:position + step])
                position += step
        return
    for size, attempt in chunks:
        if level.dead or position >= len(stream):
            break
        level.deliver(stream[position:position + size])
        position += size
        if attempt:
            level.pump()
    if not level.dead and position < len(stream):
        level.deliver(stream[position:])
    level.pump()            # everything has arrived; by the k-rule the reader may retry iff k <= bytes that came


def _finish(level, originals, wires, what):
    """End-of-stream clauses for one level -> (findings, number of C01-type differences not reported)."""
    findings = list(level.findings)
    skipped = 0
    if level.dead:
        return findings, skipped
    if not level.done() or level.buf:
        locus = level.loci[min(level.index, len(level.loci) - 1)]
        findings.append(Finding('sequence-differs/' + locus, {
            'what': what + ': reader stopped', 'units_read': level.index, 'units_sent': len(level.ends),
            'bytes_left_in_buffer': len(level.buf), 'last_bytes_needed': level.need}))
        return findings, skipped
    for index, (parsed, original) in enumerate(zip(level.parsed, originals)):
        if original is None:
            continue
        difference = lib.same(parsed, original)
        if not difference:
            continue
        alone = lib.call(level.cls.parse_exact_size, wires[index])
        if alone.ok and lib.same(alone.value, original) == difference:
            skipped += 1            # the one-shot parse differs in the same way: round trip, not fragmentation
            continue
        findings.append(Finding('sequence-differs/' + level.loci[index], {
            'what': what + ': unit differs from the original', 'unit': index, 'difference': difference[:200]}))
        break
    return findings, skipped


def judge_stream(case):
    """-> (findings, info) for a 'stream' or 'handshake' case"""
    layer = case['layer']
    realized = [realize(layer, entry) for entry in case['records']]
    wires = [item[0] for item in realized]
    originals = [item[1] for item in realized]
    info = {'records': len(wires)}
    if case['kind'] == 'stream':
        loci = [layer] * len(wires)
        ends = _ends(wires)
        level = _Level(_class_of(layer), ends, loci)
        stream = b''.join(wires)
        _read_stream(level, stream, case['reader'], case.get('chunks', ()))
        findings, skipped = _finish(level, originals, wires, 'record layer')
        chunks = case.get('chunks', ())
        info.update(stream=stream, attempts=level.attempts, skipped=skipped,
                    header_cut=_header_cut(layer, wires, chunks if case['reader'] == 'B' else chunks[:1]))
        return findings, info
    # handshake messages over TLS records
    message_stream = b''.join(wires)
    fragments = _cut(message_stream, case['fragments'], 1 << 14)
    records = [b'\x16\x03\x03' + len(fragment).to_bytes(2, 'big') + fragment for fragment in fragments]
    upper = _Level(_class_of('TlsHandshakeMessageVariant'), _ends(wires), [item[2] for item in realized])

    def on_record(record):
        upper.deliver(bytes(record.fragment))
        upper.pump()
    lower = _Level(_class_of('TlsRecord'), _ends(records), ['TlsRecord'] * len(records), on_unit=on_record)
    stream = b''.join(records)
    _read_stream(lower, stream, case['reader'], case.get('chunks', ()))
    findings, _ = _finish(lower, [None] * len(records), records, 'record layer')
    skipped = 0
    if not lower.dead and lower.done():
        more, skipped = _finish(upper, originals, wires, 'handshake layer')
        findings += more
    else:
        findings += upper.findings
    inside = any(start < position < start + 4 for start in [0] + _ends(wires)[:-1]
                 for position in _ends(fragments)[:-1])
    info.update(stream=stream, attempts=lower.attempts + upper.attempts, skipped=skipped, header_cut=inside,
                fragments=len(fragments))
    return findings, info


def _ends(parts):
    out, total = [], 0
    for part in parts:
        total += len(part)
        out.append(total)
    return out


def _cut(data, sizes, ceiling):
    """Cut data into pieces of the given sizes (each clamped to 1..ceiling); the rest follows in ceiling-sized pieces."""
    pieces, position = [], 0
    for size in sizes:
        if position >= len(data):
            break
        size = max(1, min(size, ceiling))
        pieces.append(data[position:position + size])
        position += size
    while position < len(data):
        pieces.append(data[position:position + ceiling])
        position += ceiling
    return pieces


def _header_cut(layer, wires, chunks):
    """True when a delivery boundary lies strictly inside the header / length field of some record."""
    span = LAYERS[layer][3]
    starts = [0] + _ends(wires)[:-1]
    position = 0
    boundaries = set()
    for size, _attempt in chunks:
        position += size
        boundaries.add(position)
    for start, wire in zip(starts, wires):
        header = min(span, len(wire))
        if layer == 'SslRecord' and not wire[0] & 0x80:
            header = min(3, len(wire))
        if any(start < boundary < start + header for boundary in boundaries):
            return True
    return False


def check_case(case):
    try:
        if case['kind'] == 'prefix':
            return judge_prefixes(case['layer'], case['record'])[0]
        return judge_stream(case)[0]
    except NotACase:
        return []


# ---------------------------------------------------------------------------------------------------
# generation
# ---------------------------------------------------------------------------------------------------

def _entry_strategy(layer):
    if layer == 'SshProtocolMessage':
        return objects.strategy_for(BANNER).map(lambda spec: {'spec': spec})
    sources = [objects.strategy_for(ref).map(lambda spec: {'spec': spec}) for ref in LAYERS[layer][1]]
    if layer == 'SslRecord':
        plain = sources[0]
        padded = st.tuples(objects.strategy_for(LAYERS[layer][1][0]), st.sampled_from([0, 1, 7, 8, 255]) | st.integers(0, 255)) \
            .map(lambda pair: {'spec': pair[0], 'pad': pair[1]})
        return st.one_of(plain, padded)
    if layer == 'TlsHandshakeMessageVariant':
        pool_entries = st.sampled_from(HANDSHAKE_HEX_POOL).map(lambda text: {'hex': text, 'cls': _hex_locus(text)})
        reference_entries = st.sampled_from(reference_pool()).map(
            lambda text: {'hex': text, 'cls': _hex_locus(text), 'lenient': True})
        return st.one_of(*(sources + sources + [pool_entries, reference_entries]))
    return st.one_of(*sources)


def _hex_locus(text):
    return {'01': 'TlsHandshakeClientHello', '02': 'TlsHandshakeServerHello', '0b': 'TlsHandshakeCertificate',
            '0c': 'TlsHandshakeServerKeyExchange', '0d': 'TlsHandshakeCertificateRequest',
            '16': 'TlsHandshakeCertificateStatus', '0e': 'TlsHandshakeServerHelloDone'}.get(
                text[:2], 'TlsHandshakeMessageVariant')


def _usable(layer, entry, ceiling):
    try:
        wire = realize(layer, entry)[0]
    except NotACase:
        return None
    return wire if len(wire) <= ceiling else None


@st.composite
def _stream_cases(draw, layer, ceiling):  # pylint: disable=too-many-locals,too-many-branches
    handshake = layer == 'TlsHandshakeMessageVariant'
    entries = draw(st.lists(_entry_strategy(layer), min_size=1, max_size=6))
    kept, wires = [], []
    for entry in entries:
        wire = _usable(layer, entry, ceiling)
        if wire is not None:
            kept.append(entry)
            wires.append(wire)
    case = {'kind': 'handshake' if handshake else 'stream', 'layer': layer, 'records': kept,
            'reader': draw(st.sampled_from(['A', 'B', 'B']))}
    if not kept:
        case['chunks'] = []
        if handshake:
            case['fragments'] = []
        return case
    if handshake:
        # fragment sizes of the handshake byte stream, then the record stream is what gets delivered
        message_stream = b''.join(wires)
        positions = _draw_cuts(draw, wires, 4, 90)
        case['fragments'] = _sizes(positions, len(message_stream))
        fragments = _cut(message_stream, case['fragments'], 1 << 14)
        wires = [b'\x16\x03\x03' + len(fragment).to_bytes(2, 'big') + fragment for fragment in fragments]
        span = 5
    else:
        span = LAYERS[layer][3]
    positions = _draw_cuts(draw, wires, span, 85)
    total = sum(len(wire) for wire in wires)
    sizes = _sizes(positions, total)
    flags = draw(st.lists(st.sampled_from([True, True, True, False]), min_size=len(sizes), max_size=len(sizes)))
    case['chunks'] = [[size, flag] for size, flag in zip(sizes, flags)]
    return case


def _draw_cuts(draw, wires, span, forced_probability):
    """Cut positions in the concatenation of `wires`: strictly inside the first `span` bytes of (most) units, at
    and around unit boundaries, and at free offsets."""
    total = sum(len(wire) for wire in wires)
    positions = set()
    start = 0
    for wire in wires:
        header = min(span, len(wire))
        if header >= 2 and draw(st.integers(0, 99)) < forced_probability:
            positions.add(start + draw(st.integers(1, header - 1)))
            if header >= 3 and draw(st.booleans()):
                positions.add(start + draw(st.integers(1, header - 1)))
        roll = draw(st.integers(0, 5))
        end = start + len(wire)
        if roll == 0:
            positions.add(end)
        elif roll == 1:
            positions.add(end - 1)
        elif roll == 2:
            positions.add(end + 1)
        elif roll == 3 and len(wire) > header:
            positions.add(start + header)
        start = end
    if total > 1:
        for position in draw(st.lists(st.integers(1, total - 1), max_size=6)):
            positions.add(position)
    return sorted(position for position in positions if 0 < position < total)


def _sizes(positions, total):
    sizes, previous = [], 0
    for position in positions + [total]:
        if position > previous:
            sizes.append(position - previous)
            previous = position
    return sizes


def _identity(case, info):
    digest = hashlib.blake2b(info['stream'], digest_size=8).hexdigest()
    return [case['layer'], digest, case['reader'], case.get('chunks'), case.get('fragments')]


def _prefix_job(arg):
    layer, examples, seed_value, ceiling, budget_s = arg
    stats = Stats()

    def case_fn(entry, stats):  # pylint: disable=redefined-outer-name
        case = {'kind': 'prefix', 'layer': layer, 'record': entry}
        try:
            wire = realize(layer, entry)[0]
        except NotACase:
            stats.labels['prefix:not-a-case'] += 1
            return ()
        if len(wire) > ceiling:
            stats.labels['prefix:too-long'] += 1
            return ()
        findings, count = judge_prefixes(layer, entry)
        stats.evaluations += 1
        stats.add('prefixes_parsed', count)
        stats.classes[layer] += 1
        stats.labels['prefix:records'] += 1
        stats.labels['prefix:all-prefixes' if len(wire) <= EXHAUSTIVE_PREFIX_LIMIT else 'prefix:long-record-sampled'] += 1
        stats.labels['prefix:padded' if entry.get('pad') is not None else ('prefix:hex' if 'hex' in entry else 'prefix:spec')] += 1
        stats.nontriv(layer.encode() + b'|' + wire)
        if stats.classes[layer] % 40 == 1:
            stats.sample('prefix:' + layer, {'kind': 'prefix', 'layer': layer, 'record_hex': wire.hex()[:160], 'length': len(wire)})
        return [Finding(f.key, f.detail) for f in findings]
    hyp.explore(_entry_strategy(layer), case_fn, stats, examples, seed_value, budget_s=budget_s)
    for entry in stats.findings.values():
        entry['case'] = {'kind': 'prefix', 'layer': layer, 'record': entry['case']}
    return stats


def _stream_job(arg):
    layer, examples, seed_value, ceiling, budget_s = arg
    stats = Stats()

    def case_fn(case, stats):  # pylint: disable=redefined-outer-name
        if not case['records']:
            stats.labels['stream:empty'] += 1
            return ()
        findings, info = judge_stream(case)
        stats.evaluations += 1
        stats.classes[layer] += 1
        stats.labels['stream:reader-' + case['reader']] += 1
        stats.labels['stream:records=%d' % info['records']] += 1
        stats.add('parse_attempts', info['attempts'])
        per_unit = info['attempts'] / float(max(1, info['records'] + info.get('fragments', 0)))
        stats.labels['stream:attempts-per-unit<=4' if per_unit <= 4 else (
            'stream:attempts-per-unit<=16' if per_unit <= 16 else 'stream:attempts-per-unit>16')] += 1
        if info['skipped']:
            stats.labels['stream:c01-roundtrip-differs'] += info['skipped']
        if info['records'] >= 2 and info['header_cut']:
            stats.labels['stream:nontrivial'] += 1
            stats.nontriv(_identity(case, info))
            if stats.labels['stream:nontrivial'] % 25 == 1:
                stats.sample('stream:' + layer, {
                    'layer': layer, 'reader': case['reader'], 'records': info['records'],
                    'stream_bytes': len(info['stream']), 'chunks': case.get('chunks', [])[:12],
                    'fragments': case.get('fragments', [])[:12] if 'fragments' in case else None})
        return findings
    hyp.explore(_stream_cases(layer, ceiling), case_fn, stats, examples, seed_value, budget_s=budget_s)
    return stats


def _pool_job(arg):
    """Every reference / lower-bound handshake message once: all its prefixes."""
    shard, shards = arg
    stats = Stats()
    layer = 'TlsHandshakeMessageVariant'
    entries = [{'hex': text, 'cls': _hex_locus(text)} for text in HANDSHAKE_HEX_POOL]
    entries += [{'hex': text, 'cls': _hex_locus(text), 'lenient': True} for text in reference_pool()]
    for entry in entries[shard::shards]:
        case = {'kind': 'prefix', 'layer': layer, 'record': entry}
        try:
            findings, count = judge_prefixes(layer, entry)
        except NotACase:
            stats.labels['pool:not-a-case'] += 1
            continue
        stats.evaluations += 1
        stats.add('prefixes_parsed', count)
        stats.labels['pool:messages'] += 1
        stats.classes[layer] += 1
        stats.nontriv(b'pool|' + bytes.fromhex(entry['hex']))
        for finding in findings:
            stats.finding(finding, case)
    return stats


def _job(arg):
    if arg[0] == 'pool':
        return _pool_job(arg[1:])
    return _prefix_job(arg[1:]) if arg[0] == 'prefix' else _stream_job(arg[1:])


def _jobs(ctx):
    quick = ctx.quick
    ceiling = QUICK_CEILING if quick else 65536 + 16
    budget_s = 75 if quick else 1500
    jobs = []
    layers = list(LAYERS) + ['SshProtocolMessage']
    for layer in layers:
        heavy = layer in ('TlsHandshakeMessageVariant', 'SshRecordKexDH', 'SshRecordKexDHGroup', 'SshRecordInit')
        small = layer in ('SslRequest', 'LDAPExtendedRequestStartTLS', 'LDAPExtendedResponseStartTLS')
        parts = (4 if heavy else 1) * (1 if quick else 4)
        prefix_total = (60 if small else 280) * (1 if quick else 20)
        stream_total = (120 if small else 300) * (1 if quick else 20)
        for part in range(parts):
            jobs.append(('prefix', layer, max(1, prefix_total // parts), ctx.derive_seed('prefix', layer, part),
                         ceiling, budget_s))
            if layer != 'SshProtocolMessage':
                jobs.append(('stream', layer, max(1, stream_total // parts), ctx.derive_seed('stream', layer, part),
                             ceiling, budget_s))
    jobs.extend(('pool', shard, 4) for shard in range(4))
    return jobs


def run(ctx):
    from vf.gen import registry as _registry  # pylint: disable=import-outside-toplevel
    _registry.warm()
    jobs = _jobs(ctx)
    stats = pool.run_shards(_job, jobs)
    stats.extra['layers'] = sorted(LAYERS) + ['SshProtocolMessage (prefix-never-accepted only)']
    stats.extra['record_ceiling_bytes'] = QUICK_CEILING if ctx.quick else 65536 + 16
    stats.extra['exhaustive_prefixes_up_to_bytes'] = EXHAUSTIVE_PREFIX_LIMIT
    return stats


def shrink(ctx, key, entry):
    """Drop records / merge chunks while the key stays (time-boxed, deterministic)."""
    case = entry['case']
    if case.get('kind') == 'prefix':
        return None
    started = time.time()

    def still(trial):
        try:
            return next((f for f in check_case(trial) if f.key == key), None)
        except Exception:  # pylint: disable=broad-except
            return None
    best = dict(case)
    detail = entry.get('detail')
    changed = True
    while changed and time.time() - started < 20:
        changed = False
        for index in range(len(best['records'])):
            trial = dict(best, records=best['records'][:index] + best['records'][index + 1:])
            if not trial['records']:
                continue
            hit = still(trial)
            if hit is not None:
                best, detail, changed = trial, hit.detail, True
                break
        if changed:
            continue
        for field in ('chunks', 'fragments'):
            items = best.get(field) or []
            for index in range(len(items) - 1):
                if field == 'chunks':
                    merged = items[:index] + [[items[index][0] + items[index + 1][0], items[index + 1][1]]] + items[index + 2:]
                else:
                    merged = items[:index] + [items[index] + items[index + 1]] + items[index + 2:]
                trial = dict(best, **{field: merged})
                hit = still(trial)
                if hit is not None:
                    best, detail, changed = trial, hit.detail, True
                    break
            if changed:
                break
    return best, detail
