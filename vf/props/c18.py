# -*- coding: utf-8 -*-
"""C18 - insignificant spelling of text fields never changes what is parsed.

`vf.gen.textgen` generates a semantic value model of a header / TXT record type, its canonical spelling and
re-spellings along the dimensions that the governing text declares insignificant (textgen.DIMENSIONS is the table
with the governing sentence per (type, dimension)).  This module builds the library object from the model (adapter)
and judges

    canonical   obj.compose() == canonical(m);  K.parse_exact_size(canonical(m)) succeeds and is `same` as obj
    spelling    for every variant v of m:  K.parse_exact_size(v) succeeds and is `same` as the parsed canonical
    line        RFC 7230 3.2: field-name case and OWS around the field value, through HttpHeaderField<X>
                .parse_immutable(line CRLF) or HttpHeaderFields
    block       a header block gives one item per line, in order, with the (lower-cased name, value) of an
                independent split on CRLF / first ":"; renaming a known field to an unknown name or corrupting its
                value leaves all other fields as they were
"""
import collections
import datetime

from hypothesis import strategies as st

from vf.core import hyp, lib, pool
from vf.core.lib import library_exceptions_are_findings as _guard
from vf.core.stats import Finding, Stats
from vf.gen import textgen

ID = 'C18'
LEVEL = 'exploration'
RULE = ('Hypothesis draws a semantic value model per type (HSTS, Expect-CT, Expect-Staple, HPKP, Cache-Control, '
        'Set-Cookie, Content-Type, X-XSS-Protection, CSP and its two sibling headers, NEL, Pragma, Referrer-Policy, '
        'X-Frame-Options, X-Content-Type-Options, Date, Expires, Last-Modified, Age, ETag, Server, DMARC, MTA-STS, '
        'TLSRPT, SPF) and several spellings of it; a spelling varies one dimension of the type\'s row in '
        'textgen.DIMENSIONS (80 %) or two / three of them together (20 %; a failing combination is attributed to its '
        'single dimensions by re-rendering each alone, and reported as an interaction only when every single one '
        'passes; the dimension unknown-directive-quoted-separator is only exercised alone).  Types without a row in '
        'that table get value cases without spellings (canonical clause only).  Header lines vary the five '
        'line-level dimensions of RFC 7230 3.2 for every header type; header '
        'blocks mix 0..8 known and unknown fields, optionally with OWS, and optionally rename / corrupt one field.  '
        'A variant is non-trivial when its bytes differ from the canonical spelling (a block: when it holds a known and '
        'an unknown or mutated field); distinct by (type, variant bytes).  Labels count variants per (type, dimension).')
ASSUMPTIONS = [
    'the soundness argument is textgen.DIMENSIONS / LINE_DIMENSIONS: a dimension is applied to a type only where the '
    'quoted sentence of the governing text declares it insignificant; Expect-Staple, X-XSS-Protection and the enum / '
    'date / string valued headers have no governing text for value-level variation and are varied at header-line level '
    'only',
    'equality is vf.core.lib.same (structural, plus the library\'s own == where every reachable class defines it)',
    'value leaves stay inside the RFC productions: token, quoted-string content without DQUOTE / backslash, base64 of '
    '32 octet pins and 1..24 octet nonces, delta-seconds <= 10^10, IMF-fixdate 1970..2099, lower-case http(s) / mailto '
    'URLs without percent escapes; one report-uri in eight carries the list separator inside its quoted-string '
    '(RFC 7230 3.2.6 allows it) - a canonical-clause finding there gets the suffix :separator-in-quoted-string',
    'not varied although the texts would allow it (outside the statement\'s list of variations): letter case of '
    'values (charset, SameSite, enum values, CSP keywords, hosts), numeric spellings (leading zeros), omission of tags '
    'that carry their default value (DMARC), "+" as the default SPF qualifier, the cookie-date grammar, JSON string '
    'escapes, DMARC / DKIM tag-name case (RFC 6376 3.2 says case-sensitive), SPF version case',
    'the library models one pin, one rua URI, one fo option and no ip6 cidr of a / mx (its spelling "/24/64" is not '
    'the RFC\'s "/24//64"): models hold what the library object can hold; HPKP empty elements are not varied (the '
    'RFC 7469 grammar has none); source lists and report-uri have >= 1 element (the suite pins the rejection of '
    '"default-src" without sources); CSP nonce / hash sources are spelled the way the library composes them '
    '(nonce-<b64>, no single quotes)',
    'SameSite is not an RFC 6265 attribute: its name case is not varied; the generic steps of RFC 6265 5.2 (WSP '
    'trimming, order, empty cookie-av) apply to it as to any cookie-av',
    'unknown header fields are not required to compare equal under name-case changes as objects (the library keeps '
    'the name as written); the block clause compares lower-cased names',
    'in a block a known field is expected in its detailed form exactly when its value class accepts the value on its '
    'own; otherwise it must appear as an unparsed field with the name as written and the value without OWS',
]

SHARDS = 16
THOROUGH_FACTOR = 16
VALUE_TYPES = [name for name in textgen.TYPES if textgen.dimensions_of(name) and name not in ('CSP-Report-Only',
                                                                                                'X-CSP')]
# no governing text for value-level variation: only the canonical clause is judged at value level
CANONICAL_ONLY_TYPES = [name for name in textgen.TYPES if not textgen.dimensions_of(name)]
# cases per shard and type (quick tier); every case carries SPELLINGS_PER_CASE spellings
VALUE_CASES = 60
CANONICAL_ONLY_CASES = 12
LINE_CASES = 8
BLOCK_CASES = 80
SPELLINGS_PER_CASE = 9
LINE_SPELLINGS_PER_CASE = 6


# --------------------------------------------------------------------------------------------------------------------
# library access

class _Lib(object):
    _cache = None

    def __init__(self):
        import dateutil.tz  # pylint: disable=import-outside-toplevel
        from cryptodatahub.common.algorithm import Hash  # pylint: disable=import-outside-toplevel
        from cryptoparser.common import field  # pylint: disable=import-outside-toplevel
        from cryptoparser.dnsrec import txt  # pylint: disable=import-outside-toplevel
        from cryptoparser.httpx import header  # pylint: disable=import-outside-toplevel
        self.utc = dateutil.tz.UTC
        self.Hash = Hash
        self.field = field
        self.txt = txt
        self.header = header
        self.csp_classes = {
            directive_type.value.code: classes[0]
            for directive_type, classes in header.ContentSecurityPolicyDirectiveVariant._get_variants().items()}  # pylint: disable=protected-access
        self.value_classes = {name: lib.resolve(info.value_ref) for name, info in textgen.TYPES.items()}
        self.field_classes = {name: lib.resolve(info.field_ref) for name, info in textgen.TYPES.items()
                              if info.field_ref}
        self.by_header = {info.header.lower(): name for name, info in textgen.TYPES.items() if info.header}


def L():  # pylint: disable=invalid-name
    if _Lib._cache is None:
        _Lib._cache = _Lib()
    return _Lib._cache


def _enum_by_code(enum_class, code):
    for member in enum_class:
        if member.value.code == code:
            return member
    raise KeyError(code)


def _seconds(value):
    return datetime.timedelta(seconds=value)


def _moment(seconds):
    return datetime.datetime.fromtimestamp(seconds, tz=L().utc)


# --------------------------------------------------------------------------------------------------------------------
# adapter: model -> library object

def _build_csp_source(source):
    H = L().header  # pylint: disable=invalid-name
    kind = source['k']
    if kind == 'keyword':
        return _enum_by_code(H.ContentSecurityPolicySourceKeyword, "'%s'" % source['v'])
    if kind == 'scheme':
        return H.ContentSecurityPolicySourceScheme(source['v'])
    if kind == 'nonce':
        return H.ContentSecurityPolicySourceNonce(bytearray(bytes.fromhex(source['v'])))
    if kind == 'hash':
        algorithm = {'sha256': L().Hash.SHA2_256, 'sha384': L().Hash.SHA2_384, 'sha512': L().Hash.SHA2_512}[source['alg']]
        return H.ContentSecurityPolicySourceHash(algorithm, bytearray(bytes.fromhex(source['v'])))
    return H.ContentSecurityPolicySourceHost(source['v'])


def _build_csp_directive(directive):
    H = L().header  # pylint: disable=invalid-name
    cls = L().csp_classes[directive['name']]
    kind, value = directive['kind'], directive['v']
    if kind == 'sources':
        return cls([_build_csp_source(source) for source in value])
    if kind in ('tokens', 'uris'):
        return cls(list(value))
    if kind == 'mimes':
        return cls([L().field.FieldValueMimeType(subtype, L().field.MimeTypeRegistry(registry))
                    for registry, subtype in value])
    if kind == 'sinks':
        return cls([_enum_by_code(H.ContentSecurityPolicyTrustedTypeSinkGroup, "'%s'" % sink) for sink in value])
    if kind == 'token':
        return cls(value)
    if kind == 'webrtc':
        return cls(_enum_by_code(H.ContentSecurityPolicyWebRtcType, "'%s'" % value))
    if kind == 'referrer':
        return cls(_enum_by_code(H.ContentSecurityPolicyReferrerPolicy, '"%s"' % value))
    return cls()


def _build_spf_term(term):
    T = L().txt  # pylint: disable=invalid-name
    kind = term['kind']
    if kind == 'unknown':
        return T.DnsRecordTxtValueSpfModifierUnknown(term['name'], term['value'])
    if kind == 'redirect':
        return T.DnsRecordTxtValueSpfModifierRedirect(term['domain'])
    if kind == 'exp':
        return T.DnsRecordTxtValueSpfModifierExplanation(term['domain'])
    qualifier = _enum_by_code(T.SpfQualifier, term['q']) if term.get('q') else None
    if kind == 'all':
        return T.DnsRecordTxtValueSpfDirectiveAll(qualifier=qualifier)
    if kind == 'include':
        return T.DnsRecordTxtValueSpfDirectiveInclude(domain=term['domain'], qualifier=qualifier)
    if kind == 'exists':
        return T.DnsRecordTxtValueSpfDirectiveExists(domain=term['domain'], qualifier=qualifier)
    if kind in ('a', 'mx'):
        cls = T.DnsRecordTxtValueSpfDirectiveA if kind == 'a' else T.DnsRecordTxtValueSpfDirectiveMx
        return cls(domain=term['domain'], ipv4_cidr_length=term['cidr4'], qualifier=qualifier)
    if kind == 'ptr':
        return T.DnsRecordTxtValueSpfDirectivePtr(domain=term['domain'], qualifier=qualifier)
    if kind == 'ip4':
        return T.DnsRecordTxtValueSpfDirectiveIp4(term['net'], qualifier=qualifier)
    return T.DnsRecordTxtValueSpfDirectiveIp6(term['net'], qualifier=qualifier)


def _extensions(pairs):
    if not pairs:
        return None
    return L().field.NameValuePairListSemicolonSeparated(collections.OrderedDict((name, value) for name, value in pairs))


def build(type_name, model):  # pylint: disable=too-many-return-statements,too-many-branches
    """The library object that `model` describes, through the public constructors."""
    H, T = L().header, L().txt  # pylint: disable=invalid-name
    cls = L().value_classes[type_name]
    kind = model['type']
    if kind == 'HSTS':
        return cls(max_age=_seconds(model['max_age']), include_subdomains=model['include_subdomains'],
                   preload=model['preload'])
    if kind == 'Expect-CT':
        return cls(max_age=_seconds(model['max_age']), enforce=model['enforce'], report_uri=model['report_uri'])
    if kind == 'Expect-Staple':
        return cls(max_age=_seconds(model['max_age']), include_subdomains=model['include_subdomains'],
                   preload=model['preload'], report_uri=model['report_uri'])
    if kind == 'HPKP':
        return cls(pin_sha256=bytearray(bytes.fromhex(model['pin'])), max_age=_seconds(model['max_age']),
                   include_subdomains=model['include_subdomains'], report_uri=model['report_uri'])
    if kind == 'Cache-Control':
        flags = {flag.replace('-', '_'): True for flag in model['flags']}
        return cls(max_age=None if model['max_age'] is None else _seconds(model['max_age']),
                   s_maxage=None if model['s_maxage'] is None else _seconds(model['s_maxage']), **flags)
    if kind == 'Set-Cookie':
        return cls(
            name=model['name'], value=model['value'],
            expires=None if model['expires'] is None else _moment(model['expires']),
            max_age=None if model['max_age'] is None else _seconds(model['max_age']),
            domain=model['domain'], path=model['path'], secure=model['secure'], http_only=model['http_only'],
            same_site=None if model['same_site'] is None else _enum_by_code(H.HttpHeaderSetCookieComponentSameSite,
                                                                            model['same_site']))
    if kind == 'Content-Type':
        mime = L().field.FieldValueMimeType(model['subtype'], L().field.MimeTypeRegistry(model['registry']))
        return cls(mime, charset=model['charset'], boundary=model['boundary'])
    if kind == 'X-XSS-Protection':
        return cls(_enum_by_code(H.HttpHeaderXXSSProtectionState, model['state']),
                   H.HttpHeaderXXSSProtectionMode.BLOCK if model['mode'] else None, model['report'])
    if kind == 'CSP':
        return cls([_build_csp_directive(directive) for directive in model['directives']])
    if kind == 'NEL':
        return cls(report_to=model['report_to'], max_age=model['max_age'], include_subdomains=model['include_subdomains'],
                   success_fraction=None if model['success_fraction'] is None else model['success_fraction'] / 1000.0,
                   failure_fraction=None if model['failure_fraction'] is None else model['failure_fraction'] / 1000.0)
    if kind == 'Pragma':
        return cls(_enum_by_code(H.HttpHeaderPragma, model['value']))
    if kind == 'Referrer-Policy':
        return cls(_enum_by_code(H.HttpHeaderReferrerPolicy, model['value']))
    if kind == 'X-Frame-Options':
        return cls(_enum_by_code(H.HttpHeaderXFrameOptions, model['value']))
    if kind == 'X-Content-Type-Options':
        return cls(_enum_by_code(H.HttpHeaderXContentTypeOptions, model['value']))
    if kind == 'Date':
        return cls(_moment(model['time']))
    if kind == 'Age':
        return cls(_seconds(model['seconds']))
    if kind in ('ETag', 'Server'):
        return cls(model['value'])
    if kind == 'DMARC':
        return cls(
            version=T.DmarcPolicyVersion.DMARC1, policy=_enum_by_code(T.DmarcPolicyOption, model['p']),
            alignment_dkim=_enum_by_code(T.DmarcAlignment, model['adkim']),
            alignment_aspf=_enum_by_code(T.DmarcAlignment, model['aspf']),
            failure_option=_enum_by_code(T.DmarcFailureReportingOption, model['fo']), percent=model['pct'],
            reporting_url_aggregated=model['rua'], reporting_url_failure=model['ruf'],
            reporting_format=T.DmarcFailureReportingFormat.AUTHENTICATION_FAILURE_REPORTING_FORMAT,
            reporting_interval=model['ri'],
            subdomain_policy=None if model['sp'] is None else _enum_by_code(T.DmarcPolicyOption, model['sp']))
    if kind == 'MTA-STS':
        return cls(version=T.MtaStsPolicyVersion.STSV1, identifier=model['id'],
                   extensions=_extensions(model['extensions']))
    if kind == 'TLSRPT':
        return cls(version=T.TlsRptVersion.TLSRPTV1, reporting_url_aggregated=model['rua'],
                   extensions=_extensions(model['extensions']))
    if kind == 'SPF':
        return cls(terms=[_build_spf_term(term) for term in model['terms']], version=T.SpfVersion.SPF1)
    raise KeyError(kind)


# --------------------------------------------------------------------------------------------------------------------
# the oracle: values and header lines

def _text(data, limit=300):
    text = bytes(data).decode('ascii', 'backslashreplace')
    return text if len(text) <= limit else '%s...(%d octets)' % (text[:limit], len(data))


def _parse(cls, data, immutable=False):
    """('ok', object) | ('error', exception)"""
    try:
        if immutable:
            return 'ok', cls.parse_immutable(data)[0]
        return 'ok', cls.parse_exact_size(data)
    except (KeyboardInterrupt, SystemExit, MemoryError):
        raise
    except Exception as e:  # pylint: disable=broad-except
        return 'error', e


def _describe_error(exc):
    return '%s: %s' % (type(exc).__name__, str(exc)[:160])


def _separator_in_quoted(model):
    separator = {'Expect-CT': ',', 'Expect-Staple': ';', 'HPKP': ';'}.get(model['type'])
    return bool(separator and model.get('report_uri') and separator in model['report_uri'])


def _slash_in_macro(model):
    """An SPF a / mx mechanism whose domain-spec holds '/' as a macro delimiter (RFC 7208 7.1 lists it): the domain is
    followed by an optional '/' cidr-length, and a parser that cuts at the first '/' cuts inside the macro braces."""
    import re  # pylint: disable=import-outside-toplevel
    if model['type'] != 'SPF':
        return False
    return any(term.get('kind') in ('a', 'mx') and term.get('domain') and re.search(r'%\{[^}]*/[^}]*\}', term['domain'])
               for term in model['terms'])


def _csp_locus(type_name, model, cls):
    """For a CSP policy whose canonical spelling misbehaves: the first directive that misbehaves on its own."""
    for directive in model['directives']:
        single = {'type': 'CSP', 'directives': [directive]}
        text = textgen.canonical(single)
        status, parsed = _parse(cls, text)
        if status != 'ok' or lib.same(parsed, build(type_name, single)):
            return ':' + directive['name']
    return ''


def _check_canonical(type_name, model, cls, findings):
    """Returns (canonical bytes, parsed canonical or None)."""
    canon = textgen.canonical(model)
    obj = build(type_name, model)
    suffix = ':separator-in-quoted-string' if _separator_in_quoted(model) else ''
    if _slash_in_macro(model):
        suffix = ':slash-delimiter-in-macro'
    try:
        composed = bytes(obj.compose())
    except Exception as e:  # pylint: disable=broad-except
        composed = None
        findings.append(Finding('canonical/%s:compose-fails:%s' % (type_name, type(e).__name__), {
            'canonical': _text(canon), 'error': _describe_error(e)}))
    if composed is not None and composed != canon:
        findings.append(Finding('canonical/%s:compose-differs' % type_name, {
            'expected': _text(canon), 'composed': _text(composed)}))
    status, parsed = _parse(cls, canon)
    if status != 'ok':
        locus = _csp_locus(type_name, model, cls) if model['type'] == 'CSP' else ''
        findings.append(Finding('canonical/%s:rejected:%s@%s%s%s' % (
            type_name, type(parsed).__name__, lib.innermost_repo_frame(parsed), locus, suffix), {
                'canonical': _text(canon), 'error': _describe_error(parsed)}))
        return canon, None
    difference = lib.same(parsed, obj)
    if difference:
        locus = _csp_locus(type_name, model, cls) if model['type'] == 'CSP' else ''
        findings.append(Finding('canonical/%s:parse-differs@%s%s%s' % (
            type_name, lib.field_of_diff(difference), locus, suffix), {
                'canonical': _text(canon), 'difference': difference[:300]}))
        # the canonical spelling does not carry this value through the parser: its variants have no sound reference
        return canon, None
    return canon, parsed


def _judge(parse, reference, data):
    """None when `data` parses to an object equal to `reference`, else a description."""
    status, parsed = parse(data)
    if status != 'ok':
        return 'rejected - ' + _describe_error(parsed)
    difference = lib.same(parsed, reference)
    if difference:
        return 'parsed differently - ' + difference[:240]
    return None


def _attribute(spelling, render, parse, reference, type_name, canon, findings):
    """Judge one spelling; a failing combination is attributed to its single dimensions."""
    data = render(spelling)
    problem = _judge(parse, reference, data)
    if problem is None:
        return
    blamed = []
    if len(spelling) > 1:
        for name in sorted(spelling):
            single = render({name: spelling[name]})
            single_problem = _judge(parse, reference, single)
            if single_problem is not None:
                blamed.append((name, single, single_problem))
    if not blamed:
        blamed = [(textgen.dimension_name(spelling), data, problem)]
    for name, text, what in blamed:
        findings.append(Finding('spelling/%s:%s' % (type_name, name), {
            'what': what, 'canonical': _text(canon), 'variant': _text(text),
            'governing_text': ' | '.join(textgen.citation(type_name, part) for part in name.split('+'))}))


def _check_value(case):
    type_name, model = case['type'], case['model']
    cls = L().value_classes[type_name]
    findings = []
    canon, reference = _check_canonical(type_name, model, cls, findings)
    if reference is None:
        return findings
    for spelling in case['spellings']:
        _attribute(spelling, lambda s: textgen.render(model, s), lambda data: _parse(cls, data), reference, type_name,
                   canon, findings)
    return findings


def _line_parser(type_name, via):
    field_cls = L().field_classes[type_name]
    if via == 'field':
        return lambda data: _parse(field_cls, data + b'\r\n', immutable=True)
    fields_cls = L().header.HttpHeaderFields

    def parse(data):
        status, parsed = _parse(fields_cls, data + b'\r\n\r\n')
        if status != 'ok':
            return status, parsed
        items = list(parsed)
        if len(items) != 1:
            return 'error', ValueError('%d items for one line' % len(items))
        return 'ok', items[0]
    return parse


def _check_line(case):
    type_name, model, via = case['type'], case['model'], case['via']
    findings = []
    parse = _line_parser(type_name, via)
    canon = textgen.line(type_name, model)
    status, reference = parse(canon)
    if status != 'ok' or not isinstance(reference, L().field_classes[type_name]):
        # the canonical value itself is not accepted in detail: that is the canonical clause's business (value cases)
        return findings
    for spelling in case['spellings']:
        _attribute(spelling, lambda s: textgen.line(type_name, model, s), parse, reference, 'header-line', canon,
                   findings)
    for finding in findings:
        finding.detail = dict(finding.detail, header=textgen.TYPES[type_name].header, via=via)
    return findings


# --------------------------------------------------------------------------------------------------------------------
# the oracle: header blocks

def reference_fields(block):
    """Independent reading of a block: split on CRLF, then on the first ":"; (lower-cased name, value without OWS)."""
    if not block.endswith(b'\r\n'):
        raise ValueError('block without terminating empty line')
    lines = block[:-2].split(b'\r\n')
    if lines and lines[-1] == b'':
        lines.pop()
    out = []
    for text in lines:
        name, colon, value = text.partition(b':')
        if not colon:
            raise ValueError('line without colon')
        out.append((name.decode('ascii').lower(), value.decode('ascii').strip(' \t')))
    return out


def _ows_suffix(entry):
    """':ows-leading' / ':ows-trailing' for a line whose OWS is not the canonical single SP / nothing (the generator
    varies one side per line)."""
    if entry['trail'] != '':
        return ':ows-trailing'
    if entry['lead'] != ' ':
        return ':ows-leading'
    return ''


def _judge_block(entries, findings, tag):
    """Parse the block of `entries`, compare with the reference reading; returns the items or None."""
    H = L().header  # pylint: disable=invalid-name
    block = textgen.block_text(entries)
    expected = reference_fields(block)
    if len(expected) != len(entries):
        raise AssertionError('reference split disagrees with the generator: %r' % (block,))
    status, parsed = _parse(H.HttpHeaderFields, block)
    detail = {'block': _text(block, 500), 'which': tag}
    if status != 'ok':
        findings.append(Finding('block/rejected:%s' % type(parsed).__name__, dict(
            detail, error=_describe_error(parsed), raised_in=lib.innermost_repo_frame(parsed))))
        return None
    items = list(parsed)
    if len(items) != len(expected):
        findings.append(Finding('block/count', dict(detail, items=len(items), lines=len(expected))))
        return None
    for index, (item, (name, value), entry) in enumerate(zip(items, expected, entries)):
        where = dict(detail, line=index, name=name, value=value[:120])
        ows = _ows_suffix(entry)
        unparsed = isinstance(item, H.HttpHeaderFieldUnparsed)
        item_name = item.name.lower() if unparsed else item.get_header_field_name().value.code
        if item_name != name:
            findings.append(Finding('block/name', dict(where, got=item_name)))
            continue
        type_name = L().by_header.get(name)
        standalone = None
        if type_name is not None:
            status, standalone = _parse(L().value_classes[type_name], value.encode('ascii'))
            if status != 'ok':
                standalone = None
        if standalone is not None and unparsed:
            # a field the detailed parser accepts on its own came back in the generic form
            findings.append(Finding('block/known-field' + (ows or ':unparsed'), dict(
                where, got='unparsed', got_value=item.value[:120])))
        elif standalone is not None:
            difference = lib.same(item.value, standalone)
            if difference:
                findings.append(Finding('block/known-field' + (ows or ':value'), dict(
                    where, difference=difference[:240])))
        elif not unparsed:
            findings.append(Finding('block/unexpected-typed' + ows, dict(where, got=repr(item.value)[:160])))
        elif item.value != value:
            if ows and item.value.strip(' \t') == value:
                findings.append(Finding('block/unknown-field' + ows, dict(where, got_value=item.value[:120])))
            else:
                findings.append(Finding('block/unknown-field:value', dict(where, got_value=item.value[:120])))
    return items


def _check_block(case):
    findings = []
    entries = case['entries']
    items = _judge_block(entries, findings, 'base')
    mutated = textgen.mutated_entries(case)
    if mutated is not None:
        changed_entries, changed = mutated
        changed_items = _judge_block(changed_entries, findings, 'mutated:' + case['mutation']['kind'])
        if items is not None and changed_items is not None:
            for index, (before, after) in enumerate(zip(items, changed_items)):
                if index == changed:
                    continue
                difference = lib.same(before, after)
                if difference:
                    findings.append(Finding('block/neighbour-changed', {
                        'block': _text(textgen.block_text(entries), 500), 'mutation': case['mutation'], 'line': index,
                        'difference': difference[:240]}))
    return findings


@_guard
def check_case(case):
    kind = case['kind']
    if kind == 'value':
        return _check_value(case)
    if kind == 'line':
        return _check_line(case)
    return _check_block(case)


# --------------------------------------------------------------------------------------------------------------------
# strategies of cases

def value_cases(type_name, spellings_per_case=SPELLINGS_PER_CASE):
    kind = textgen.TYPES[type_name].model_type
    if not textgen.DIMENSIONS.get(kind):
        return textgen.models(type_name).map(
            lambda model: {'kind': 'value', 'type': type_name, 'model': model, 'spellings': []})
    return st.builds(
        lambda model, spellings: {'kind': 'value', 'type': type_name, 'model': model, 'spellings': spellings},
        textgen.models(type_name), st.lists(textgen.spellings(kind), min_size=3, max_size=spellings_per_case))


def line_cases(type_name):
    return st.builds(
        lambda model, via, spellings: {'kind': 'line', 'type': type_name, 'model': model, 'via': via,
                                       'spellings': spellings},
        textgen.models(type_name), st.sampled_from(['field', 'fields']),
        st.lists(textgen.line_spellings(), min_size=2, max_size=LINE_SPELLINGS_PER_CASE))


def block_cases():
    return textgen.blocks().map(lambda block: dict(block, kind='block'))


# --------------------------------------------------------------------------------------------------------------------
# bookkeeping

def _render_case(case):
    kind = case['kind']
    if kind == 'block':
        return {'kind': kind, 'block': _text(textgen.block_text(case['entries']), 400), 'mutation': case['mutation']}
    model = case['model']
    if kind == 'value':
        texts = [[textgen.dimension_name(s), _text(textgen.render(model, s), 200)] for s in case['spellings'][:3]]
        return {'kind': kind, 'type': case['type'], 'canonical': _text(textgen.canonical(model), 200),
                'variants': texts}
    texts = [[textgen.dimension_name(s), _text(textgen.line(case['type'], model, s), 200)]
             for s in case['spellings'][:3]]
    return {'kind': kind, 'type': case['type'], 'via': case['via'],
            'canonical': _text(textgen.line(case['type'], model), 200), 'variants': texts}


def _count(case, stats):
    kind = case['kind']
    if kind == 'block':
        stats.cls('HttpHeaderFields')
        stats.label('block:%s' % case['flavour'])
        stats.label('block:fields=%s' % (len(case['entries']) if len(case['entries']) < 3 else '3+'))
        kinds = set(entry['kind'].split(':')[0] for entry in case['entries'])
        if case['mutation']:
            stats.label('block:mutation=%s' % case['mutation']['kind'])
        stats.add('blocks_evaluated', 2 if case['mutation'] and case['entries'] else 1)
        if 'known' in kinds and ('unknown' in kinds or (case['mutation'] and case['entries'])):
            stats.nontriv(b'block:' + textgen.block_text(case['entries']) + repr(case['mutation']).encode())
        return
    type_name, model = case['type'], case['model']
    if kind == 'value':
        stats.cls(L().value_classes[type_name].__name__)
        stats.label('canonical:%s' % type_name)
        canon = textgen.canonical(model)
        render = lambda spelling: textgen.render(model, spelling)  # noqa: E731
        prefix = type_name
    else:
        stats.cls(L().field_classes[type_name].__name__)
        canon = textgen.line(type_name, model)
        render = lambda spelling: textgen.line(type_name, model, spelling)  # noqa: E731
        prefix = 'header-line'
        stats.label('line:%s:via=%s' % (type_name, case['via']))
    for spelling in case['spellings']:
        data = render(spelling)
        stats.add('variants_evaluated')
        name = textgen.dimension_name(spelling)
        if len(spelling) == 1:
            stats.label('%s:%s' % (prefix, name))
        else:
            stats.label('%s:combined' % prefix)
            for part in spelling:
                stats.label('%s:%s(in combination)' % (prefix, part))
        if data != canon:
            stats.nontriv(('%s:%s:' % (kind, type_name)).encode() + data)
        else:
            stats.label('trivial-variant')


def _case_fn(origin):
    def case_fn(case, stats):
        stats.evaluated()
        _count(case, stats)
        label = case['kind'] if case['kind'] == 'block' else '%s:%s' % (case['kind'], case['type'])
        stats.sample(label, _render_case(case))
        findings = check_case(case)
        for finding in findings:
            finding.detail = dict(finding.detail, origin=origin)
        return findings
    return case_fn


# --------------------------------------------------------------------------------------------------------------------
# drivers

def _plan(factor):
    plan = [('value', name, VALUE_CASES * factor) for name in VALUE_TYPES]
    plan += [('value', name, CANONICAL_ONLY_CASES * factor) for name in CANONICAL_ONLY_TYPES]
    plan += [('line', name, LINE_CASES * factor) for name in textgen.HEADER_TYPES]
    plan.append(('block', '-', BLOCK_CASES * factor))
    return plan


def _strategy(stage, type_name):
    if stage == 'value':
        return value_cases(type_name)
    if stage == 'line':
        return line_cases(type_name)
    return block_cases()


def _shard(arg):
    index, seeds, plan = arg
    stats = Stats()
    for stage, type_name, count in plan:
        hyp.explore(_strategy(stage, type_name), _case_fn([stage, type_name, index]), stats, count,
                    seeds['%s:%s' % (stage, type_name)])
    return stats


def run(ctx):
    factor = 1 if ctx.quick else THOROUGH_FACTOR
    plan = _plan(factor)
    jobs = [(index, {'%s:%s' % (stage, name): ctx.derive_seed(stage, name, index) for stage, name, _ in plan}, plan)
            for index in range(SHARDS)]
    stats = pool.run_shards(_shard, jobs)
    table = {}
    for type_name, dims in textgen.DIMENSIONS.items():
        for name in dims:
            table['%s:%s' % (type_name, name)] = int(stats.labels.get('%s:%s' % (type_name, name), 0))
    for name in textgen.LINE_DIMENSIONS:
        table['header-line:%s' % name] = int(stats.labels.get('header-line:%s' % name, 0))
    stats.extra['single_dimension_variants'] = table
    stats.extra['dimensions_never_exercised'] = sorted(name for name, count in table.items() if not count)
    stats.extra['cases_per_shard'] = {'%s:%s' % (stage, name): count for stage, name, count in plan}
    return stats


def shrink(ctx, key, entry):
    origin = (entry.get('detail') or {}).get('origin')
    if not origin:
        return None
    stage, type_name, index = origin
    factor = 1 if ctx.quick else THOROUGH_FACTOR
    count = dict(((s, n), c) for s, n, c in _plan(factor))[(stage, type_name)]
    case, detail = hyp.shrink(_strategy(stage, type_name), _case_fn(origin), key, count,
                              ctx.derive_seed(stage, type_name, index), box_s=8.0)
    if case is None:
        return None
    if case['kind'] != 'block' and len(case['spellings']) > 1:
        # keep only the spellings that still produce the key
        for spelling in case['spellings']:
            single = dict(case, spellings=[spelling])
            hit = [finding for finding in check_case(single) if finding.key == key]
            if hit:
                return single, dict(hit[0].detail, origin=origin)
    return case, detail
