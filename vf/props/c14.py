# -*- coding: utf-8 -*-
"""C14 — JSON and Markdown output is always well-formed, deterministic and faithful.

Oracle: serialisation never raises, the JSON text is accepted by a strict standard parser, Markdown is text, and the
output is a function of the object's value only: metamorphic relations against a deep copy, the parse-compose round
trip, rebuilt sets with permuted insertion order, a different serialisation order inside one process and different
PYTHONHASHSEED values in child processes.
"""
import copy
import hashlib
import json
import os
import random
import subprocess
import sys
import time

from vf.core import env, hyp, lib, pool
from vf.core.stats import Finding, Stats, digest, jdump
from vf.gen import mutate, registry, seeds
from vf.gen import spec as specs

ID = 'C14'
LEVEL = 'exploration'
RULE = ('every class with a spec strategy contributes generated objects (Hypothesis), every concrete class contributes '
        'the objects parsed from its accepted seeds and from accepted seeded mutants of them; each object is '
        'serialised with as_json()/as_markdown() when it is Serializable and with json.dumps() (the library\'s patched '
        'encoder) otherwise; the text is re-read with json.loads(parse_constant=reject). Relations: same output for '
        'deepcopy(obj), for parse(compose(obj)) when that round trip yields an equal object, for a copy whose '
        'set-valued fields are rebuilt in reversed insertion order, for the same objects serialised in reversed order '
        'in one process, and for child processes running the same seeded cases under PYTHONHASHSEED 0..3. '
        'Non-trivial: the object has a non-scalar field (vector, set, bytes, enum, datetime, nested object). Distinct '
        'by (class, output hash).')
ASSUMPTIONS = [
    'json.loads of the standard library with parse_constant rejecting NaN/Infinity/-Infinity is "a standard JSON parser"',
    'X.509 certificates inside SSH host keys are taken from the corpus as they are; *mutated* certificates are not '
    'generated: asn1crypto parses them lazily, so a damaged certificate is accepted and fails (or changes its answer) '
    'later inside cryptodatahub/asn1crypto - recorded once as a known finding for the corpus-derived cases',
    'an object that cannot be composed or does not round-trip to an equal object is skipped for the round-trip relation '
    'only (that is C01/C05 territory)',
]


def _reject_constant(name):
    raise ValueError('non-standard JSON constant ' + name)


def serialise(obj):
    """{'json': Outcome, 'md': Outcome or None}"""
    from cryptoparser.common.base import Serializable  # pylint: disable=import-outside-toplevel
    if isinstance(obj, Serializable):
        return {'json': lib.call(obj.as_json), 'md': lib.call(obj.as_markdown)}
    return {'json': lib.call(json.dumps, obj), 'md': None}


def _texts(result):
    return (result['json'].value if result['json'].ok else result['json'].signature(),
            None if result['md'] is None else (result['md'].value if result['md'].ok else result['md'].signature()))


def _permute_sets(obj, depth=0):
    """In-place: every set-valued attrs field is rebuilt with reversed insertion order (an equal object)."""
    from cryptoparser.common.base import ArrayBase  # pylint: disable=import-outside-toplevel
    import attr  # pylint: disable=import-outside-toplevel
    count = 0
    if depth > 10 or obj is None:
        return 0
    if isinstance(obj, (list, tuple, ArrayBase)):
        for item in list(obj)[:20]:
            count += _permute_sets(item, depth + 1)
        return count
    if not type(obj).__module__.startswith('cryptoparser.') or not attr.has(type(obj)):
        return 0
    for field in attr.fields(type(obj)):
        value = getattr(obj, field.name, None)
        if isinstance(value, (set, frozenset)) and len(value) >= 2:
            rebuilt = type(value)(reversed(list(value)))
            try:
                object.__setattr__(obj, field.name, rebuilt)
                count += 1
            except Exception:  # pylint: disable=broad-except
                pass
        else:
            count += _permute_sets(value, depth + 1)
    return count


def _has_nonscalar(obj):
    import attr  # pylint: disable=import-outside-toplevel
    import enum  # pylint: disable=import-outside-toplevel
    if isinstance(obj, enum.Enum):
        return True
    if attr.has(type(obj)):
        return any(not isinstance(getattr(obj, f.name, None), (bool, int, float, str, type(None))) for f in attr.fields(type(obj)))
    return hasattr(obj, '__len__') or hasattr(obj, '__dict__')


def _obtain(case):
    if 'text_model' in case:
        from vf.props import c18  # pylint: disable=import-outside-toplevel
        built = lib.call(c18.build, case['type'], case['text_model'])
        return built.value if built.ok else None
    if 'spec' in case:
        built = lib.call(specs.build, case['spec'])
        if not built.ok:
            if isinstance(built.exc, specs.BuildError):
                raise built.exc
            return None
        return built.value
    cls = lib.resolve(case['cls'])
    parsed = lib.call(cls.parse_immutable, bytes.fromhex(case['hex']))
    return parsed.value[0] if parsed.ok else None


def _python_equal(first, second):
    """Equality as a caller sees it (==): an IntEnum member equals its number, a dict equals an OrderedDict."""
    try:
        return bool(first == second)
    except Exception:  # pylint: disable=broad-except
        return False


def judge(case):
    """-> (object, findings, (json text, markdown text))"""
    obj = _obtain(case)
    if obj is None:
        return None, [], None
    if case.get('mutant') and 'PublicKeyX509' in jdump(lib.dump(obj))[:200000]:
        return None, [], None      # see ASSUMPTIONS: damaged X.509 certificates are not in the generated domain
    name = type(obj).__name__
    findings = []
    pinned_before = set(_class_level_encoders())
    result = serialise(obj)
    texts = _texts(result)
    findings.extend(_left_behind(pinned_before, name))
    if not result['json'].ok:
        findings.append(Finding('json-raises:%s@%s' % (type(result['json'].exc).__name__, lib.raise_locus(result['json'].exc)),
                                {'class': name, 'error': repr(result['json'].exc)[:200]}))
    else:
        text = result['json'].value
        if not isinstance(text, str):
            findings.append(Finding('json-type/%s' % name, {'type': type(text).__name__}))
        else:
            try:
                json.loads(text, parse_constant=_reject_constant)
            except ValueError as e:
                findings.append(Finding('json-invalid/%s' % name, {'error': str(e)[:120], 'text': text[:200]}))
    if result['md'] is not None:
        if not result['md'].ok:
            findings.append(Finding('md-raises:%s@%s' % (type(result['md'].exc).__name__, lib.raise_locus(result['md'].exc)),
                                    {'class': name, 'error': repr(result['md'].exc)[:200]}))
        elif not isinstance(result['md'].value, str):
            findings.append(Finding('md-type/%s' % name, {'type': type(result['md'].value).__name__}))
    if findings:
        return obj, findings, texts
    # determinism relations
    duplicate = lib.call(copy.deepcopy, obj)
    if duplicate.ok and _texts(serialise(duplicate.value)) != texts:
        findings.append(Finding('nondeterministic:deepcopy/%s' % name, {}))
    if duplicate.ok and _permute_sets(duplicate.value):
        if _texts(serialise(duplicate.value)) != texts:
            findings.append(Finding('nondeterministic:set-order/%s' % name, {
                'a': texts[0][:160], 'b': _texts(serialise(duplicate.value))[0][:160]}))
    findings.extend(_encoder_relation(obj, name, texts))
    if hasattr(obj, 'compose') and hasattr(type(obj), 'parse_exact_size'):
        composed = lib.call(obj.compose)
        if composed.ok:
            reparsed = lib.call(type(obj).parse_exact_size, bytes(composed.value))
            if reparsed.ok and (lib.same(reparsed.value, obj) is None or _python_equal(reparsed.value, obj)) \
                    and _texts(serialise(reparsed.value)) != texts:
                findings.append(Finding('nondeterministic:roundtrip/%s' % name, {
                    'a': texts[0][:160], 'b': _texts(serialise(reparsed.value))[0][:160]}))
            # the same object after it has been composed (an earlier operation of the same process) still renders
            # the same documents
            again = _texts(serialise(obj))
            if again != texts:
                findings.append(Finding('nondeterministic:after-compose/%s' % name, {
                    'a': str(texts[0])[:200], 'b': str(again[0])[:200]}))
    return obj, findings, texts


def _class_level_encoders():
    from cryptoparser.common.base import Serializable  # pylint: disable=import-outside-toplevel
    seen, stack, found = set(), [Serializable], []
    while stack:
        cls = stack.pop()
        for sub in cls.__subclasses__():
            if sub not in seen:
                seen.add(sub)
                stack.append(sub)
                if 'post_text_encoder' in sub.__dict__:
                    found.append(sub)
    return found


def _encoder_relation(obj, name, texts):
    """The Markdown text encoder is a documented hook (Serializable.post_text_encoder, an application installs its own
    to colour or escape the leaves).  With a hook installed the same object renders the same text twice; after the
    hook is taken out again it renders what it rendered before; and rendering leaves no class-level copy of an
    encoder behind (such a copy pins the configuration of the moment for that class: what a later render gives would
    depend on what was rendered before)."""
    from cryptoparser.common.base import Serializable, SerializableTextEncoder  # pylint: disable=import-outside-toplevel
    if not isinstance(obj, Serializable) or not isinstance(texts[1], str):
        return []

    class Marking(SerializableTextEncoder):
        def __call__(self, value, level):
            multiline, text = super(Marking, self).__call__(value, level)
            return multiline, text.upper()
    findings = []
    before = set(_class_level_encoders())
    original = Serializable.__dict__['post_text_encoder']
    Serializable.post_text_encoder = Marking()
    try:
        first, second = lib.call(obj.as_markdown), lib.call(obj.as_markdown)
    finally:
        Serializable.post_text_encoder = original
    third = lib.call(obj.as_markdown)
    if first.ok and second.ok and first.value != second.value:
        findings.append(Finding('nondeterministic:encoder-hook/%s' % name, {
            'what': 'two renders under the same installed encoder differ', 'a': first.value[:160], 'b': second.value[:160]}))
    elif third.ok and third.value != texts[1]:
        findings.append(Finding('nondeterministic:encoder-hook/%s' % name, {
            'what': 'after the hook was removed the object renders differently from before', 'a': texts[1][:160], 'b': third.value[:160]}))
    findings.extend(_left_behind(before, name))
    return findings


def _left_behind(before, name):
    left = [cls for cls in _class_level_encoders() if cls not in before]
    if not left:
        return []
    for cls in left:
        try:
            delattr(cls, 'post_text_encoder')        # do not let one case poison the next
        except AttributeError:
            pass
    return [Finding('class-state-left-behind:post_text_encoder/%s' % name, {'classes': sorted(cls.__name__ for cls in left)[:6]})]


def check_case(case):
    if case.get('kind') == 'batch':
        return check_batch(case)
    if case.get('kind') in ('hashseed', 'history'):
        return [finding for finding, _case in _relation(case['kind'], case['seed'], case['examples'])]
    return judge(case)[1]


def check_batch(case):
    """The same objects serialised in two different orders inside one process give the same per-object output."""
    objects_ = [_obtain(member) for member in case['members']]
    objects_ = [obj for obj in objects_ if obj is not None]
    forward = [_texts(serialise(obj)) for obj in objects_]
    backward = [_texts(serialise(obj)) for obj in reversed(objects_)]
    backward.reverse()
    for obj, one, two in zip(objects_, forward, backward):
        if one != two:
            return [Finding('nondeterministic:batch-order/%s' % type(obj).__name__, {'a': str(one[1])[:120], 'b': str(two[1])[:120]})]
    return []


# ---------------------------------------------------------------------------------------------------

def _record(stats, case, name):
    stats.evaluations += 1
    obj, findings, texts = judge(case)
    if obj is None:
        stats.labels['not-an-object'] += 1
        return findings, None
    stats.classes[name] += 1
    if texts is not None and _has_nonscalar(obj):
        stats.nontriv((name, digest(jdump(texts))))
    if texts is not None and texts[0] and stats.classes[name] % 80 == 1 and isinstance(texts[0], str):
        stats.sample(name, {'json': texts[0][:200], 'markdown': str(texts[1] or '')[:120]})
    return findings, texts


def _spec_job(arg):
    ref, examples, seed_value, budget_s = arg
    stats = Stats()
    name = ref.split(':')[-1]
    recent = []

    def case_fn(spec, inner):
        case = {'spec': spec}
        findings, texts = _record(inner, case, name)
        inner.labels['spec'] += 1
        if texts is not None:
            recent.append(case)
            if len(recent) == 6:
                batch = {'kind': 'batch', 'members': list(recent)}
                inner.evaluations += 1
                inner.labels['batch'] += 1
                for finding in check_batch(batch):
                    inner.finding(finding, batch)
                del recent[:]
        return findings
    hyp.explore(registry.strategy_for(ref), case_fn, stats, examples, seed_value, budget_s=budget_s)
    for entry in stats.findings.values():
        if 'kind' not in entry['case'] and 'spec' not in entry['case']:
            entry['case'] = {'spec': entry['case']}
    return stats


def _parsed_job(arg):
    index, shards, mutants, seed_value, budget_s = arg
    started = time.time()
    stats = Stats()
    rng = random.Random(seed_value)
    donors = seeds.all_seeds()
    for cls in lib.concrete_classes()[index::shards]:
        ref = lib.ref_of(cls)
        base = list(seeds.seeds_for(cls))
        # hand-made variants of the seeds the unit tests do not have (certificates without an extension block,
        # BER length forms, three-byte SSL 2.0 headers): objects with absent optional parts
        base += [data for data in registry.composed_examples(cls) if data not in base and len(data) <= 4096][:12]
        inputs = list(base)
        if base:
            for number in range(mutants):
                inputs.append(mutate.mutate(rng, base[number % len(base)], donors)[1])
        recent = []
        for number, data in enumerate(inputs):
            if time.time() - started > budget_s:
                stats.budget_reached = True
                break
            case = {'cls': ref, 'hex': data.hex()}
            if number >= len(base):
                case['mutant'] = True
            findings, texts = _record(stats, case, cls.__name__)
            stats.labels['parsed'] += 1
            for finding in findings:
                stats.finding(finding, case)
            if texts is not None:
                recent.append(case)
                if len(recent) == 8:
                    batch = {'kind': 'batch', 'members': list(recent)}
                    stats.evaluations += 1
                    stats.labels['batch'] += 1
                    for finding in check_batch(batch):
                        stats.finding(finding, batch)
                    del recent[:]
    return stats


def _text_job(arg):
    """Text families built through the public constructors from the grammar models of C18 (objects that did not come
    out of a parser: the original of a parse-compose round trip)."""
    type_name, examples, seed_value, budget_s = arg
    from vf.gen import textgen  # pylint: disable=import-outside-toplevel
    from vf.props import c18  # pylint: disable=import-outside-toplevel
    stats = Stats()
    name = c18.L().value_classes[type_name].__name__

    def case_fn(model, inner):
        case = {'text_model': model, 'type': type_name}
        findings, _texts_ = _record(inner, case, name)
        inner.labels['text-model'] += 1
        return findings
    hyp.explore(textgen.models(type_name), case_fn, stats, examples, seed_value, budget_s=budget_s)
    for entry in stats.findings.values():
        if 'text_model' not in entry['case']:
            entry['case'] = {'text_model': entry['case'], 'type': type_name}
    return stats


def _job(arg):
    if arg[0] == 'text':
        return _text_job(arg[1:])
    return _spec_job(arg[1:]) if arg[0] == 'spec' else _parsed_job(arg[1:])


def _spec_jobs(ctx, examples, budget_s):
    base = ctx.derive_seed('c14')
    return [('spec', ref, examples, base ^ (digest(ref) & 0xffffffff), budget_s) for ref in registry.registered()]


HASHSEED_REFS = 24


def child_digests(seed_value, examples):
    """Per-case output hashes for a fixed family of seeded cases (run in child processes with other hash seeds)."""
    out = {}
    refs = registry.registered()
    chosen = [ref for ref in refs if any(token in ref for token in (
        'Dnskey', 'MySQLHandshake', 'RDPNegotiation', 'ClientHello', 'ServerHello', 'KeyExchangeInit', 'HostCertificateV01RSA',
        'SignedCertificateTimestamp', 'ExtensionsClient', 'CertificateRequest', 'DnsRecordRrsig', 'SshHostKeyECDSA'))][:HASHSEED_REFS]
    for ref in chosen:
        def case_fn(spec, _stats, ref=ref):
            obj = _obtain({'spec': spec})
            if obj is not None:
                texts = _texts(serialise(obj))
                out[ref + ':' + hashlib.sha1(jdump(spec).encode()).hexdigest()[:16]] = hashlib.sha1(jdump(texts).encode()).hexdigest()[:16]
            return ()
        hyp.explore(registry.strategy_for(ref), case_fn, Stats(), examples, seed_value ^ (digest(ref) & 0xffff))
    # parsed corpus objects with set-valued fields
    for cls in lib.concrete_classes():
        if cls.__name__ in ('DnsRecordDnskey', 'MySQLHandshakeV10', 'MySQLHandshakeSslRequest', 'RDPNegotiationRequest', 'RDPNegotiationResponse'):
            for data in seeds.seeds_for(cls):
                obj = _obtain({'cls': lib.ref_of(cls), 'hex': data.hex()})
                if obj is not None:
                    out[cls.__name__ + ':' + data.hex()[:40]] = hashlib.sha1(jdump(_texts(serialise(obj))).encode()).hexdigest()[:16]
    return out


def history_digests(seed_value, examples, order):
    """Per-object output hashes when a fixed family of objects - generated ones of every class with a strategy and
    parsed unit-test inputs of every class - is serialised in the given order inside one fresh process."""
    family = []
    for ref in registry.registered():
        def case_fn(spec, _stats, ref=ref):
            obj = _obtain({'spec': spec})
            if obj is not None:
                family.append((ref + ':' + hashlib.sha1(jdump(spec).encode()).hexdigest()[:16], obj))
            return ()
        hyp.explore(registry.strategy_for(ref), case_fn, Stats(), examples, seed_value ^ (digest(ref) & 0xffff))
    for cls in lib.concrete_classes():
        for data in seeds.seeds_for(cls)[:max(1, examples)]:
            obj = _obtain({'cls': lib.ref_of(cls), 'hex': data.hex()})
            if obj is not None:
                family.append((lib.ref_of(cls) + ':' + hashlib.sha1(data).hexdigest()[:16], obj))
    family = sorted(dict(family).items(), key=lambda pair: pair[0])
    if order == 'reverse':
        family.reverse()
    elif order.startswith('shuffle'):
        random.Random(int(order[7:] or 0)).shuffle(family)
    elif order == 'by-class-name':
        family.sort(key=lambda pair: (type(pair[1]).__name__[::-1], pair[0]))
    return {key: hashlib.sha1(jdump(_texts(serialise(obj))).encode()).hexdigest()[:16] for key, obj in family}


def _children(specs_):
    """Run child interpreters; specs_: {label: (PYTHONHASHSEED, VERIF_C14_CHILD value)} -> {label: digests}"""
    procs = {}
    for label, (hashseed, payload) in specs_.items():
        environment = dict(os.environ, PYTHONHASHSEED=str(hashseed), VERIF_C14_CHILD=payload)
        procs[label] = subprocess.Popen([sys.executable, '-B', '-m', 'vf.props.c14'], cwd=env.VERIF_DIR, env=environment,
                                        stdout=subprocess.PIPE, stderr=subprocess.PIPE)
    results = {}
    for label, proc in procs.items():
        out, err = proc.communicate(timeout=1800)
        if proc.returncode != 0:
            raise RuntimeError('C14 child %r failed: %s' % (label, err.decode()[-2000:]))
        results[label] = json.loads(out.decode().strip().splitlines()[-1])
    return results


def _class_of_key(key):
    return key.split(':')[1].split('.')[-1] if key.startswith('cryptoparser') else key.split(':')[0]


def _relation(kind, seed_value, examples, stats=None):
    """-> [(Finding, case)] of the cross-process relations: 'hashseed' (same work under four hash seeds) and
    'history' (same objects, same hash seed, four serialisation orders)."""
    if kind == 'hashseed':
        labels = {n: (n, 'hashseed:%d:%d' % (seed_value, examples)) for n in (0, 1, 2, 3)}
        first = 0
    else:
        labels = {order: (0, 'history:%d:%d:%s' % (seed_value, examples, order))
                  for order in ('forward', 'reverse', 'shuffle1', 'by-class-name')}
        first = 'forward'
    results = _children(labels)
    reference = results[first]
    found = []
    if stats is not None:
        stats.extra[kind + '_cases'] = len(reference)
    for label, other in results.items():
        if label == first:
            continue
        if set(other) != set(reference) and stats is not None:
            stats.notes.append('%s child %r generated a different case set (%d vs %d) - compared on the intersection'
                               % (kind, label, len(other), len(reference)))
        for key in sorted(set(other) & set(reference)):
            if stats is not None:
                stats.evaluations += 1
                stats.labels[kind] += 1
            if other[key] != reference[key]:
                case = {'kind': kind, 'seed': seed_value, 'examples': examples, 'key': key, 'pair': [first, label]}
                found.append((Finding('nondeterministic:%s/%s' % (kind, _class_of_key(key)), {'case_key': key, 'pair': [first, label]}), case))
    return found


def _hashseed_relation(ctx, stats):
    for finding, case in _relation('hashseed', ctx.derive_seed('hashseed'), 25 if ctx.quick else 400, stats):
        stats.finding(finding, case)


def _history_relation(ctx, stats):
    for finding, case in _relation('history', ctx.derive_seed('history'), 2 if ctx.quick else 12, stats):
        stats.finding(finding, case)


def run(ctx):
    from vf.gen import registry as _registry  # pylint: disable=import-outside-toplevel
    _registry.warm()
    examples = 60 if ctx.quick else 1500
    mutants = 40 if ctx.quick else 1000
    budget_s = 100 if ctx.quick else 1500
    shards = 32
    jobs = _spec_jobs(ctx, examples, budget_s) + [
        ('parsed', index, shards, mutants, ctx.derive_seed('parsed', index), budget_s) for index in range(shards)]
    from vf.gen import textgen  # pylint: disable=import-outside-toplevel
    jobs += [('text', type_name, examples, ctx.derive_seed('text', type_name), budget_s) for type_name in textgen.TYPES]
    stats = pool.run_shards(_job, jobs)
    _hashseed_relation(ctx, stats)
    _history_relation(ctx, stats)
    return stats


def shrink(ctx, key, entry):
    case = entry['case']
    if 'spec' not in case:
        return None
    ref = case['spec'].get('c')
    for job in _spec_jobs(ctx, 60 if ctx.quick else 1500, 60):
        if job[1] == ref:
            def case_fn(spec, _stats):
                return judge({'spec': spec})[1]
            result = hyp.shrink(registry.strategy_for(ref), case_fn, key, job[2], job[3], box_s=20)
            if result and result[0] is not None:
                return {'spec': result[0]}, result[1]
    return None


if __name__ == '__main__' and os.environ.get('VERIF_C14_CHILD'):
    env.bootstrap()
    _parts = os.environ['VERIF_C14_CHILD'].split(':')
    if _parts[0] == 'hashseed':
        print(json.dumps(child_digests(int(_parts[1]), int(_parts[2]))))
    else:
        print(json.dumps(history_digests(int(_parts[1]), int(_parts[2]), _parts[3])))
