# -*- coding: utf-8 -*-
"""C16 — HASSH and SSH host-key fingerprints equal their definitions over wire bytes.

Models, adapters and the reference encoder are those of C07 (vf/props/c07.py, vf/ref/ssh.py); the expectations are
computed here with hashlib / base64 over the *reference* bytes, the name-lists being read back from the reference
KEXINIT payload with the reference reader (raw octets between the length prefixes).
"""
import base64
import hashlib

from hypothesis import strategies as st

from vf.core import hyp, pool
from vf.core.lib import library_exceptions_are_findings as _guard
from vf.core.stats import Finding, Stats
from vf.props import c07
from vf.ref import ssh as ref

ID = 'C16'
LEVEL = 'exploration'
RULE = ('seeded Hypothesis models shared with C07: KEXINIT messages over ordered lists of known, unknown and near-miss '
        'algorithm names (empty lists and duplicates included), each checked twice (object parsed from the reference '
        'payload; object constructed from the model); RSA/DSS/ECDSA/Ed25519 host keys with parameters of bit lengths '
        '8k-1, 8k, 8k+1 up to 4096 bits and v01/v00 certificates with arbitrary principals, validity, options, '
        'extensions, each checked on the object parsed from the reference blob B and on the object constructed from '
        'the model. Non-trivial: a KEXINIT with >=1 non-empty HASSH-relevant list, a key with a parameter whose top '
        'bit is set or a certificate with a non-empty list; distinct by reference encoding.')
ASSUMPTIONS = [
    'HASSH (salesforce/hassh): md5 of kex;enc;mac;cmp name-lists, each exactly the comma separated list of the '
    'wire, client-to-server lists for hassh and server-to-client lists for hassh_server, lowercase hex',
    'the blob B of a certificate is the whole certificate blob, as the property statement says ("host key or '
    'certificate ... public-key blob"); note that OpenSSH itself (ssh-keygen -l) prints for a certificate the '
    'fingerprint of the plain certified key, which is not what the statement defines',
    '"standard base64" is RFC 4648 section 4 with "=" padding (ssh-keygen strips the padding; the statement does not)',
    'fingerprints are read from obj.fingerprints[Hash.SHA2_256 / SHA1 / MD5], the known_hosts value from '
    'obj.host_key_asdict()["known_hosts"]',
    'key parameters are >= 2 (host_key_asdict() also grades the key size and refuses size 0) and ECDSA coordinates avoid the shapes the PublicKey constructor of '
    'cryptodatahub rejects (zero, exact powers of 256), because host_key_asdict() also computes the key size',
    'compressed ECDSA points are excluded (they cannot be parsed at all, see C07)',
    'the reference encoder vf/ref/ssh.py is trusted as in C07',
]

HASSH_CLIENT = ('kex', 'enc_c2s', 'mac_c2s', 'cmp_c2s')
HASSH_SERVER = ('kex', 'enc_s2c', 'mac_s2c', 'cmp_s2c')


def expected_hassh(payload, fields):
    lists = ref.kexinit_raw_name_lists(payload)
    return hashlib.md5(b';'.join(lists[field] for field in fields)).hexdigest()


def expected_fingerprints(blob):
    md5 = hashlib.md5(blob).hexdigest()
    return {
        'SHA2_256': 'SHA256:' + base64.b64encode(hashlib.sha256(blob).digest()).decode('ascii'),
        'SHA1': 'SHA1:' + base64.b64encode(hashlib.sha1(blob).digest()).decode('ascii'),
        'MD5': 'MD5:' + ':'.join(md5[i:i + 2] for i in range(0, len(md5), 2)),
    }


def _check_kexinit(case, notes=None):
    L = c07.lib()
    model = c07.decode(case['model'])
    payload = c07.message_reference(model)
    findings = []
    objects = []
    try:
        objects.append(('parsed', L.sub.SshKeyExchangeInit.parse_exact_size(payload)))
    except Exception as e:  # pylint: disable=broad-except
        findings.append(Finding('parse-fails:%s/SshKeyExchangeInit' % type(e).__name__, {'error': repr(e)[:200]}))
    try:
        objects.append(('constructed', c07.lib_message(model)))
    except Exception as e:  # pylint: disable=broad-except
        findings.append(Finding('construct-fails:%s/SshKeyExchangeInit' % type(e).__name__, {'error': repr(e)[:200]}))
    for attribute, key, fields in (('hassh', 'hassh', HASSH_CLIENT), ('hassh_server', 'hassh-server', HASSH_SERVER)):
        want = expected_hassh(payload, fields)
        for origin, obj in objects:
            try:
                got = getattr(obj, attribute)
            except Exception as e:  # pylint: disable=broad-except
                got = 'raised %r' % (e,)
            if got != want:
                findings.append(Finding(key, {
                    'origin': origin, 'got': got, 'expected': want,
                    'lists': [','.join(model[field]) for field in fields]}))
                break
    return findings


def _hash_members():
    Hash = c07.lib().Hash
    return (('SHA2_256', Hash.SHA2_256), ('SHA1', Hash.SHA1), ('MD5', Hash.MD5))


def _locus(model, obj, blob, origin):
    """(locus, differs): when the bytes that get hashed are not the blob, the class in which that root cause sits."""
    name = c07.KEY_CLASSES[model['t']]
    try:
        if bytes(obj.key_bytes) == blob:
            return name, False
    except Exception:  # pylint: disable=broad-except
        return name, True
    if origin == 'parsed':
        # parsing lost or changed something, so the re-serialisation differs: name what was lost
        inner = c07._key_parse_findings(model, obj, name)  # pylint: disable=protected-access
        if inner:
            return inner[0].key.split('/', 1)[1], True
    return c07.locate_compose_difference(model, obj)[1], True


def _definer(obj, attribute):
    for cls in type(obj).__mro__:
        if attribute in cls.__dict__:
            return cls.__name__
    return type(obj).__name__


def _check_key(case, notes=None):
    L = c07.lib()
    model = c07.decode(case['model'])
    blob = c07.key_reference(model)
    name = c07.KEY_CLASSES[model['t']]
    findings = []
    objects = []
    try:
        objects.append(('parsed', L.key.SshHostPublicKeyVariant.parse_exact_size(blob)))
    except Exception as e:  # pylint: disable=broad-except
        # an unparsable blob is C07's finding; there is no parsed object whose fingerprint could be judged
        if notes is not None:
            notes.append('key:reference-blob-not-parsable(C07):' + type(e).__name__)
    if case.get('construct', True) and c07._constructible(model):  # pylint: disable=protected-access
        try:
            objects.append(('constructed', c07.lib_key(model)))
        except Exception as e:  # pylint: disable=broad-except
            findings.append(Finding('construct-fails:%s/%s' % (type(e).__name__, name), {'error': repr(e)[:200]}))
    want = expected_fingerprints(blob)
    want_known_hosts = base64.b64encode(blob).decode('ascii')
    for origin, obj in objects:
        locus, differs = _locus(model, obj, blob, origin)
        detail = {'origin': origin, 'class': name, 'blob': blob.hex()[:240]}
        try:
            got = obj.fingerprints
        except Exception as e:  # pylint: disable=broad-except
            findings.append(Finding('fingerprint:raises:%s/%s' % (type(e).__name__, locus), dict(detail, error=repr(e)[:200])))
            got = None
        try:
            as_dict = obj.host_key_asdict()
        except Exception as e:  # pylint: disable=broad-except
            findings.append(Finding('known-hosts:raises:%s/%s' % (type(e).__name__, locus), dict(detail, error=repr(e)[:200])))
            as_dict = None
        wrong = []
        if got is not None:
            wrong = [label for label, member in _hash_members() if got.get(member) != want[label]]
        known_hosts_wrong = as_dict is not None and as_dict.get('known_hosts') != want_known_hosts
        if differs and (wrong or known_hosts_wrong):
            # one root cause: the bytes that are hashed / base64-ed are not the public-key blob
            findings.append(Finding('fingerprint:blob/%s' % locus, dict(
                detail, wrong=wrong + (['known_hosts'] if known_hosts_wrong else []),
                hashed=bytes(obj.key_bytes).hex()[:240], got=got.get(_hash_members()[0][1]) if got else None,
                expected=want['SHA2_256'])))
        else:
            # the hashed bytes are right, the rendering is not: the locus is the class that defines the observer
            for label in wrong:
                member = dict(_hash_members())[label]
                findings.append(Finding('fingerprint:%s/%s' % (label, _definer(obj, 'fingerprints')),
                                        dict(detail, got=got.get(member), expected=want[label])))
            if known_hosts_wrong:
                findings.append(Finding('known-hosts/%s' % _definer(obj, 'host_key_asdict'), dict(
                    detail, got=str(as_dict.get('known_hosts'))[:160], expected=want_known_hosts[:160])))
        if as_dict is not None and got is not None and as_dict.get('fingerprints') is not None \
                and dict(as_dict['fingerprints']) != dict(got):
            findings.append(Finding('fingerprint:asdict-differs/%s' % locus, detail))
    if not findings and model.get('principals') and case.get('construct', True) and c07._constructible(model):  # pylint: disable=protected-access
        findings.extend(_renamed_principal(model, name))
    seen, out = set(), []
    for finding in findings:
        if finding.key not in seen:
            seen.add(finding.key)
            out.append(finding)
    return out


def _renamed_principal(model, name):
    """A principal of the built certificate is renamed in place (a caller re-issuing a certificate object): the
    fingerprints and the known_hosts entry are those of the blob of the certificate *with the new name*."""
    import copy  # pylint: disable=import-outside-toplevel
    try:
        obj = c07.lib_key(model)
    except Exception:  # pylint: disable=broad-except
        return []
    index = len(model['principals']) // 2
    edited = copy.deepcopy(model)
    edited['principals'][index] = model['principals'][index] + 'xy'
    try:
        obj.fingerprints          # read once before the edit, as a report generator would
        obj.valid_principals[index].value = edited['principals'][index]
        blob = c07.key_reference(edited)
    except Exception:  # pylint: disable=broad-except
        return []
    want = expected_fingerprints(blob)
    try:
        got = obj.fingerprints
        known_hosts = obj.host_key_asdict().get('known_hosts')
    except Exception as e:  # pylint: disable=broad-except
        return [Finding('fingerprint:raises:%s/%s:after-rename' % (type(e).__name__, name), {'error': repr(e)[:200]})]
    wrong = [label for label, member in _hash_members() if got.get(member) != want[label]]
    if known_hosts != base64.b64encode(blob).decode('ascii'):
        wrong.append('known_hosts')
    if wrong:
        return [Finding('fingerprint:blob/SshCertValidPrincipals:after-rename', {
            'class': name, 'wrong': wrong, 'edit': 'valid_principals[%d].value + "xy"' % index})]
    return []


@_guard
def check_case(case, notes=None):
    if case['kind'] == 'kexinit':
        return _check_kexinit(case, notes)
    if case['kind'] == 'key':
        return _check_key(case, notes)
    raise ValueError(case['kind'])


# ---------------------------------------------------------------------------------------------------
# generation
# ---------------------------------------------------------------------------------------------------

def st_case():
    kexinit = c07.st_kexinit().map(lambda model: {'kind': 'kexinit', 'model': model})
    plain = c07.st_plain_key(min_value=2, ecdsa_special=False).map(lambda model: {'kind': 'key', 'model': model})
    cert = c07.st_certificate(min_value=2).map(lambda model: {'kind': 'key', 'model': model})
    # certificates whose end of validity lies beyond what a datetime can hold (year 10000 and later, but not the
    # "forever" value): the library may refuse them - if it accepts one, its fingerprints are still those of the blob
    def far_future(model, instant):
        model = dict(model, valid_before=instant)
        return {'kind': 'key', 'model': model, 'construct': False}
    unrepresentable = st.builds(far_future, c07.st_certificate(min_value=2),
                                st.sampled_from((253402300800, 253402300800 + 86400 * 400, 2 ** 63 - 1, 2 ** 63, 2 ** 64 - 2)))
    return st.one_of(kexinit, kexinit, kexinit, plain, plain, plain, cert, cert, unrepresentable)


def _in_domain(case):
    """Keep key cases inside the domain of host_key_asdict() (see ASSUMPTIONS)."""
    if case['kind'] != 'key':
        return True
    return c07._constructible(c07.decode(case['model']))  # pylint: disable=protected-access


def case_fn(case, stats):
    stats.evaluated()
    labels = set()
    if case['kind'] == 'kexinit':
        model = c07.decode(case['model'])
        reference = ref.encode_message(model)
        stats.cls('SshKeyExchangeInit')
        labels.add('kexinit')
        tables = c07.lib().names
        relevant = sorted(set(HASSH_CLIENT + HASSH_SERVER))
        nontrivial = any(model[field] for field in relevant)
        for field in relevant:
            family = c07.KEXINIT_FIELDS[field][1]
            if not model[field]:
                labels.add('kexinit:empty-list')
            if any(name not in tables[family] for name in model[field]):
                labels.add('kexinit:unknown-names')
            if len(set(model[field])) != len(model[field]):
                labels.add('kexinit:duplicate-names')
        if any(model[a] != model[b] for a, b in zip(HASSH_CLIENT, HASSH_SERVER)):
            labels.add('kexinit:c2s!=s2c')
    else:
        model = c07.decode(case['model'])
        reference = ref.encode_key(model)
        labels.add('key')
        labels.add('key:' + c07.KEY_CLASSES[model['t']])
        top = c07._key_features(model, stats, labels)  # pylint: disable=protected-access
        nontrivial = top or any(model.get(field) for field in ('principals', 'critical', 'extensions', 'constraints'))
    for label in sorted(labels):
        stats.label(label)
    if nontrivial:
        stats.nontriv(reference)
        stats.sample(sorted(labels)[-1], {'case': c07.jdump_short(case, 500), 'reference_length': len(reference)})
    notes = []
    findings = check_case(case, notes)
    for note in notes:
        stats.label(note)
    return findings


def _shard(arg):
    seed_value, count = arg
    ref.selftest()
    stats = Stats()
    hyp.explore(st_case().filter(_in_domain), case_fn, stats, count, seed_value)
    return stats


def fixed_cases():
    return [dict(case, kind='key') for case in c07.fixed_cases()]


def run(ctx):
    ref.selftest()
    stats = Stats()
    for case in fixed_cases():
        for finding in case_fn(case, stats):
            stats.finding(finding, case)
    shards = 32 if ctx.quick else 128
    per_shard = 650 if ctx.quick else 3200
    stats.merge(pool.run_shards(_shard, [(ctx.derive_seed('models', index), per_shard) for index in range(shards)]))
    stats.extra.pop('shard_wall_s', None)
    return stats


def shrink(ctx, key, entry):
    from vf.core.stats import jdump  # pylint: disable=import-outside-toplevel
    case = entry['case']
    if len(jdump(case)) < 500:
        return None
    if case['kind'] == 'kexinit':
        strategy = c07.st_kexinit().map(lambda model: {'kind': 'kexinit', 'model': model})
    elif ref.is_cert_type(case['model']['t']):
        strategy = c07.st_certificate(min_value=2).map(lambda model: {'kind': 'key', 'model': model})
    else:
        strategy = c07.st_plain_key(min_value=2, ecdsa_special=False).map(lambda model: {'kind': 'key', 'model': model})
    smaller, detail = hyp.shrink(strategy.filter(_in_domain), lambda c, s: check_case(c), key, 400,
                                 ctx.derive_seed('shrink', key), box_s=3.0)
    if smaller is None or len(jdump(smaller)) >= len(jdump(case)):
        return None
    return smaller, detail
