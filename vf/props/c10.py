# -*- coding: utf-8 -*-
"""C10 — every wire code point is decoded faithfully or preserved verbatim.

Enumeration of finite code spaces against the rule "known code -> the one member carrying it, re-encoded to the
same bytes; unknown / GREASE code -> preserved bit for bit or rejected; never another code, never dropped from a
list", plus the alias rule over the enum tables themselves.

Where a code appears:
  factory    a NByteEnumParsable factory fed with the bare code (discovered by reflection)
  fallback   TlsInvalidTypeOneByte / TlsInvalidTypeTwoByte fed with the bare code
  carrier    a message whose header / field carries the code (table below): a valid template message with the
             code field overwritten
  list       a vector holding k codes (table below)
  string     string-coded enumerations: alone, inside their name-list / structure, near-miss spellings
  alias      __members__ of every enum class (no generation, one case per class)

Finding keys (<space> = factory / carrier / container / enum name):
  member-rejected/<space>     a member code is refused although the carrier must accept it
  member-redirected/<space>   a member code decodes to something else (stage parse) or re-encodes differently (compose)
  member-as-unknown/<space>   a member code is kept verbatim but decoded as an unknown-code fallback object
  unknown-altered/<space>     an unknown / GREASE code is accepted as, or re-encoded to, a different code
  grease-class/<space>        a fallback object is classified GREASE although RFC 8701 does not list the code (or v.v.)
  list-length/<container>     a list of k codes does not parse to k items
  list-item/<container>       an item of a list is a different member / carries a different code
  list-compose/<container>    the parsed list does not re-compose to the input
  alias/<EnumClass>           two names of one table share a code and no protocol rule allows it
  parse-leak:<Exc>/<space>    an exception outside the documented parse errors
"""
import enum
import random

from vf.core import lib, pool
from vf.core.stats import Finding, Stats

ID = 'C10'
LEVEL = 'exploration'
RULE = ('code spaces are discovered by reflection (every NByteEnumParsable factory, every enum class of cryptoparser '
        'and every cryptodatahub table referenced from it) plus a table of carriers (a valid template message whose '
        'code field is overwritten) and list containers. One- and two-byte spaces are enumerated completely '
        '(quick: every 1-byte space everywhere, every 2-byte space for stand-alone factories, fallback classes and '
        'single-code carriers, all members + all GREASE values + 4096 seeded random codes inside list containers; '
        'thorough: all 2^16 codes in every carrier and container, all 2^24 SSL 2.0 cipher kinds); 3-/4-byte spaces: '
        'all members, boundaries and a seeded random sample; string enums: every member alone and inside its '
        'list / structure plus near-miss spellings (proper prefix, appended character, case change). Inside lists '
        'the codes are placed in a seeded permutation, k <= 32 per list. Non-trivial: the code is a member, a GREASE '
        'value, or any code placed inside a container (its neighbours must survive it); distinct by (space, code) - '
        'complete enumerations are counted by construction.')
ASSUMPTIONS = [
    'GREASE sets are taken from RFC 8701 (two-byte 0x?a?a with equal nibbles, one-byte 0x0b + 0x1f*k); the one-byte '
    'set is applied to every one-byte space for which the library declares TlsInvalidTypeOneByte as fallback',
    'a documented parse error (InvalidValue, InvalidType, NotEnoughData, TooMuchData) on an unknown code counts as '
    '"rejected"; which of the four is raised is not judged here',
    'a container that rejects a whole list because of one unknown code is within the property ("rejected"); the '
    'number of preserved / rejected codes per space is reported in the labels, not judged',
    'carriers whose code shares a byte with other bits (COTP: high nibble, OpenVPN: high five bits) are judged on '
    'the code bits; byte-exact re-encoding is demanded only when the other bits are zero',
    'SSH message numbers 30..49 are key-exchange-method specific (RFC 4250 4.1.2, RFC 4419 5): two names of '
    'SshMessageCode sharing such a number are allowed by rule',
    'SSH certificate option names are two name spaces (critical options / extensions, PROTOCOL.certkeys): a name is '
    'a member only in the vector of its own section',
    'string enums of httpx/ and dnsrec/txt have no list container of their own: they are checked alone '
    '(parse_exact_size) and with near-miss spellings only',
    'the LDAP result code is enumerated for 0..127 only (single-octet ENUMERATED content)',
]

class CatalogueError(Exception):
    """A template of the catalogue is not accepted as written: harness error, never a verdict."""


GREASE_TWO = frozenset(0x0a0a + 0x1010 * k for k in range(16))
GREASE_ONE = frozenset(0x0b + 0x1f * k for k in range(8))
LIST_CHUNK = 32
_NONE = ()


# ---------------------------------------------------------------------------------------------------
# decoded values
# ---------------------------------------------------------------------------------------------------

def _short(ref_or_cls):
    if not isinstance(ref_or_cls, str):
        ref_or_cls = lib.ref_of(ref_or_cls)
    return ref_or_cls.split(':')[-1]


def _code_of(value):
    """The wire code a decoded value stands for (int / str), or None when it carries none."""
    if isinstance(value, bool):
        return int(value)
    if isinstance(value, enum.Enum):
        inner = value.value
        if hasattr(inner, 'code'):
            return inner.code
        return inner
    if isinstance(value, (int, str)):
        return value
    code = getattr(value, 'code', None)
    if code is not None:                       # TlsInvalidTypeBase
        return code
    inner = getattr(value, 'value', None)      # NumericRangeParsableBase (DnsRrTypePrivate)
    if isinstance(inner, int):
        return inner
    return None


def _is_fallback(value):
    from cryptoparser.tls.grease import TlsInvalidTypeBase  # pylint: disable=import-outside-toplevel
    return isinstance(value, TlsInvalidTypeBase)


def _grease_flag(value):
    from cryptoparser.tls.grease import TlsInvalidType  # pylint: disable=import-outside-toplevel
    return value.value.value_type == TlsInvalidType.GREASE


def _render(value):
    if isinstance(value, enum.Enum):
        return '%s.%s' % (type(value).__name__, value.name)
    if isinstance(value, (tuple, list)):
        return [_render(item) for item in value]
    if isinstance(value, (int, str)) or value is None:
        return value
    if _is_fallback(value):
        return '%s(code=%r,%s)' % (type(value).__name__, value.code, value.value.value_type.name)
    text = repr(value)
    return text if len(text) < 120 else text[:117] + '...'


def _members_by_code(enum_class):
    table = {}
    for member in enum_class:
        table.setdefault(_code_of(member), []).append(member)
    return table


def _leak(space, exc):
    return Finding('parse-leak:%s/%s' % (type(exc).__name__, space), {
        'error': repr(exc)[:200], 'at': lib.innermost_repo_frame(exc)})


# ---------------------------------------------------------------------------------------------------
# catalogue: factories and fallback classes (reflection)
# ---------------------------------------------------------------------------------------------------

class _Factory(object):
    def __init__(self, cls):
        self.cls = cls
        self.name = cls.__name__
        self.width = cls.get_byte_num()
        self.enum = cls.get_enum_class()
        self.by_code = _members_by_code(self.enum)


def _discover_factories():
    from cryptoparser.common.base import NByteEnumParsable  # pylint: disable=import-outside-toplevel
    out = {}
    for cls in lib.all_classes():
        if issubclass(cls, NByteEnumParsable):
            try:
                cls.get_enum_class()
                cls.get_byte_num()
            except NotImplementedError:
                continue
            out[cls.__name__] = _Factory(cls)
    return out


def _compose_member(member, width):
    """Re-encode a table member with the library's own enum composer (compose_numeric_enum_coded), or with the
    member's own compose() where the enum defines one."""
    from cryptoparser.common.parse import ComposerBinary  # pylint: disable=import-outside-toplevel
    if callable(getattr(member, 'compose', None)):
        return bytes(member.compose())
    composer = ComposerBinary()
    if hasattr(member.value, 'get_code_size'):
        composer.compose_numeric_enum_coded(member)
    else:
        composer.compose_numeric(member.value.code, width)
    return bytes(composer.composed_bytes)


def _judge_factory(fac, code):
    data = code.to_bytes(fac.width, 'big')
    out = lib.call(fac.cls.parse_exact_size, data)
    if out.kind == 'leak':
        return [_leak(fac.name, out.exc)]
    members = fac.by_code.get(code)
    if members:
        if not out.ok:
            return [Finding('member-rejected/' + fac.name, {
                'code': code, 'member': members[0].name, 'error': type(out.exc).__name__})]
        if out.value is not members[0] and out.value not in members:
            return [Finding('member-redirected/' + fac.name, {
                'code': code, 'member': members[0].name, 'got': _render(out.value), 'stage': 'parse'})]
        composed = lib.call(_compose_member, out.value, fac.width)
        if not composed.ok or composed.value != data:
            return [Finding('member-redirected/' + fac.name, {
                'code': code, 'member': members[0].name, 'stage': 'compose',
                'composed': composed.value.hex() if composed.ok else repr(composed.exc)[:120]})]
        return _NONE
    if out.ok:
        # a bare factory has no fallback object: anything it returns for an unknown code is another member
        return [Finding('unknown-altered/' + fac.name, {'code': code, 'got': _render(out.value), 'stage': 'parse'})]
    return _NONE


class _FallbackClass(object):
    def __init__(self, cls, width, grease):
        self.cls, self.name, self.width, self.grease = cls, cls.__name__, width, grease


def _fallback_classes():
    from cryptoparser.tls.grease import TlsInvalidTypeOneByte, TlsInvalidTypeTwoByte  # pylint: disable=import-outside-toplevel
    return {
        'TlsInvalidTypeOneByte': _FallbackClass(TlsInvalidTypeOneByte, 1, GREASE_ONE),
        'TlsInvalidTypeTwoByte': _FallbackClass(TlsInvalidTypeTwoByte, 2, GREASE_TWO),
    }


def _judge_fallback_object(space, obj, code, grease_set):
    """A fallback object must carry exactly `code` and be classified GREASE iff RFC 8701 lists the code."""
    if obj.code != code or obj.value.code != code:
        return [Finding('unknown-altered/' + space, {
            'code': code, 'got': _render(obj), 'inner_code': obj.value.code, 'stage': 'parse'})]
    if _grease_flag(obj) != (code in grease_set):
        return [Finding('grease-class/' + space, {
            'code': code, 'classified_grease': _grease_flag(obj), 'rfc8701': code in grease_set})]
    return _NONE


def _judge_fallback(fb, code):
    data = code.to_bytes(fb.width, 'big')
    out = lib.call(fb.cls.parse_exact_size, data)
    if out.kind == 'leak':
        return [_leak(fb.name, out.exc)]
    if not out.ok:
        return _NONE                              # rejected
    found = _judge_fallback_object(fb.name, out.value, code, fb.grease)
    if found:
        return found
    composed = lib.call(out.value.compose)
    if not composed.ok or bytes(composed.value) != data:
        return [Finding('unknown-altered/' + fb.name, {
            'code': code, 'stage': 'compose',
            'composed': bytes(composed.value).hex() if composed.ok else repr(composed.exc)[:120]})]
    return _NONE


# ---------------------------------------------------------------------------------------------------
# catalogue: carriers (a template message with the code field overwritten)
# ---------------------------------------------------------------------------------------------------

RANDOM32 = '5f000000' + '11' * 28
P256_G = ('04' '6b17d1f2e12c4247f8bce6e563a440f277037d812deb33a0f4a13945d898c296'
          '4fe342e2fe1a7f9b8ee7eb4a7c0f9e162bce33576b315ececbb6406837bf51f5')


def _s(data):
    """SSH string"""
    return len(data).to_bytes(4, 'big') + data


def _h(text):
    return bytes.fromhex(text.replace(' ', ''))


HANDSHAKE_TEMPLATES = [
    # (class name, message) — hand-encoded from RFC 5246 7.4 / RFC 8446 4; every one re-composes to itself
    ('TlsHandshakeClientHello', _h('01 000029 0303' + RANDOM32 + '00 0002 002f 01 00')),
    ('TlsHandshakeServerHello', _h('02 000026 0303' + RANDOM32 + '00 002f 00')),
    ('TlsHandshakeCertificate', _h('0b 000009 000006 000003 aabbcc')),
    ('TlsHandshakeServerKeyExchange', _h('0c 000003 010203')),
    ('TlsHandshakeCertificateRequest', _h('0d 000004 01 01 0000')),
    ('TlsHandshakeCertificateStatus', _h('16 000005 01 000001 aa')),
    ('TlsHandshakeServerHelloDone', _h('0e 000000')),
    ('TlsHandshakeHelloRetryRequest', _h('06 000026 0303' + RANDOM32 + '00 1301 00')),
]

SSL2_TEMPLATES = [
    ('SslErrorMessage', _h('8003 00 0001')),
    ('SslHandshakeClientHello', _h('801c 01 0002 0003 0000 0010 010080' + '22' * 16)),
    ('SslHandshakeServerHello', _h('8010 04 00 01 0002 0001 0003 0001 aa 010080 bb')),
]

ED25519_KEY = _s(b'ssh-ed25519') + _s(b'\x11' * 32)

SSH_TEMPLATES = [
    ('SshDisconnectMessage', _h('01 00000002 00000000 00000000')),
    ('SshUnimplementedMessage', _h('03 00000007')),
    ('SshKeyExchangeInit', _h('14' + '33' * 16 + '00000000' * 10 + '00 00000000')),
    ('SshNewKeys', _h('15')),
    ('SshDHKeyExchangeInit', _h('1e 00000001 05')),
    ('SshDHKeyExchangeReply', b'\x1f' + _s(ED25519_KEY) + _s(b'\x05') + _s(b'\x06')),
    ('SshDHGroupExchangeGroup', _h('1f 00000001 07 00000001 02')),
    ('SshDHGroupExchangeInit', _h('20 00000001 05')),
    ('SshDHGroupExchangeReply', b'\x21' + _s(ED25519_KEY) + _s(b'\x05') + _s(b'\x06')),
    ('SshDHGroupExchangeRequest', _h('22 00000400 00000800 00002000')),
]

OPENVPN_TEMPLATES = [
    ('OpenVpnPacketControlV1', _h('20 0102030405060708 00 00000001 aa')),
    ('OpenVpnPacketAckV1', _h('28 0102030405060708 00')),
    ('OpenVpnPacketHardResetClientV2', _h('38 0102030405060708 00 00000000')),
    ('OpenVpnPacketHardResetServerV2', _h('40 0102030405060708 00 00000000')),
]

MYSQL_HANDSHAKE = _h('0a 352e3700 01000000 4141414141414141 00 0000 21 0000 0000 00' + '00' * 10)
DNSKEY_ED25519 = _h('0100 03 0f' + '44' * 32)
DS_RECORD = _h('0001 0f 02' + '55' * 32)
RRSIG_RECORD = _h('0001 0f 02 00000e10 60000000 5f000000 1234 00 aabb')
SERVER_HELLO = HANDSHAKE_TEMPLATES[1][1]
LDAP_RESPONSE = _h('300c 020101 7807 0a0100 0400 0400')


class _Carrier(object):  # pylint: disable=too-many-instance-attributes
    """name = '<space>@<Class>'.  expected(code) -> decoded value a member code must give (None = unknown code);
    extract(obj) -> decoded value of an accepted message."""

    def __init__(self, name, cls, templates, offset, width, expected, extract, **options):
        self.name = name
        self.cls = lib.resolve(cls) if isinstance(cls, str) else cls
        self.templates = templates                       # [(label, bytes)]
        self.offset, self.width = offset, width
        self.expected, self.extract = expected, extract
        self.order = options.get('order', 'big')
        self.shift = options.get('shift', 0)             # code = field >> shift
        self.all_members = options.get('all_members', False)
        self.size = options.get('size', 1 << (8 * width))
        self.grease = options.get('grease', frozenset())
        self.thorough_only = options.get('thorough_only', False)
        accepts = options.get('accepts')
        self.accepts = set(label for label, _ in templates) if accepts is None else set(accepts)

    def own_field(self, index):
        template = self.templates[index][1]
        return int.from_bytes(template[self.offset:self.offset + self.width], self.order)

    def build(self, index, field):
        template = self.templates[index][1]
        return template[:self.offset] + field.to_bytes(self.width, self.order) + template[self.offset + self.width:]


class _Lookup(object):
    """expected() of a carrier: the canonical member for a code (None for unknown codes) + the list of known codes."""

    def __init__(self, table):
        self.table = table
        self.codes = sorted(table)

    def __call__(self, code):
        return self.table.get(code)


def _enum_lookup(enum_class):
    table = {}
    for member in enum_class:
        table.setdefault(member.value if not hasattr(member.value, 'code') else member.value.code, member)
    return _Lookup(table)


def _pair_lookup(first, second):
    one, two = _enum_lookup(first), _enum_lookup(second)
    return _Lookup({(high << 8) | low: (one(high), two(low)) for high in one.codes for low in two.codes})


def _build_carriers():  # pylint: disable=too-many-locals,too-many-statements
    from cryptodatahub.common.stores import CertificateTransparencyLog  # pylint: disable=import-outside-toplevel
    from cryptodatahub.dnsrec.algorithm import DnsRrType, DnsSecAlgorithm, DnsSecDigestType  # pylint: disable=import-outside-toplevel
    from cryptodatahub.tls.algorithm import (  # pylint: disable=import-outside-toplevel
        TlsCipherSuite, TlsCompressionMethod, TlsNamedCurve, TlsSignatureAndHashAlgorithm)
    from cryptodatahub.tls.version import TlsVersion  # pylint: disable=import-outside-toplevel
    from cryptoparser.common import x509  # pylint: disable=import-outside-toplevel
    from cryptoparser.dnsrec import record as dns  # pylint: disable=import-outside-toplevel
    from cryptoparser.ssh import subprotocol as ssh  # pylint: disable=import-outside-toplevel
    from cryptoparser.tls import extension as ext, ldap, mysql, openvpn, rdp, subprotocol as sub  # pylint: disable=import-outside-toplevel
    from cryptoparser.tls import record as rec, version as ver  # pylint: disable=import-outside-toplevel

    carriers = []

    def add(*args, **kwargs):
        carriers.append(_Carrier(*args, **kwargs))

    # --- TLS record / subprotocol headers
    add('content-type@TlsRecord', rec.TlsRecord, [('handshake', _h('16 0303 0001 00'))], 0, 1,
        _enum_lookup(sub.TlsContentType), lambda o: o.content_type, all_members=True)
    handshake_type = _enum_lookup(sub.TlsHandshakeType)
    add('handshake-type@TlsHandshakeMessageVariant', sub.TlsHandshakeMessageVariant, HANDSHAKE_TEMPLATES, 0, 1,
        handshake_type, lambda o: type(o).get_handshake_type())
    for class_name, template in HANDSHAKE_TEMPLATES:
        add('handshake-type@' + class_name, getattr(sub, class_name), [(class_name, template)], 0, 1,
            handshake_type, lambda o: type(o).get_handshake_type())
    add('alert@TlsAlertMessage', sub.TlsAlertMessage, [('alert', _h('0100'))], 0, 2,
        _pair_lookup(sub.TlsAlertLevel, sub.TlsAlertDescription), lambda o: (o.level, o.description),
        all_members=True)
    add('change-cipher-spec-type@TlsChangeCipherSpecMessage', sub.TlsChangeCipherSpecMessage, [('ccs', _h('01'))], 0, 1,
        _enum_lookup(sub.TlsChangeCipherSpecType),
        lambda o: o._change_cipher_spec_type, all_members=True)  # pylint: disable=protected-access
    add('certificate-status-type@TlsHandshakeCertificateStatus', sub.TlsHandshakeCertificateStatus,
        [('status', HANDSHAKE_TEMPLATES[5][1])], 4, 1, _enum_lookup(ext.TlsCertificateStatusType),
        lambda o: o.status_type, all_members=True)
    add('certificate-status-type@TlsExtensionCertificateStatusRequestClient',
        ext.TlsExtensionCertificateStatusRequestClient, [('status_request', _h('0005 0005 01 0000 0000'))], 4, 1,
        _enum_lookup(ext.TlsCertificateStatusType), lambda o: ext.TlsCertificateStatusType.OCSP, all_members=True)
    add('server-name-type@TlsExtensionServerNameClient', ext.TlsExtensionServerNameClient,
        [('sni', _h('0000 0008 0006 00 0003 612e62'))], 6, 1, _enum_lookup(ext.TlsServerNameType),
        lambda o: o.name_type, all_members=True)
    # --- SSL 2.0
    add('ssl2-message-type@SslRecord', rec.SslRecord, SSL2_TEMPLATES, 2, 1, _enum_lookup(sub.SslMessageType),
        lambda o: o.message.get_message_type())
    add('ssl2-error-type@SslErrorMessage', sub.SslErrorMessage, [('error', _h('0001'))], 0, 2,
        _enum_lookup(sub.SslErrorType), lambda o: o.error_type, all_members=True)
    add('ssl2-error-type@SslRecord', rec.SslRecord, [('error', SSL2_TEMPLATES[0][1])], 3, 2,
        _enum_lookup(sub.SslErrorType), lambda o: o.message.error_type, all_members=True, thorough_only=True)
    add('ssl2-certificate-type@SslHandshakeServerHello', sub.SslHandshakeServerHello,
        [('server_hello', SSL2_TEMPLATES[2][1][3:])], 1, 1, _enum_lookup(sub.SslCertificateType),
        lambda o: sub.SslCertificateType.X509_CERTIFICATE, all_members=True)
    # --- SSH
    message_code = _enum_lookup(ssh.SshMessageCode)
    for variant in (ssh.SshMessageVariantInit, ssh.SshMessageVariantKexDH, ssh.SshMessageVariantKexDHGroup):
        add('ssh-message-code@' + variant.__name__, variant, SSH_TEMPLATES, 0, 1, message_code,
            lambda o: type(o).get_message_code(),
            accepts=[member.__name__ for member in variant._get_variant_types()])  # pylint: disable=protected-access
    for class_name, template in SSH_TEMPLATES:
        add('ssh-message-code@' + class_name, getattr(ssh, class_name), [(class_name, template)], 0, 1, message_code,
            lambda o: type(o).get_message_code())
    add('ssh-reason-code@SshDisconnectMessage', ssh.SshDisconnectMessage, [('disconnect', SSH_TEMPLATES[0][1])], 1, 4,
        _enum_lookup(ssh.SshReasonCode), lambda o: o.reason, all_members=True)
    # --- RDP / COTP (code in the high nibble), OpenVPN (code in the high five bits)
    cotp_type = _enum_lookup(rdp.COTPType)
    add('cotp-type@COTPConnectionRequest', rdp.COTPConnectionRequest, [('cr', _h('06 e0 0000 0000 00'))], 1, 1,
        cotp_type, lambda o: type(o)._get_type(), shift=4)  # pylint: disable=protected-access
    add('cotp-type@COTPConnectionConfirm', rdp.COTPConnectionConfirm, [('cc', _h('06 d0 0000 0000 00'))], 1, 1,
        cotp_type, lambda o: type(o)._get_type(), shift=4)  # pylint: disable=protected-access
    packet_type = _enum_lookup(rdp.RDPPacketType)
    add('rdp-packet-type@RDPNegotiationRequest', rdp.RDPNegotiationRequest, [('req', _h('01 00 0800 00000000'))], 0, 1,
        packet_type, lambda o: type(o)._get_type())  # pylint: disable=protected-access
    add('rdp-packet-type@RDPNegotiationResponse', rdp.RDPNegotiationResponse, [('rsp', _h('02 00 0800 00000000'))], 0, 1,
        packet_type, lambda o: type(o)._get_type())  # pylint: disable=protected-access
    op_code = _enum_lookup(openvpn.OpenVpnOpCode)
    add('openvpn-opcode@OpenVpnPacketVariant', openvpn.OpenVpnPacketVariant, OPENVPN_TEMPLATES, 0, 1, op_code,
        lambda o: type(o).get_op_code(), shift=3)
    for class_name, template in OPENVPN_TEMPLATES:
        add('openvpn-opcode@' + class_name, getattr(openvpn, class_name), [(class_name, template)], 0, 1, op_code,
            lambda o: type(o).get_op_code(), shift=3)
    # --- certificate transparency, MySQL, DNSSEC, LDAP
    log_id = bytes(next(iter(CertificateTransparencyLog)).value.log_id.value)
    sct = _h('002f 00') + log_id + _h('0000017000000000 0000 0403 0000')
    add('ct-version@SignedCertificateTimestamp', x509.SignedCertificateTimestamp, [('sct', sct)], 2, 1,
        _enum_lookup(x509.CtVersion), lambda o: o.version, all_members=True)
    add('signature-scheme@SignedCertificateTimestamp', x509.SignedCertificateTimestamp, [('sct', sct)], 45, 2,
        _enum_lookup(TlsSignatureAndHashAlgorithm), lambda o: o.signature_algorithm, all_members=True,
        thorough_only=True)
    add('mysql-protocol-version@MySQLHandshakeV10', mysql.MySQLHandshakeV10, [('handshake', MYSQL_HANDSHAKE)], 0, 1,
        _enum_lookup(mysql.MySQLVersion), lambda o: o.protocol_version, all_members=True)
    add('mysql-character-set@MySQLHandshakeV10', mysql.MySQLHandshakeV10, [('handshake', MYSQL_HANDSHAKE)], 20, 1,
        _enum_lookup(mysql.MySQLCharacterSet), lambda o: o.character_set, all_members=True)
    add('dnssec-protocol@DnsRecordDnskey', dns.DnsRecordDnskey, [('dnskey', DNSKEY_ED25519)], 2, 1,
        _enum_lookup(dns.DnsSecProtocol), lambda o: o.protocol, all_members=True)
    add('dnssec-algorithm@DnsRecordDs', dns.DnsRecordDs, [('ds', DS_RECORD)], 2, 1,
        _enum_lookup(DnsSecAlgorithm), lambda o: o.algorithm, all_members=True)
    add('dnssec-digest-type@DnsRecordDs', dns.DnsRecordDs, [('ds', DS_RECORD)], 3, 1,
        _enum_lookup(DnsSecDigestType), lambda o: o.digest_type, all_members=True)
    add('rr-type@DnsRecordRrsig', dns.DnsRecordRrsig, [('rrsig', RRSIG_RECORD)], 0, 2,
        _enum_lookup(DnsRrType), lambda o: o.type_covered, all_members=True)
    add('ldap-result-code@LDAPExtendedResponseStartTLS', ldap.LDAPExtendedResponseStartTLS,
        [('response', LDAP_RESPONSE)], 9, 1, _enum_lookup(ldap.LDAPResultCode), lambda o: o.result_code,
        all_members=True, size=128)
    # --- table codes through a single-code carrier
    add('tls-version@TlsProtocolVersion', ver.TlsProtocolVersion, [('version', _h('0303'))], 0, 2,
        _enum_lookup(TlsVersion), lambda o: o.version, all_members=True)
    add('tls-version@TlsRecord', rec.TlsRecord, [('record', _h('16 0303 0001 00'))], 1, 2,
        _enum_lookup(TlsVersion), lambda o: o.protocol_version.version, all_members=True, thorough_only=True)
    add('cipher-suite@TlsHandshakeServerHello', sub.TlsHandshakeServerHello, [('server_hello', SERVER_HELLO)], 39, 2,
        _enum_lookup(TlsCipherSuite), lambda o: o.cipher_suite, all_members=True, thorough_only=True)
    add('compression-method@TlsHandshakeServerHello', sub.TlsHandshakeServerHello, [('server_hello', SERVER_HELLO)],
        41, 1, _enum_lookup(TlsCompressionMethod), lambda o: o.compression_method, all_members=True)
    # HelloRetryRequest as the library models it (handshake type 6, the fixed RFC 8446 4.1.3 random, empty session id)
    hello_retry = _h('06 000026 0303 cf21ad74e59a6111be1d8c021e65b891c2a211167abb8c5e079e09e2c8a8339c 00 002f 00')
    add('compression-method@TlsHandshakeHelloRetryRequest', sub.TlsHandshakeHelloRetryRequest, [('hrr', hello_retry)],
        41, 1, _enum_lookup(TlsCompressionMethod), lambda o: o.compression_method, all_members=True)
    add('cipher-suite@TlsHandshakeHelloRetryRequest', sub.TlsHandshakeHelloRetryRequest, [('hrr', hello_retry)], 39, 2,
        _enum_lookup(TlsCipherSuite), lambda o: o.cipher_suite, all_members=True, thorough_only=True)
    add('tls-version@TlsHandshakeHelloRetryRequest', sub.TlsHandshakeHelloRetryRequest, [('hrr', hello_retry)], 4, 2,
        _enum_lookup(TlsVersion), lambda o: o.protocol_version.version, all_members=True, thorough_only=True)
    add('named-group@TlsKeyShareEntry', ext.TlsKeyShareEntry, [('entry', _h('001d 0001 aa'))], 0, 2,
        _enum_lookup(TlsNamedCurve), lambda o: o.group, all_members=True, thorough_only=True)
    add('named-group@TlsExtensionKeyShareClientHelloRetry', ext.TlsExtensionKeyShareClientHelloRetry,
        [('hrr', _h('0033 0002 001d'))], 4, 2, _enum_lookup(TlsNamedCurve), lambda o: o.selected_group,
        all_members=True, thorough_only=True)
    return {carrier.name: carrier for carrier in carriers}


def _same_decoded(got, expected):
    if isinstance(expected, tuple):
        return isinstance(got, tuple) and len(got) == len(expected) and all(
            _same_decoded(one, two) for one, two in zip(got, expected))
    if isinstance(expected, enum.Enum):
        return got is expected
    return got == expected


def _pair_code(value):
    if isinstance(value, tuple):
        code = 0
        for item in value:
            part = _code_of(item)
            if not isinstance(part, int):
                return None
            code = (code << 8) | part
        return code
    return _code_of(value)


def _judge_carrier(car, index, field):  # pylint: disable=too-many-return-statements
    data = car.build(index, field)
    code = field >> car.shift
    expected = car.expected(code)
    own = field == car.own_field(index) and car.templates[index][0] in car.accepts
    out = lib.call(car.cls.parse_exact_size, data)
    if out.kind == 'leak':
        return [_leak(car.name, out.exc)]
    if not out.ok:
        if expected is not None and (own or car.all_members):
            return [Finding('member-rejected/' + car.name, {
                'code': code, 'member': _render(expected), 'error': type(out.exc).__name__, 'input': data.hex()[:80]})]
        return _NONE
    got = car.extract(out.value)
    if expected is None:
        if _pair_code(got) != code:
            return [Finding('unknown-altered/' + car.name, {
                'code': code, 'got': _render(got), 'stage': 'parse', 'input': data.hex()[:80]})]
        if _is_fallback(got):
            found = _judge_fallback_object(car.name, got, code, car.grease)
            if found:
                return found
    elif not _same_decoded(got, expected):
        return [Finding('member-redirected/' + car.name, {
            'code': code, 'member': _render(expected), 'got': _render(got), 'stage': 'parse',
            'input': data.hex()[:80]})]
    if car.shift and field & ((1 << car.shift) - 1):
        return _NONE                    # other bits of the byte are set: re-encoding is not judged
    composed = lib.call(out.value.compose)
    good = composed.ok
    if good:
        wire = bytes(composed.value)
        if own or car.all_members:
            good = wire == data
        else:
            good = wire[car.offset:car.offset + car.width] == data[car.offset:car.offset + car.width]
    if not good:
        key = 'unknown-altered/' if expected is None else 'member-redirected/'
        return [Finding(key + car.name, {
            'code': code, 'stage': 'compose', 'input': data.hex()[:80],
            'composed': bytes(composed.value).hex()[:80] if composed.ok else repr(composed.exc)[:120]})]
    return _NONE


# ---------------------------------------------------------------------------------------------------
# catalogue: list containers
# ---------------------------------------------------------------------------------------------------

# extension_data that the parsed extension classes accept (RFC 6066, 7301, 8446, ...); key = member name of
# TlsExtensionType; a parsed class without an entry is reported as uncovered, its code is then sent with empty data
EXTENSION_DATA_CLIENT = {
    'APPLICATION_LAYER_PROTOCOL_NEGOTIATION': '0003 02 6832', 'APPLICATION_LAYER_PROTOCOL_SETTINGS': '0003 02 6832',
    'CHANNEL_ID': '', 'COMPRESS_CERTIFICATE': '02 0002', 'ENCRYPT_THEN_MAC': '', 'EXTENDED_MASTER_SECRET': '',
    'RENEGOTIATION_INFO': '00', 'NEXT_PROTOCOL_NEGOTIATION': '', 'PADDING': '0000',
    'SERVER_NAME': '0006 00 0003 612e62', 'SESSION_TICKET': 'aabb', 'STATUS_REQUEST': '01 0000 0000',
    'SUPPORTED_GROUPS': '0002 001d', 'DELEGATED_CREDENTIALS': '0002 0403', 'EC_POINT_FORMATS': '01 00',
    'KEY_SHARE': '0005 001d 0001 aa', 'KEY_SHARE_RESERVED': '0005 001d 0001 aa', 'PSK_KEY_EXCHANGE_MODES': '01 01',
    'RECORD_SIZE_LIMIT': '4000', 'SHORT_RECORD_HEADER': '', 'SIGNATURE_ALGORITHMS': '0002 0403',
    'SIGNATURE_ALGORITHMS_CERT': '0002 0403', 'SIGNED_CERTIFICATE_TIMESTAMP': '', 'SUPPORTED_VERSIONS': '02 0304',
    'TOKEN_BINDING': '0100 01 02',
}
EXTENSION_DATA_SERVER = {
    'APPLICATION_LAYER_PROTOCOL_NEGOTIATION': '0003 02 6832', 'CHANNEL_ID': '', 'EC_POINT_FORMATS': '01 00',
    'ENCRYPT_THEN_MAC': '', 'EXTENDED_MASTER_SECRET': '', 'KEY_SHARE': '001d 0001 aa',
    'NEXT_PROTOCOL_NEGOTIATION': '08 687474702f312e31', 'RECORD_SIZE_LIMIT': '4000', 'RENEGOTIATION_INFO': '00',
    'SERVER_NAME': '', 'SESSION_TICKET': 'aabb', 'SIGNED_CERTIFICATE_TIMESTAMP': '0000', 'STATUS_REQUEST': '',
    'SUPPORTED_VERSIONS': '0304',
}


class _Container(object):  # pylint: disable=too-many-instance-attributes
    """A list of codes.  encode(codes) -> bytes; items(obj) -> parsed items; view(item) -> decoded code value
    (table member or fallback object); members: code -> member the item must decode to."""

    def __init__(self, name, cls, width, members, encode, **options):
        self.name = name
        self.cls = cls
        self.width = width
        self.members = members                              # dict code -> member
        self.encode = encode
        self.items = options.get('items', list)
        self.view = options.get('view', lambda item: item)
        self.grease = options.get('grease', frozenset())
        self.fallback = options.get('fallback', True)       # the library declares a fallback class
        self.max_items = options.get('max_items', LIST_CHUNK)
        self.size = 1 << (8 * width)
        self.uncovered = options.get('uncovered', [])         # member names that cannot be judged here
        self.skip = options.get('skip', frozenset())          # ... and their codes (never generated)


def _vector_encoder(length_width, code_width, payload=None):
    def encode(codes):
        body = b''.join(code.to_bytes(code_width, 'big') + (payload(code) if payload else b'') for code in codes)
        return len(body).to_bytes(length_width, 'big') + body
    return encode


def _first_of(table):
    return {code: members[0] for code, members in table.items()}


def _build_containers():  # pylint: disable=too-many-locals
    from cryptodatahub.tls.algorithm import SslCipherKind  # pylint: disable=import-outside-toplevel
    from cryptoparser.common.base import VectorEnumCodeNumeric  # pylint: disable=import-outside-toplevel
    from cryptoparser.tls import extension as ext, subprotocol as sub  # pylint: disable=import-outside-toplevel
    from cryptoparser.tls.grease import TlsInvalidTypeOneByte, TlsInvalidTypeTwoByte  # pylint: disable=import-outside-toplevel
    from cryptoparser.tls.version import TlsProtocolVersion, TlsVersion  # pylint: disable=import-outside-toplevel

    containers = []
    # 1. every VectorEnumCodeNumeric subclass (reflection): code list with a one- or two-byte fallback class
    for cls in lib.concrete_classes():
        if issubclass(cls, VectorEnumCodeNumeric):
            param = cls.get_param()
            factory = param.item_class
            width = factory.get_byte_num()
            grease = {TlsInvalidTypeOneByte: GREASE_ONE, TlsInvalidTypeTwoByte: GREASE_TWO}.get(
                param.fallback_class, frozenset())
            containers.append(_Container(
                cls.__name__, cls, width, _first_of(_members_by_code(factory.get_enum_class())),
                _vector_encoder(param.item_num_size, width), grease=grease,
                fallback=param.fallback_class is not None,
                max_items=min(LIST_CHUNK, param.max_byte_num // width)))
    # 2. structured items
    versions = _first_of(_members_by_code(TlsVersion))
    containers.append(_Container(
        'TlsSupportedVersionVector', ext.TlsSupportedVersionVector, 2, versions, _vector_encoder(1, 2),
        view=lambda item: item.version if isinstance(item, TlsProtocolVersion) else item, grease=GREASE_TWO))
    groups = _first_of(_members_by_code(ext.TlsNamedCurve))
    containers.append(_Container(
        'TlsKeyShareEntryVector', ext.TlsKeyShareEntryVector, 2, groups,
        _vector_encoder(2, 2, lambda code: b'\x00\x01\xaa'), view=lambda item: item.group, grease=GREASE_TWO))
    types = _first_of(_members_by_code(ext.TlsExtensionType))
    for cls, variant, table in ((ext.TlsExtensionsClient, ext.TlsExtensionVariantClient, EXTENSION_DATA_CLIENT),
                                (ext.TlsExtensionsServer, ext.TlsExtensionVariantServer, EXTENSION_DATA_SERVER)):
        data_of = {}
        uncovered = []
        for member in variant.get_parsed_extensions():
            if member.name in table:
                data_of[member.value.code] = _h(table[member.name])
            else:
                uncovered.append(member.name)

        def payload(code, _data_of=data_of):
            data = _data_of.get(code, b'')
            return len(data).to_bytes(2, 'big') + data
        skip = frozenset(code for code, member in types.items() if member.name in uncovered)
        containers.append(_Container(
            cls.__name__, cls, 2, {code: member for code, member in types.items() if code not in skip},
            _vector_encoder(2, 2, payload), view=lambda item: item.extension_type, grease=GREASE_TWO,
            uncovered=uncovered, skip=skip))
    # 3. lists without a fallback class
    cert_types = {int(member): member for member in sub.TlsClientCertificateType}
    containers.append(_Container(
        'TlsClientCertificateTypeVector', sub.TlsClientCertificateTypeVector, 1, cert_types, _vector_encoder(1, 1),
        fallback=False))
    kinds = _first_of(_members_by_code(SslCipherKind))

    def client_hello(codes):
        body = b''.join(code.to_bytes(3, 'big') for code in codes)
        return _h('0002') + len(body).to_bytes(2, 'big') + _h('0000 0010') + body + b'\x22' * 16
    containers.append(_Container(
        'cipher-kinds@SslHandshakeClientHello', sub.SslHandshakeClientHello, 3, kinds, client_hello,
        items=lambda obj: list(obj.cipher_kinds), fallback=False))
    return {container.name: container for container in containers}


def _judge_list(con, codes):  # pylint: disable=too-many-branches
    """-> (findings, status) with status in {'accepted', 'rejected'}"""
    data = con.encode(codes)
    out = lib.call(con.cls.parse_exact_size, data)
    if out.kind == 'leak':
        return [_leak(con.name, out.exc)], 'rejected'
    if not out.ok:
        if all(code in con.members for code in codes) and codes:
            return [Finding('member-rejected/' + con.name, {
                'codes': codes[:8], 'error': type(out.exc).__name__, 'input': data.hex()[:80]})], 'rejected'
        return _NONE, 'rejected'
    items = con.items(out.value)
    if len(items) != len(codes):
        return [Finding('list-length/' + con.name, {
            'codes': codes[:8], 'expected': len(codes), 'parsed': len(items), 'input': data.hex()[:80]})], 'accepted'
    findings = []
    for code, item in zip(codes, items):
        got = con.view(item)
        member = con.members.get(code)
        if member is not None:
            if got is member:
                continue
            if _code_of(got) == code:
                findings.append(Finding('member-as-unknown/' + con.name, {
                    'code': code, 'member': _render(member), 'got': _render(got)}))
            else:
                findings.append(Finding('list-item/' + con.name, {
                    'code': code, 'member': _render(member), 'got': _render(got), 'what': 'member redirected'}))
        elif _code_of(got) != code:
            findings.append(Finding('list-item/' + con.name, {
                'code': code, 'got': _render(got), 'what': 'unknown code altered'}))
        elif _is_fallback(got):
            for found in _judge_fallback_object(con.name, got, code, con.grease):
                findings.append(Finding(found.key.replace('unknown-altered/', 'list-item/'), found.detail))
        elif isinstance(got, enum.Enum):
            findings.append(Finding('list-item/' + con.name, {
                'code': code, 'got': _render(got), 'what': 'unknown code decoded to a member'}))
        if findings:
            break
    if not findings:
        composed = lib.call(out.value.compose)
        if not composed.ok or bytes(composed.value) != data:
            findings.append(Finding('list-compose/' + con.name, {
                'codes': codes[:8], 'input': data.hex()[:80],
                'composed': bytes(composed.value).hex()[:80] if composed.ok else repr(composed.exc)[:120]}))
    return findings, 'accepted'


# ---------------------------------------------------------------------------------------------------
# catalogue: string-coded enumerations
# ---------------------------------------------------------------------------------------------------

def _string_enum_classes():
    """StringEnum*Parsable enums with members (httpx/, dnsrec/txt, ssh cert extension names)."""
    from cryptoparser.common.base import StringEnumParsableBase  # pylint: disable=import-outside-toplevel
    lib.import_all()
    out = {}
    stack = [StringEnumParsableBase]
    while stack:
        for sub in stack.pop().__subclasses__():
            stack.append(sub)
            if issubclass(sub, enum.Enum) and len(sub.__members__) and sub.__module__.startswith('cryptoparser.'):
                out[_enum_ref(sub)] = sub
    return dict(sorted(out.items()))


def _is_case_insensitive(enum_class):
    from cryptoparser.common.base import StringEnumCaseInsensitiveParsable  # pylint: disable=import-outside-toplevel
    return issubclass(enum_class, StringEnumCaseInsensitiveParsable)


def _judge_string_alone(enum_class, text):
    """parse_exact_size(text) of a StringEnum*Parsable enum."""
    space = enum_class.__name__
    insensitive = _is_case_insensitive(enum_class)
    fold = (lambda s: s.lower()) if insensitive else (lambda s: s)
    owners = [member for member in enum_class if fold(member.value.code) == fold(text)]
    try:
        data = text.encode('ascii')
    except UnicodeEncodeError:
        data = text.encode('utf-8')
    out = lib.call(enum_class.parse_exact_size, data)
    if out.kind == 'leak':
        return [_leak(space, out.exc)]
    if owners:
        if not out.ok:
            return [Finding('member-rejected/' + space, {
                'text': text, 'member': owners[0].name, 'error': type(out.exc).__name__})]
        if out.value not in owners:
            return [Finding('member-redirected/' + space, {
                'text': text, 'member': owners[0].name, 'got': _render(out.value), 'stage': 'parse'})]
        composed = lib.call(out.value.compose)
        canonical = out.value.value.code.encode('ascii')
        if not composed.ok or bytes(composed.value) != canonical or fold(canonical.decode()) != fold(text):
            return [Finding('member-redirected/' + space, {
                'text': text, 'stage': 'compose',
                'composed': bytes(composed.value).decode('latin-1') if composed.ok else repr(composed.exc)[:120]})]
        return _NONE
    if out.ok:
        return [Finding('unknown-altered/' + space, {'text': text, 'got': _render(out.value), 'stage': 'parse'})]
    return _NONE


def _near_misses(code, insensitive):
    out = [code[:-1], code + 'x', code + '-', ' ' + code]
    if len(code) > 2:
        out.append(code[1:])
    if not insensitive:
        for variant in (code.swapcase(), code.upper(), code.lower(), code.capitalize()):
            if variant != code:
                out.append(variant)
    return [text for text in dict.fromkeys(out) if text]


class _NameList(object):
    """A structure holding a list of names.  encode(names) -> bytes; members: name -> member."""

    def __init__(self, name, cls, members, encode, **options):
        self.name, self.cls, self.members, self.encode = name, cls, members, encode
        self.items = options.get('items', list)
        self.view = options.get('view', lambda item: item)
        self.fallback = options.get('fallback', True)
        self.max_items = options.get('max_items', 16)
        self.compose = options.get('compose', lambda obj: obj.compose())


def _cert_option_item(name, known):
    """One OpenSSH certificate option as the library's classes lay it out."""
    text = name.encode('ascii')
    if name == 'force-command':
        return _s(text) + _s(b'/bin/true')
    if name == 'source-address':
        return _s(text) + _s(b'10.0.0.0/8')
    if known:
        return _s(text) + _s(b'')
    return _s(text) + _s(b'\x01\x02')


def _build_name_lists():  # pylint: disable=too-many-locals
    from cryptodatahub.tls.algorithm import TlsNextProtocolName, TlsProtocolName  # pylint: disable=import-outside-toplevel
    from cryptoparser.ssh import key as sshkey, subprotocol as ssh  # pylint: disable=import-outside-toplevel
    from cryptoparser.tls import extension as ext  # pylint: disable=import-outside-toplevel

    lists = []

    def name_list(names):
        return _s(','.join(names).encode('ascii'))
    for vector in (ssh.SshKexAlgorithmVector, ssh.SshHostKeyAlgorithmVector, ssh.SshEncryptionAlgorithmVector,
                   ssh.SshMacAlgorithmVector, ssh.SshCompressionAlgorithmVector):
        table = {member.value.code: member for member in vector.get_item_class()}
        lists.append(_NameList(vector.__name__, vector, table, name_list))

    def opaque_list(length_width):
        def encode(names):
            # lone surrogates (U+DC80..U+DCFF) stand for the raw bytes 0x80..0xff: names that are not valid UTF-8
            raw = [name.encode('utf-8', 'surrogateescape') for name in names]
            body = b''.join(bytes([len(item)]) + item for item in raw)
            return (len(body).to_bytes(length_width, 'big') if length_width else b'') + body
        return encode
    lists.append(_NameList('TlsProtocolNameList', ext.TlsProtocolNameList,
                           {member.value.code: member for member in TlsProtocolName}, opaque_list(2), fallback=False))
    lists.append(_NameList('TlsNextProtocolNameList', ext.TlsNextProtocolNameList,
                           {member.value.code: member for member in TlsNextProtocolName}, opaque_list(2),
                           fallback=False))
    def compose_name(member):
        # a bare table member is re-encoded by the composer its list uses (compose_string_enum_coded)
        from cryptoparser.common.parse import ComposerBinary  # pylint: disable=import-outside-toplevel
        composer = ComposerBinary()
        composer.compose_string_enum_coded(member, 1)
        return composer.composed_bytes
    lists.append(_NameList('TlsProtocolNameFactory', ext.TlsProtocolNameFactory,
                           {member.value.code: member for member in TlsProtocolName}, opaque_list(0),
                           fallback=False, max_items=1, items=lambda obj: [obj], compose=compose_name))
    lists.append(_NameList('TlsNextProtocolNameFactory', ext.TlsNextProtocolNameFactory,
                           {member.value.code: member for member in TlsNextProtocolName},
                           opaque_list(0), fallback=False, max_items=1, items=lambda obj: [obj], compose=compose_name))
    # OpenSSH certificate options
    all_names = {member.value.code: member for member in sshkey.SshCertExtensionName}
    sections = (
        ('SshCertConstraintVector', sshkey.SshCertConstraintVector, all_names),
        ('SshCertCriticalOptionVector', sshkey.SshCertCriticalOptionVector,
         {code: member for code, member in all_names.items() if member.value.critical}),
        ('SshCertExtensionVector', sshkey.SshCertExtensionVector,
         {code: member for code, member in all_names.items() if not member.value.critical}),
    )
    for name, cls, table in sections:
        def encode(names, _table=table):
            body = b''.join(_cert_option_item(item, item in _table) for item in names)
            return _s(body)
        lists.append(_NameList(name, cls, table, encode, view=lambda item: item.extension_name, max_items=8))
    return {entry.name: entry for entry in lists}


def _judge_name_list(entry, names):
    data = entry.encode(names)
    out = lib.call(entry.cls.parse_exact_size, data)
    if out.kind == 'leak':
        return [_leak(entry.name, out.exc)], 'rejected'
    if not out.ok:
        if names and all(name in entry.members for name in names):
            return [Finding('member-rejected/' + entry.name, {
                'names': names[:6], 'error': type(out.exc).__name__, 'input': data.hex()[:120]})], 'rejected'
        return _NONE, 'rejected'
    items = entry.items(out.value)
    if len(items) != len(names):
        return [Finding('list-length/' + entry.name, {
            'names': names[:6], 'expected': len(names), 'parsed': len(items)})], 'accepted'
    for name, item in zip(names, items):
        got = entry.view(item)
        member = entry.members.get(name)
        if member is not None:
            if got is not member:
                key = 'member-as-unknown/' if _code_of(got) == name else 'list-item/'
                return [Finding(key + entry.name, {'name': name, 'member': _render(member), 'got': _render(got)})], 'accepted'
        elif got != name or isinstance(got, enum.Enum):
            return [Finding('list-item/' + entry.name, {
                'name': name, 'got': _render(got), 'what': 'unknown name altered'})], 'accepted'
    composed = lib.call(entry.compose, out.value)
    if not composed.ok or bytes(composed.value) != data:
        return [Finding('list-compose/' + entry.name, {
            'names': names[:6], 'input': data.hex()[:120],
            'composed': bytes(composed.value).hex()[:120] if composed.ok else repr(composed.exc)[:120]})], 'accepted'
    return _NONE, 'accepted'


# host keys: the algorithm name (and, for ECDSA, the curve identifier) is a string code inside the key blob
HOST_KEY_BODIES = {
    'SshHostKeyDSS': _s(b'\x7f') + _s(b'\x05') + _s(b'\x02') + _s(b'\x09'),
    'SshHostKeyRSA': _s(b'\x01\x00\x01') + _s(b'\x00\xc1' + b'\x23' * 31),
    'SshHostKeyECDSA': _s(b'nistp256') + _s(_h(P256_G)),
    'SshHostKeyEDDSA': _s(b'\x11' * 32),
}


def _judge_host_key_name(class_name, text):
    from cryptodatahub.ssh.algorithm import SshHostKeyAlgorithm  # pylint: disable=import-outside-toplevel
    from cryptoparser.ssh import key as sshkey  # pylint: disable=import-outside-toplevel
    space = 'host-key-algorithm@' + class_name
    cls = getattr(sshkey, class_name)
    data = _s(text.encode('ascii')) + HOST_KEY_BODIES[class_name]
    members = {member.value.code: member for member in SshHostKeyAlgorithm}
    own = {member.value.code for member in cls.get_host_key_algorithms()}
    out = lib.call(cls.parse_exact_size, data)
    if out.kind == 'leak':
        return [_leak(space, out.exc)]
    if text in own:
        if not out.ok:
            return [Finding('member-rejected/' + space, {'name': text, 'error': type(out.exc).__name__})]
        if out.value.host_key_algorithm is not members[text]:
            return [Finding('member-redirected/' + space, {
                'name': text, 'got': _render(out.value.host_key_algorithm), 'stage': 'parse'})]
        composed = lib.call(out.value.compose)
        if not composed.ok or bytes(composed.value) != data:
            return [Finding('member-redirected/' + space, {'name': text, 'stage': 'compose'})]
        return _NONE
    if out.ok:
        got = out.value.host_key_algorithm
        key = 'member-redirected/' if text in members else 'unknown-altered/'
        return [Finding(key + space, {'name': text, 'got': _render(got), 'stage': 'parse'})]
    return _NONE


def _curve_point(identifier):
    if identifier.value.code == 'nistp256':
        return _h(P256_G)
    size = (identifier.value.named_group.value.size + 7) // 8
    return b'\x04' + b'\x01' * (2 * size)


def _judge_curve_identifier(text):
    from cryptodatahub.ssh.algorithm import SshEllipticCurveIdentifier  # pylint: disable=import-outside-toplevel
    from cryptoparser.ssh.key import SshHostKeyECDSA  # pylint: disable=import-outside-toplevel
    space = 'curve-identifier@SshHostKeyECDSA'
    members = {member.value.code: member for member in SshEllipticCurveIdentifier}
    member = members.get(text)
    point = _curve_point(member) if member is not None else _h(P256_G)
    data = _s(b'ecdsa-sha2-nistp256') + _s(text.encode('ascii')) + _s(point)
    out = lib.call(SshHostKeyECDSA.parse_exact_size, data)
    if out.kind == 'leak':
        if member is not None and isinstance(out.exc, ValueError):
            return _NONE            # the made-up point is refused by the key class (C02's business), not the name
        return [_leak(space, out.exc)]
    if member is not None:
        if not out.ok:
            return [Finding('member-rejected/' + space, {'name': text, 'error': type(out.exc).__name__})]
        if out.value.public_key.params.named_group is not member.value.named_group:
            return [Finding('member-redirected/' + space, {
                'name': text, 'got': _render(out.value.public_key.params.named_group), 'stage': 'parse'})]
        composed = lib.call(out.value.compose)
        if not composed.ok or bytes(composed.value) != data:
            return [Finding('member-redirected/' + space, {
                'name': text, 'stage': 'compose',
                'composed': bytes(composed.value).hex()[:120] if composed.ok else repr(composed.exc)[:120]})]
        return _NONE
    if out.ok:
        return [Finding('unknown-altered/' + space, {
            'name': text, 'got': _render(out.value.public_key.params.named_group), 'stage': 'parse'})]
    return _NONE


# ---------------------------------------------------------------------------------------------------
# alias rule
# ---------------------------------------------------------------------------------------------------

def _enum_ref(enum_class):
    """module:attribute under which the class can be resolved again (cryptodatahub renames some tables on import)"""
    import sys  # pylint: disable=import-outside-toplevel
    module = sys.modules[enum_class.__module__]
    if getattr(module, enum_class.__qualname__, None) is enum_class:
        return lib.ref_of(enum_class)
    for name, value in sorted(vars(module).items()):
        if value is enum_class:
            return '%s:%s' % (enum_class.__module__, name)
    raise CatalogueError('cannot reference %r' % (enum_class,))


def _enum_classes():
    """Every enum class defined in cryptoparser and every cryptodatahub enum referenced from a cryptoparser
    module (or served by a factory / name list), by reference."""
    import sys  # pylint: disable=import-outside-toplevel
    lib.import_all()
    found = {}
    for name, module in sorted(sys.modules.items()):
        if not name.startswith('cryptoparser.') and name != 'cryptoparser':
            continue
        for value in vars(module).values():
            if isinstance(value, type) and issubclass(value, enum.Enum) and len(value.__members__) and \
                    value.__module__.split('.')[0] in ('cryptoparser', 'cryptodatahub'):
                found[_enum_ref(value)] = value
    return dict(sorted(found.items()))


def _alias_allowed(enum_class, value):
    """Pairs the protocol itself assigns.  RFC 4250 4.1.2: SSH message numbers 30..49 are key exchange method
    specific and may be reused by different methods (RFC 4419 5 reuses 31)."""
    return enum_class.__name__ == 'SshMessageCode' and isinstance(value, int) and 30 <= value <= 49


def _judge_alias(enum_class):
    findings = []
    groups = {}
    for name, member in enum_class.__members__.items():
        inner = member.value
        if hasattr(inner, 'code'):
            key = ('code', repr(inner.code))
            shown = inner.code
        else:
            key = ('value', repr(inner))
            shown = inner if isinstance(inner, (int, str)) else repr(inner)[:60]
        groups.setdefault(key, [shown, []])[1].append(name)
    shared = []
    for shown, names in groups.values():
        if len(names) > 1 and not _alias_allowed(enum_class, shown):
            shared.append({'code': shown, 'names': names})
    if shared:
        findings.append(Finding('alias/' + enum_class.__name__, {'shared': shared[:10]}))
    return findings


# ---------------------------------------------------------------------------------------------------
# catalogue access
# ---------------------------------------------------------------------------------------------------

_CAT = {}


def _cat(kind):
    if kind not in _CAT:
        lib.import_all()
        builders = {
            'factory': _discover_factories, 'fallback': _fallback_classes, 'carrier': _build_carriers,
            'list': _build_containers, 'names': _build_name_lists, 'string': _string_enum_classes,
            'enum': _enum_classes,
        }
        _CAT[kind] = builders[kind]()
    return _CAT[kind]


def _validate_catalogue():
    """Sanity of the tables themselves (independent of what the parsers do): the code written in every template is
    a member of its table.  Whether the library accepts a template is part of the verdict (member-rejected/...),
    not of this check."""
    for car in _cat('carrier').values():
        for index, (label, _template) in enumerate(car.templates):
            own = car.own_field(index)
            if car.expected(own >> car.shift) is None:
                raise CatalogueError('%s/%s: template code %#x is not a member' % (car.name, label, own))


# ---------------------------------------------------------------------------------------------------
# check_case
# ---------------------------------------------------------------------------------------------------

def check_case(case):  # pylint: disable=too-many-return-statements
    kind = case['kind']
    if kind == 'factory':
        return list(_judge_factory(_cat('factory')[case['space']], case['code']))
    if kind == 'fallback':
        return list(_judge_fallback(_cat('fallback')[case['space']], case['code']))
    if kind == 'carrier':
        return list(_judge_carrier(_cat('carrier')[case['space']], case.get('template', 0), case['code']))
    if kind == 'list':
        return list(_judge_list(_cat('list')[case['space']], list(case['codes']))[0])
    if kind == 'list-history':
        # the same number met as an unknown code in a code space of the other width earlier in the process: what a
        # list decodes to does not depend on what was parsed before
        findings = []
        for step, (space, codes) in enumerate(case['steps']):
            for finding in _judge_list(_cat('list')[space], list(codes))[0]:
                findings.append(Finding('%s:history' % finding.key, dict(finding.detail, step=step, steps=case['steps'])))
        return findings
    if kind == 'names':
        return list(_judge_name_list(_cat('names')[case['space']], list(case['names']))[0])
    if kind == 'string':
        return list(_judge_string_alone(lib.resolve(case['enum']), case['text']))
    if kind == 'host-key-name':
        return list(_judge_host_key_name(case['space'], case['text']))
    if kind == 'curve-identifier':
        return list(_judge_curve_identifier(case['text']))
    if kind == 'alias':
        return list(_judge_alias(lib.resolve(case['enum'])))
    if kind == 'observed-hello':
        return list(_judge_observed_hello(case['groups'], case['formats'], case['suites']))
    raise ValueError(kind)


def _judge_observed_hello(groups, formats, suites):
    """Unknown / GREASE code points of a client hello are preserved bit for bit between parse and compose - also when
    the application looks at the message in between (ja3(), JSON, Markdown, str, equality)."""
    from cryptoparser.tls.subprotocol import TlsHandshakeClientHello  # pylint: disable=import-outside-toplevel
    from vf.ref import tls as R  # pylint: disable=import-outside-toplevel
    model = {'kind': 'client_hello', 'version': 0x0303, 'random': '5f' + '00' * 31, 'session_id': '',
             'cipher_suites': list(suites), 'compression_methods': [0],
             'extensions': [{'ext': 'supported_groups', 'groups': list(groups)},
                            {'ext': 'ec_point_formats', 'formats': list(formats)}]}
    wire = R.encode(model)
    out = lib.call(TlsHandshakeClientHello.parse_exact_size, wire)
    if not out.ok:
        return [Finding('member-rejected/observed-hello', {'error': out.signature(), 'wire': wire.hex()[:200]})]
    hello = out.value
    import json  # pylint: disable=import-outside-toplevel
    for observer in (hello.ja3, lambda: json.dumps(hello), lambda: str(hello), lambda: repr(hello), lambda: hello == hello):
        lib.call(observer)
    composed = lib.call(hello.compose)
    if not composed.ok or bytes(composed.value) != wire:
        return [Finding('list-compose/observed-hello', {
            'what': 'code points differ after the message was looked at (ja3 / json / markdown / str)',
            'groups': groups, 'formats': formats, 'suites': suites, 'input': wire.hex()[:240],
            'composed': bytes(composed.value).hex()[:240] if composed.ok else composed.signature()})]
    return _NONE


# ---------------------------------------------------------------------------------------------------
# generation
# ---------------------------------------------------------------------------------------------------

def _boundaries(width):
    top = (1 << (8 * width)) - 1
    values = {0, 1, 2, 0x7f, 0x80, 0xff, 0x100, 0x101, 0x7fff, 0x8000, 0xffff, 0x10000, 0x10080, 0x7fffff, 0x800000,
              0xffffff, 0x1000000, 0x7fffffff, 0x80000000, top - 1, top}
    for shift in range(0, 8 * width, 8):
        values |= {1 << shift, 0x80 << shift, 0xff << shift}
    return sorted(value for value in values if 0 <= value <= top)


def _sample_codes(width, members, grease, count, seed_value):
    """members + GREASE + boundaries + neighbours of members + `count` seeded random codes (sorted, distinct)."""
    rng = random.Random(seed_value)
    top = (1 << (8 * width)) - 1
    values = set(members) | set(grease) | set(_boundaries(width))
    for member in members:
        for delta in (-1, 1, 0x100, -0x100, 0x8000, -0x8000):
            if 0 <= member + delta <= top:
                values.add(member + delta)
        values.add(member ^ (1 << (8 * width - 1)))
    target = len(values) + count
    while len(values) < min(target, top + 1):
        values.add(rng.randint(0, top))
    return sorted(values)


def _record(stats, findings, case):
    for finding in findings:
        stats.finding(finding, case)


def _shard_codes(job):
    """Stand-alone factories, fallback classes, carriers: codes lo..hi-1 or an explicit code list."""
    kind, space, template, lo, hi, explicit, exhaustive = job
    stats = Stats()
    if kind == 'factory':
        subject = _cat('factory')[space]
        judge = lambda code: _judge_factory(subject, code)                      # noqa: E731
        interesting = lambda code: code in subject.by_code                      # noqa: E731
    elif kind == 'fallback':
        subject = _cat('fallback')[space]
        judge = lambda code: _judge_fallback(subject, code)                     # noqa: E731
        interesting = lambda code: code in subject.grease                       # noqa: E731
    else:
        subject = _cat('carrier')[space]
        judge = lambda code: _judge_carrier(subject, template, code)            # noqa: E731
        interesting = lambda code: subject.expected(code >> subject.shift) is not None   # noqa: E731
    codes = explicit if explicit is not None else range(lo, hi)
    count = nontrivial = 0
    last = None
    for code in codes:
        count += 1
        found = judge(code)
        if found:
            case = {'kind': kind, 'space': space, 'code': code}
            if kind == 'carrier':
                case['template'] = template
            _record(stats, found, case)
        if interesting(code):
            nontrivial += 1
            last = code
            if not exhaustive:
                stats.nontriv((space, template, code))
    stats.evaluations += count
    if exhaustive:
        stats.nontrivial_enumerated += nontrivial
    stats.classes[space] += count
    stats.labels[kind + (':exhaustive' if exhaustive else ':sampled')] += count
    if last is not None:
        sample = {'kind': kind, 'space': space, 'code': last}
        if kind == 'carrier':
            sample['template'] = template
        stats.sample(kind, sample)
    return stats


def _run_list(stats, con, chunk, judge, kind, field):
    """Judge one list; when the list is rejected as a whole, judge every code alone and between two members so that
    each code still gets its own verdict."""
    findings, status = judge(con, chunk)
    stats.evaluations += len(chunk)
    stats.classes[con.name] += len(chunk)
    stats.labels['%s:%s' % (kind, status)] += len(chunk)
    if findings:
        _record(stats, findings, {'kind': kind, 'space': con.name, field: chunk})
    if (findings or status == 'rejected') and len(chunk) > 1:
        anchor = next(iter(con.members))
        for code in chunk:
            for trial in ([code], [anchor, code, anchor]):
                found, trial_status = judge(con, trial)
                stats.labels['%s:single:%s' % (kind, trial_status)] += 1
                _record(stats, found, {'kind': kind, 'space': con.name, field: trial})


def _shard_lists(job):
    space, codes, seed_value, exhaustive = job
    con = _cat('list')[space]
    stats = Stats()
    rng = random.Random(seed_value)
    codes = list(codes)
    rng.shuffle(codes)
    if con.fallback:
        mixed, alone = codes, []
    else:
        mixed = [code for code in codes if code in con.members]
        alone = [code for code in codes if code not in con.members]
    step = con.max_items
    for start in range(0, len(mixed), step):
        _run_list(stats, con, mixed[start:start + step], _judge_list, 'list', 'codes')
    anchor = next(iter(con.members))
    for code in alone:
        for trial in ([code], [anchor, code, anchor]):
            findings, status = _judge_list(con, trial)
            stats.labels['list:single:' + status] += 1
            _record(stats, findings, {'kind': 'list', 'space': space, 'codes': trial})
        stats.evaluations += 1
        stats.classes[space] += 1
    if exhaustive:
        stats.nontrivial_enumerated += len(codes)
    else:
        for code in codes:
            stats.nontriv((space, code))
    if mixed:
        stats.sample('list', {'kind': 'list', 'space': space, 'codes': mixed[:6]})
    return stats


def _shard_strings(job):  # pylint: disable=too-many-locals,too-many-branches
    part, seed_value = job
    stats = Stats()
    rng = random.Random(seed_value)
    if part == 'alone':
        for ref, enum_class in _cat('string').items():
            insensitive = _is_case_insensitive(enum_class)
            texts = []
            for member in enum_class:
                code = member.value.code
                texts.append((code, True))
                if insensitive:
                    texts += [(code.upper(), True), (code.swapcase(), True)]
                texts += [(text, False) for text in _near_misses(code, insensitive)]
            for text, is_member in texts:
                case = {'kind': 'string', 'enum': ref, 'text': text}
                stats.evaluations += 1
                stats.classes[enum_class.__name__] += 1
                stats.labels['string:member' if is_member else 'string:near-miss'] += 1
                stats.nontriv(('string', ref, text))
                _record(stats, check_case(case), case)
            stats.sample('string', {'kind': 'string', 'enum': ref, 'text': texts[-1][0]})
    elif part == 'names':
        for entry in _cat('names').values():
            names = list(entry.members)
            # every member alone, all members in lists, near misses alone and between members, unknown names
            for name in names:
                _run_list(stats, entry, [name], _judge_name_list, 'names', 'names')
                stats.nontriv(('names', entry.name, name))
            shuffled = list(names)
            rng.shuffle(shuffled)
            for start in range(0, len(shuffled), entry.max_items):
                _run_list(stats, entry, shuffled[start:start + entry.max_items], _judge_name_list, 'names', 'names')
            if entry.max_items > 1:
                _run_list(stats, entry, [], _judge_name_list, 'names', 'names')
            strangers = ['x-unknown@example.org', 'zz']
            for name in names:
                strangers += _near_misses(name, False)
            if entry.name.startswith('Tls'):
                # a registered name with one byte that is not valid UTF-8 before, inside or after it: a decoder that
                # drops what it cannot decode takes it for the registered name
                for name in names:
                    strangers += [name + '\udcff', '\udcc0' + name, name[:1] + '\udcfe' + name[1:]]
            strangers = [text for text in dict.fromkeys(strangers)
                         if text not in entry.members and ',' not in text and text.strip() == text]
            for text in strangers:
                trials = [[text]] if entry.max_items == 1 else [[text], [names[0], text, names[-1]]]
                for trial in trials:
                    findings, status = _judge_name_list(entry, trial)
                    stats.evaluations += 1
                    stats.classes[entry.name] += 1
                    stats.labels['names:near-miss:' + status] += 1
                    stats.nontriv(('names', entry.name, trial))
                    _record(stats, findings, {'kind': 'names', 'space': entry.name, 'names': trial})
            stats.sample('names', {'kind': 'names', 'space': entry.name, 'names': shuffled[:4]})
    elif part == 'observed-hello':
        grease16 = [0x0a0a, 0x1a1a, 0xfafa]
        cases = []
        for g in grease16:
            cases.append({'kind': 'observed-hello', 'groups': [g, 0x0017], 'formats': [0], 'suites': [0x002f]})
            cases.append({'kind': 'observed-hello', 'groups': [0x0017, g, 0x0018, g], 'formats': [0, 1], 'suites': [g, 0x002f]})
        for f in (0x0b, 0x2a, 0xfe, 0x7f):
            cases.append({'kind': 'observed-hello', 'groups': [0x0017], 'formats': [f, 0], 'suites': [0x002f]})
            cases.append({'kind': 'observed-hello', 'groups': [0xabcd, 0x0017], 'formats': [0, f, 1], 'suites': [0x002f, 0xe001]})
        for case in cases:
            stats.evaluations += 1
            stats.classes['observed-hello'] += 1
            stats.labels['observed-hello'] += 1
            stats.nontriv(('observed-hello', repr(case)))
            _record(stats, check_case(case), case)
        stats.sample('observed-hello', cases[1])
    elif part == 'host-keys':
        from cryptodatahub.ssh.algorithm import SshEllipticCurveIdentifier, SshHostKeyAlgorithm  # pylint: disable=import-outside-toplevel
        names = [member.value.code for member in SshHostKeyAlgorithm]
        for class_name in HOST_KEY_BODIES:
            texts = list(names)
            for name in names:
                texts += _near_misses(name, False)
            for text in dict.fromkeys(texts):
                case = {'kind': 'host-key-name', 'space': class_name, 'text': text}
                stats.evaluations += 1
                stats.classes['host-key-algorithm@' + class_name] += 1
                stats.labels['host-key-name'] += 1
                stats.nontriv(('hk', class_name, text))
                _record(stats, check_case(case), case)
            stats.sample('host-key-name', {'kind': 'host-key-name', 'space': class_name, 'text': names[0]})
        curves = [member.value.code for member in SshEllipticCurveIdentifier]
        texts = list(curves)
        for name in curves:
            texts += _near_misses(name, False)
        for text in dict.fromkeys(texts):
            case = {'kind': 'curve-identifier', 'text': text}
            stats.evaluations += 1
            stats.classes['curve-identifier@SshHostKeyECDSA'] += 1
            stats.labels['curve-identifier'] += 1
            stats.nontriv(('curve', text))
            _record(stats, check_case(case), case)
        stats.sample('curve-identifier', {'kind': 'curve-identifier', 'text': curves[0]})
    elif part == 'alias':
        for ref, enum_class in _cat('enum').items():
            case = {'kind': 'alias', 'enum': ref}
            stats.evaluations += 1
            stats.classes['alias:' + enum_class.__name__] += 1
            stats.labels['alias'] += 1
            if len(enum_class.__members__) > 1:
                stats.nontriv(('alias', ref))
            _record(stats, check_case(case), case)
        stats.sample('alias', {'kind': 'alias', 'enum': 'cryptoparser.tls.subprotocol:TlsHandshakeType'})
    return stats


def _history_cases():
    """One-byte and two-byte list containers with a fallback, paired; numbers below 0x100 that are unknown in both
    spaces of a pair are parsed in one space and then in the other (both orders, different numbers)."""
    lists = _cat('list')
    narrow = [name for name, con in sorted(lists.items()) if con.width == 1 and con.fallback][:4]
    wide = [name for name, con in sorted(lists.items()) if con.width == 2 and con.fallback][:6]
    cases = []
    for one in narrow:
        for two in wide:
            free = [code for code in range(0x100) if code not in lists[one].members and code not in lists[one].skip
                    and code not in lists[two].members and code not in lists[two].skip
                    and code not in lists[one].grease and code not in lists[two].grease]
            if len(free) < 4:
                continue
            picks = [free[0], free[len(free) // 3], free[2 * len(free) // 3], free[-1]]
            cases.append({'kind': 'list-history', 'steps': [[one, [picks[0], picks[1]]], [two, [picks[0], picks[1], picks[0]]]]})
            cases.append({'kind': 'list-history', 'steps': [[two, [picks[2], picks[3]]], [one, [picks[2], picks[3], picks[2]]]]})
    return cases


def _shard_history(_job_arg):
    stats = Stats()
    for case in _history_cases():
        stats.evaluations += 1
        stats.labels['list-history'] += 1
        stats.nontriv(('list-history', repr(case['steps'])))
        _record(stats, check_case(case), case)
    return stats


def _job(job):
    return {'codes': _shard_codes, 'lists': _shard_lists, 'strings': _shard_strings,
            'history': _shard_history}[job[0]](job[1])


def _split(total, parts):
    step = max(1, (total + parts - 1) // parts)
    return [(lo, min(total, lo + step)) for lo in range(0, total, step)]


def run(ctx):  # pylint: disable=too-many-locals,too-many-branches,too-many-statements
    quick = ctx.quick
    _validate_catalogue()
    jobs = []
    complete, sampled = [], []
    # 1. stand-alone factories and fallback classes
    for kind in ('factory', 'fallback'):
        for name, subject in _cat(kind).items():
            if subject.width <= 2 or (subject.width == 3 and not quick):
                total = 1 << (8 * subject.width)
                for lo, hi in _split(total, 1 if total <= 65536 else 64):
                    jobs.append(('codes', (kind, name, 0, lo, hi, None, True)))
                complete.append('%s (%d-byte)' % (name, subject.width))
            else:
                count = 20000 if quick else 2000000
                codes = _sample_codes(subject.width, list(subject.by_code), (), count, ctx.derive_seed('factory', name))
                for lo, hi in _split(len(codes), 1 if quick else 16):
                    jobs.append(('codes', (kind, name, 0, 0, 0, codes[lo:hi], False)))
                sampled.append('%s (%d-byte: members, boundaries, %d random)' % (name, subject.width, count))
    # 2. carriers
    for name, car in _cat('carrier').items():
        members = [code << car.shift for code in car.expected.codes]
        full = car.width == 1 or (car.width == 2 and (not quick or not car.thorough_only))
        for index in range(len(car.templates)):
            if full:
                jobs.append(('codes', ('carrier', name, index, 0, car.size, None, True)))
            else:
                count = 4096 if quick else 200000
                codes = _sample_codes(car.width, members, car.grease or (GREASE_TWO if car.width == 2 else ()), count,
                                      ctx.derive_seed('carrier', name, index))
                jobs.append(('codes', ('carrier', name, index, 0, 0, codes, False)))
        (complete if full else sampled).append('%s (%d-byte%s)' % (
            name, car.width, '' if full else ': members, GREASE, boundaries, random'))
    # 3. list containers
    for name, con in _cat('list').items():
        full = con.width == 1 or (con.width == 2 and not quick)
        if full:
            codes = list(range(con.size))
        else:
            count = 4096 if con.width == 2 else (20000 if quick else 500000)
            codes = _sample_codes(con.width, list(con.members), con.grease or (GREASE_TWO if con.width == 2 else ()),
                                  count, ctx.derive_seed('list-codes', name))
        codes = [code for code in codes if code not in con.skip]
        parts = 1 if len(codes) <= 8192 else 16
        for index, (lo, hi) in enumerate(_split(len(codes), parts)):
            jobs.append(('lists', (name, codes[lo:hi], ctx.derive_seed('list', name, index), full)))
        (complete if full else sampled).append('%s (list of %d-byte codes%s)' % (
            name, con.width, '' if full else ': members, GREASE, boundaries, random'))
    # 4. strings and the alias rule
    for part in ('alone', 'names', 'host-keys', 'alias', 'observed-hello'):
        jobs.append(('strings', (part, ctx.derive_seed('strings', part))))
    jobs.append(('history', None))
    # big jobs first
    order = sorted(range(len(jobs)), key=lambda i: -_job_weight(jobs[i]))
    stats = pool.run_shards(_job, [jobs[i] for i in order])
    stats.extra['exhaustive'] = True
    stats.extra['exhaustive_scope'] = 'enumerated completely: ' + '; '.join(complete)
    stats.extra['sampled_scope'] = 'members + boundaries + seeded random sample: ' + '; '.join(sampled)
    stats.extra['spaces'] = {
        'factories': len(_cat('factory')), 'fallback_classes': len(_cat('fallback')), 'carriers': len(_cat('carrier')),
        'list_containers': len(_cat('list')), 'name_lists': len(_cat('names')),
        'string_enums': len(_cat('string')), 'enum_classes_alias_rule': len(_cat('enum'))}
    uncovered = {name: con.uncovered for name, con in _cat('list').items() if con.uncovered}
    if uncovered:
        stats.extra['extension_classes_without_template'] = uncovered
    return stats


def _job_weight(job):
    kind, arg = job
    if kind == 'codes':
        return len(arg[5]) if arg[5] is not None else arg[4] - arg[3]
    if kind == 'lists':
        return 4 * len(arg[1])
    return 3000
