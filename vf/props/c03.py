# -*- coding: utf-8 -*-
"""C03 — reported consumed length is exact and framing units are self-delimiting.

Metamorphic relations between the three parse entry points of every class, plus — for stream framing units — the
relation parse(buf) == parse(buf[:n]) == parse(buf[:n] + suffix) and an independent header reader `declared()`.
"""
import os
import random
import time

from vf.core import lib, pool, targets
from vf.core.stats import Finding, Stats
from vf.gen import mutate, seeds
from vf.props import c02

ID = 'C03'
LEVEL = 'exploration'
RULE = ('for every concrete parsable class: seeds (unit-test inputs and composed generated objects), each seed followed '
        'by generated suffixes (random bytes, other seeds, a copy of itself), seeded mutants, and concatenations of '
        '2-4 seeds; every buffer goes through parse_immutable, parse_mutable (on a bytearray copy) and '
        'parse_exact_size and the outcomes are related; framing units additionally re-parse buf[:n] and '
        'buf[:n]+suffix and compare n with an independent reader of the frame header. Non-trivial: an accepted '
        'buffer that is longer than the consumed length (frame + suffix), or an accepted mutant. Distinct by '
        '(class, buffer).')
ASSUMPTIONS = [
    'parsing is deterministic: two parses of equal bytes give structurally equal objects',
    'declared() is written from the specifications: TLS record 5+u16; SSL 2.0 record 2-byte header (15-bit length) '
    'or 3-byte header (14-bit length, padding counted inside); TLS handshake 4+u24; SSH banner up to the first LF; '
    'SSH binary packet 4+u32; MySQL 4+u24le; TPKT u16 total length; OpenVPN-TCP 2+u16; LDAP BER definite length; '
    'PostgreSQL SSLRequest u32 (=8)',
]

N_SHARDS = 64


# ---------------------------------------------------------------------------------------------------
# independent frame-header readers
# ---------------------------------------------------------------------------------------------------

def _u(data, offset, width, order='big'):
    if len(data) < offset + width:
        return None
    return int.from_bytes(data[offset:offset + width], order)


def _decl_tls_record(data):
    length = _u(data, 3, 2)
    return None if length is None else 5 + length


def _decl_ssl_record(data):
    if len(data) < 2:
        return None
    if data[0] & 0x80:
        return 2 + (((data[0] & 0x7f) << 8) | data[1])
    if len(data) < 3:
        return None
    return 3 + (((data[0] & 0x3f) << 8) | data[1])


def _decl_handshake(data):
    length = _u(data, 1, 3)
    return None if length is None else 4 + length


def _decl_banner(data):
    index = data.find(b'\n')
    return None if index < 0 else index + 1


def _decl_ssh_record(data):
    length = _u(data, 0, 4)
    return None if length is None else 4 + length


def _decl_mysql(data):
    length = _u(data, 0, 3, 'little')
    return None if length is None else 4 + length


def _decl_tpkt(data):
    return _u(data, 2, 2)


def _decl_openvpn_tcp(data):
    length = _u(data, 0, 2)
    return None if length is None else 2 + length


def _ber_end(data, pos, depth=0):
    """End offset of the BER TLV starting at pos (definite short / long form, or the indefinite form of a
    constructed value: children up to the end-of-contents octets), None when it is cut short or not BER."""
    if depth > 32 or pos + 2 > len(data):
        return None
    tag = data[pos]
    if tag & 0x1f == 0x1f:
        return None       # high tag numbers: not used by LDAPMessage
    first = data[pos + 1]
    if first < 0x80:
        return pos + 2 + first
    count = first & 0x7f
    if count == 0:
        if not tag & 0x20:
            return None   # the indefinite form needs a constructed value
        cursor = pos + 2
        while True:
            if cursor + 2 > len(data):
                return None
            if data[cursor] == 0 and data[cursor + 1] == 0:
                return cursor + 2
            cursor = _ber_end(data, cursor, depth + 1)
            if cursor is None:
                return None
    if pos + 2 + count > len(data):
        return None
    return pos + 2 + count + int.from_bytes(data[pos + 2:pos + 2 + count], 'big')


def _decl_ber(data):
    return _ber_end(data, 0)


def _decl_pg(data):
    return _u(data, 0, 4)


def framing_units():
    """{class ref: (declared reader, n must be > 0)}"""
    units = {
        'cryptoparser.tls.record:TlsRecord': _decl_tls_record,
        'cryptoparser.tls.record:SslRecord': _decl_ssl_record,
        'cryptoparser.tls.subprotocol:TlsHandshakeMessageVariant': _decl_handshake,
        'cryptoparser.ssh.subprotocol:SshProtocolMessage': _decl_banner,
        'cryptoparser.ssh.record:SshRecordInit': _decl_ssh_record,
        'cryptoparser.ssh.record:SshRecordKexDH': _decl_ssh_record,
        'cryptoparser.ssh.record:SshRecordKexDHGroup': _decl_ssh_record,
        'cryptoparser.tls.mysql:MySQLRecord': _decl_mysql,
        'cryptoparser.tls.rdp:TPKT': _decl_tpkt,
        'cryptoparser.tls.openvpn:OpenVpnPacketWrapperTcp': _decl_openvpn_tcp,
        'cryptoparser.tls.ldap:LDAPExtendedRequestStartTLS': _decl_ber,
        'cryptoparser.tls.ldap:LDAPExtendedResponseStartTLS': _decl_ber,
        'cryptoparser.tls.postgresql:SslRequest': _decl_pg,
    }
    from cryptoparser.tls.subprotocol import TlsHandshakeMessage  # pylint: disable=import-outside-toplevel
    for cls in lib.concrete_classes():
        if issubclass(cls, TlsHandshakeMessage):
            units[lib.ref_of(cls)] = _decl_handshake
    return units


_UNITS = {}


def _units():
    if not _UNITS:
        _UNITS.update(framing_units())
    return _UNITS


# ---------------------------------------------------------------------------------------------------

def _short(name):
    return name.split(':')[-1]


def check_case(case):
    target = targets.by_name(case['target'])
    cls = target.cls
    buf = bytes.fromhex(case['hex'])
    name = _short(target.name)
    errors = lib.errors()
    findings = []
    with targets.watchdog(30):
        first = lib.call(cls.parse_immutable, buf)
        if first.kind == 'leak':
            return []           # exception types are C02's business
        mutable_buffer = bytearray(buf)
        second = lib.call(cls.parse_mutable, mutable_buffer)
        third = lib.call(cls.parse_exact_size, buf)
        if not first.ok:
            if second.ok or bytes(mutable_buffer) != buf:
                findings.append(Finding('untouched/' + name, {
                    'immutable': first.signature(), 'mutable': second.signature(),
                    'buffer_changed': bytes(mutable_buffer) != buf}))
            if third.ok:
                findings.append(Finding('exact/' + name, {'immutable': first.signature(), 'exact': 'ok'}))
            return findings
        value = first.value
        if not (isinstance(value, tuple) and len(value) == 2):
            return [Finding('nrange/' + name, {'returned': repr(type(value))})]
        obj, consumed = value
        unit = _units().get(target.name)
        if not isinstance(consumed, int) or isinstance(consumed, bool) or consumed < 0 or consumed > len(buf) \
                or (unit is not None and consumed == 0):
            findings.append(Finding('nrange/' + name, {'n': repr(consumed), 'len': len(buf)}))
            return findings
        # in-place variant
        if not second.ok:
            findings.append(Finding('mutable/' + name, {'mutable': second.signature(), 'n': consumed}))
        else:
            if bytes(mutable_buffer) != buf[consumed:]:
                findings.append(Finding('mutable/' + name, {
                    'n': consumed, 'len': len(buf), 'left': len(mutable_buffer), 'expected_left': len(buf) - consumed}))
            else:
                difference = lib.same(second.value, obj)
                if difference:
                    findings.append(Finding('mutable/' + name, {'object_differs': difference}))
        # exact-size variant
        if consumed == len(buf):
            if not third.ok:
                findings.append(Finding('exact/' + name, {'n': consumed, 'len': len(buf), 'exact': third.signature()}))
            else:
                difference = lib.same(third.value, obj)
                if difference:
                    findings.append(Finding('exact/' + name, {'object_differs': difference}))
        else:
            if third.ok or not isinstance(third.exc, errors.TooMuchData):
                findings.append(Finding('exact/' + name, {'n': consumed, 'len': len(buf), 'exact': third.signature()}))
        # framing units: the result depends on the n bytes only, and n is what the header declares
        if unit is not None:
            alone = lib.call(cls.parse_immutable, buf[:consumed])
            if not alone.ok or alone.value[1] != consumed or lib.same(alone.value[0], obj):
                findings.append(Finding('selfdelim/' + name, {
                    'what': 'first n bytes alone', 'n': consumed,
                    'alone': alone.signature() if not alone.ok else alone.value[1]}))
            for suffix_hex in case.get('suffixes', ()):
                longer = lib.call(cls.parse_immutable, buf[:consumed] + bytes.fromhex(suffix_hex))
                if not longer.ok or longer.value[1] != consumed or lib.same(longer.value[0], obj):
                    findings.append(Finding('selfdelim/' + name, {
                        'what': 'n bytes + suffix', 'n': consumed, 'suffix': suffix_hex[:40],
                        'with_suffix': longer.signature() if not longer.ok else longer.value[1]}))
                    break
            declared = unit(buf)
            if declared != consumed:
                findings.append(Finding('declared/' + name, {'n': consumed, 'declared': declared, 'len': len(buf)}))
    return findings


def _suffixes(rng, donors, own):
    out = [bytes(rng.randrange(256) for _ in range(rng.choice((1, 2, 5, 17)))).hex()]
    out.append(bytes(rng.choice(donors)).hex())
    out.append(bytes(own[:64]).hex() or '00')
    out.append(rng.choice(('00', 'ff', '0d0a', '16030100', '80')))
    return out


def _evaluate(stats, target, buf, label, rng, donors, is_unit):
    case = {'target': target.name, 'hex': buf.hex()}
    if is_unit:
        case['suffixes'] = _suffixes(rng, donors, buf)
    stats.evaluations += 1
    stats.labels[label] += 1
    try:
        found = check_case(case)
    except targets.Hang:
        found = [Finding('hang/' + _short(target.name), {'length': len(buf)})]
    outcome = lib.call(target.cls.parse_immutable, buf)
    if outcome.ok and isinstance(outcome.value, tuple):
        consumed = outcome.value[1]
        stats.labels['accepted'] += 1
        if isinstance(consumed, int) and (consumed < len(buf) or label.startswith('mutant')):
            stats.nontriv(target.name.encode() + b'|' + buf)
            stats.classes[target.name] += 1
            if is_unit:
                stats.labels['framing-unit-nontrivial'] += 1
            if label in ('seed+suffix', 'concat') and stats.labels[label] % 37 == 0:
                stats.sample(label, {'target': target.name, 'hex': buf.hex()[:200], 'n': consumed})
    for finding in found:
        stats.finding(finding, case)


def _shard(arg):
    index, seed_value, per_target, budget_s = arg
    started = time.time()
    stats = Stats()
    rng = random.Random(seed_value)
    mine = targets.class_targets()[index::N_SHARDS]
    donors = seeds.all_seeds()
    units = _units()
    for target in mine:
        is_unit = target.name in units
        base = list(seeds.seeds_for(target.cls))
        base += [b for b in c02.extra_seeds_for(target.cls) if b not in base]
        if not base:
            stats.labels['targets-without-seed'] += 1
            base = [rng.choice(donors) for _ in range(4)]
        budget = per_target * (6 if is_unit else 1)
        for seed in base:
            _evaluate(stats, target, seed, 'seed', rng, donors, is_unit)
            for _ in range(3):
                suffix = rng.choice((bytes(rng.randrange(256) for _ in range(rng.choice((1, 3, 8)))),
                                     rng.choice(donors), seed, b'\x00', b'\r\n'))
                _evaluate(stats, target, seed + bytes(suffix), 'seed+suffix', rng, donors, is_unit)
        for number in range(budget):
            if time.time() - started > budget_s:
                stats.budget_reached = True
                break
            seed = base[number % len(base)]
            kind = number % 5
            if kind == 0:
                count = rng.choice((2, 2, 3, 4))
                buf = b''.join(rng.choice(base) for _ in range(count))
                label = 'concat'
            elif kind == 1:
                _name, buf = mutate.mutate(rng, seed, donors)
                buf = buf + bytes(rng.choice(donors))[:rng.choice((0, 1, 4, 32))]
                label = 'mutant+suffix'
            else:
                name, buf = mutate.mutate(rng, seed, donors)
                if rng.random() < 0.3:
                    name, buf = mutate.mutate(rng, buf, donors)
                label = 'mutant:' + name
            _evaluate(stats, target, buf, label, rng, donors, is_unit)
        stats.add('targets', 1)
    return stats


def run(ctx):
    from vf.gen import registry as _registry  # pylint: disable=import-outside-toplevel
    _registry.warm()
    per_target = 400 if ctx.quick else 8000
    budget_s = 120 if ctx.quick else 1500
    jobs = [(index, ctx.derive_seed('shard', index), per_target, budget_s) for index in range(N_SHARDS)]
    stats = pool.run_shards(_shard, jobs)
    if not ctx.quick:
        from vf.fuzz import campaign  # pylint: disable=import-outside-toplevel
        campaign.run(ID, ctx.derive_seed, stats, runs=int(os.environ.get('VERIF_ATHERIS_RUNS', '150000')))
    stats.extra['framing_units'] = sorted(_short(k) for k in _units())
    return stats


def shrink(ctx, key, entry):
    case = dict(entry['case'])
    data = bytes.fromhex(case['hex'])
    started = time.time()

    def still(candidate):
        trial = dict(case, hex=candidate.hex())
        try:
            return any(f.key == key for f in check_case(trial))
        except targets.Hang:
            return False

    chunk = max(1, len(data) // 2)
    while chunk >= 1 and time.time() - started < 15:
        pos = 0
        while pos < len(data) and time.time() - started < 15:
            candidate = data[:pos] + data[pos + chunk:]
            if len(candidate) < len(data) and still(candidate):
                data = candidate
            else:
                pos += chunk
        chunk //= 2
    case['hex'] = data.hex()
    detail = None
    for finding in check_case(case):
        if finding.key == key:
            detail = finding.detail
    return case, detail
