# -*- coding: utf-8 -*-
"""C11 — integer, flag, mpint and timestamp primitives are exact and never truncate.

Oracle: Python's own big-integer arithmetic (int.to_bytes / int.from_bytes), an RFC 4251 mpint
encoder written here, and plain epoch arithmetic; the machine time zone is a *configuration* that the
check sets itself (TZ + time.tzset()) and that must not influence any output.
"""
import datetime
import enum
import importlib
import os
import random
import sys
import time
import zoneinfo

from hypothesis import strategies as st

from vf.core import hyp, pool
from vf.core.stats import Finding, Stats

ID = 'C11'
LEVEL = 'exploration'
RULE = ('ints: every value 0..65535 for every size in {1,2,3,4,8} x every ByteOrder is composed and parsed and '
        'compared with int.to_bytes/from_bytes (thorough: all 2^24 values for the 3-byte width), plus boundary, '
        'random in-range and out-of-range values (must raise InvalidValue and emit nothing); flags: every subset '
        'of the small flag enums and generated subsets / raw words of the large ones; mpints: generated '
        'integers up to 4096 bits around byte/word boundaries, both signs for the SSH form; timestamps: generated '
        'instants 1970..2106 (dense around each zone\'s UTC-offset transitions) x {seconds, milliseconds} x '
        '{4, 8 bytes} x datetime flavours {aware UTC, aware fixed offset, aware zone, naive} under each machine TZ. '
        'Non-trivial: the value needs the full width or sits on a boundary (ints), the subset is non-empty '
        '(flags), the integer has its top bit at a byte boundary +-1 (mpints), the machine TZ is not UTC '
        '(timestamps). Distinct by (kind, parameters, value).')
ASSUMPTIONS = [
    'NATIVE byte order is sys.byteorder',
    'a naive datetime denotes UTC (this is what the repository\'s own compose_timestamp tests pass in); for it '
    'the clause is the metamorphic one: the output must not depend on the machine TZ',
    'fixed-length negative mpints and little-endian mpints are not judged (no protocol here uses them)',
    'the 4-byte timestamp 0xffffffff is the "forever" sentinel, so the instant 2106-02-07T06:28:15Z is outside '
    'the 4-byte domain',
]

SIZES = (1, 2, 3, 4, 8)
ORDERS = ('NATIVE', 'LITTLE_ENDIAN', 'BIG_ENDIAN', 'NETWORK')
EPOCH = datetime.datetime(1970, 1, 1, tzinfo=datetime.timezone.utc)

FLAG_ENUMS = [
    # (module:Class, field size, shift, byte order) as used by the library's callers
    ('cryptoparser.dnsrec.record:DnsSecFlag', 2, 0, 'NETWORK'),
    ('cryptoparser.tls.mysql:MySQLCapability', 2, 0, 'LITTLE_ENDIAN'),
    ('cryptoparser.tls.mysql:MySQLCapability', 2, 16, 'LITTLE_ENDIAN'),
    ('cryptoparser.tls.mysql:MySQLCapability', 4, 0, 'LITTLE_ENDIAN'),
    ('cryptoparser.tls.mysql:MySQLStatusFlag', 2, 0, 'LITTLE_ENDIAN'),
    ('cryptoparser.tls.rdp:RDPNegotiationRequestFlags', 1, 0, 'LITTLE_ENDIAN'),
    ('cryptoparser.tls.rdp:RDPNegotiationResponseFlags', 1, 0, 'LITTLE_ENDIAN'),
    ('cryptoparser.tls.rdp:RDPProtocol', 4, 0, 'LITTLE_ENDIAN'),
    ('vf.props.c11:SyntheticFlag8', 1, 0, 'NETWORK'),
    ('vf.props.c11:SyntheticFlagComposite', 1, 0, 'NETWORK'),
    ('vf.props.c11:SyntheticFlag32', 4, 0, 'BIG_ENDIAN'),
    ('vf.props.c11:SyntheticFlag32', 2, 16, 'NETWORK'),
]


class SyntheticFlag8(enum.IntEnum):
    B0 = 0x01
    B2 = 0x04
    B3 = 0x08
    B7 = 0x80


class SyntheticFlag32(enum.IntEnum):
    L0 = 0x00000001
    L9 = 0x00000200
    L15 = 0x00008000
    H16 = 0x00010000
    H20 = 0x00100000
    H31 = 0x80000000


class SyntheticFlagComposite(enum.IntEnum):
    READ = 0x01
    WRITE = 0x02
    READ_WRITE = 0x03
    EXEC = 0x10
    ALL = 0x93
    TOP = 0x80


def _lib():
    from cryptoparser.common import parse as P  # pylint: disable=import-outside-toplevel
    from cryptodatahub.common.exception import InvalidValue  # pylint: disable=import-outside-toplevel
    return P, InvalidValue


def _endian(order):
    if order == 'LITTLE_ENDIAN':
        return 'little'
    if order == 'NATIVE':
        return sys.byteorder
    return 'big'


def _resolve(ref):
    module, name = ref.split(':')
    return getattr(importlib.import_module(module), name)


def ref_ssh_mpint(value):
    """RFC 4251 section 5: two's complement, big-endian, no unnecessary leading 0x00 / 0xff bytes."""
    if value == 0:
        return b'\x00\x00\x00\x00'
    body = value.to_bytes(value.bit_length() // 8 + 1, 'big', signed=True)
    while len(body) > 1 and ((body[0] == 0x00 and body[1] < 0x80) or (body[0] == 0xff and body[1] >= 0x80)):
        body = body[1:]
    return len(body).to_bytes(4, 'big') + body


def set_tz(name):
    if name is None:
        os.environ.pop('TZ', None)
    else:
        os.environ['TZ'] = name
    time.tzset()


# ---------------------------------------------------------------------------------------------------
# check_case
# ---------------------------------------------------------------------------------------------------

def _check_int(case):
    P, InvalidValue = _lib()
    size, order, value = case['size'], case['order'], case['value']
    byte_order = P.ByteOrder[order]
    findings = []
    fits = 0 <= value < (1 << (8 * size))
    composer = P.ComposerBinary(byte_order=byte_order)
    try:
        composer.compose_numeric(value, size)
        composed = bytes(composer.composed_bytes)
        error = None
    except InvalidValue:
        composed, error = None, 'InvalidValue'
    except Exception as e:  # pylint: disable=broad-except
        composed, error = None, type(e).__name__
    if fits:
        expected = value.to_bytes(size, _endian(order))
        if composed != expected:
            findings.append(Finding('int:%d:%s' % (size, order), {
                'value': value, 'composed': composed.hex() if composed is not None else None, 'error': error,
                'expected': expected.hex()}))
        try:
            parser = P.ParserBinary(expected + b'\xa5', byte_order=byte_order)
            parser.parse_numeric('x', size)
            if parser['x'] != value or parser.parsed_length != size:
                findings.append(Finding('int-parse:%d:%s' % (size, order), {
                    'bytes': expected.hex(), 'parsed': parser['x'], 'expected': value, 'n': parser.parsed_length}))
        except Exception as e:  # pylint: disable=broad-except
            findings.append(Finding('int-parse:%d:%s' % (size, order), {'bytes': expected.hex(), 'error': repr(e)}))
    else:
        if error is None:
            findings.append(Finding('truncation:%d' % size, {
                'value': value, 'order': order, 'composed': composed.hex()}))
        elif error != 'InvalidValue':
            findings.append(Finding('int-error:%d:%s' % (size, error), {'value': value, 'order': order}))
        if error is not None and bytes(composer.composed_bytes) != b'':
            findings.append(Finding('partial-output:%d' % size, {
                'value': value, 'order': order, 'left': bytes(composer.composed_bytes).hex()}))
    return findings


def _check_intarr(case):
    P, InvalidValue = _lib()
    size, order, values = case['size'], case['order'], case['values']
    byte_order = P.ByteOrder[order]
    findings = []
    limit = 1 << (8 * size)
    fits = all(0 <= v < limit for v in values)
    composer = P.ComposerBinary(byte_order=byte_order)
    composer.compose_raw(b'\x5a')
    try:
        composer.compose_numeric_array(values, size)
        error = None
    except InvalidValue:
        error = 'InvalidValue'
    except Exception as e:  # pylint: disable=broad-except
        error = type(e).__name__
    composed = bytes(composer.composed_bytes)
    if fits:
        expected = b'\x5a' + b''.join(v.to_bytes(size, _endian(order)) for v in values)
        if error is not None or composed != expected:
            findings.append(Finding('intarr:%d:%s' % (size, order), {
                'values': values, 'composed': composed.hex(), 'error': error, 'expected': expected.hex()}))
        try:
            parser = P.ParserBinary(expected[1:] + b'\xa5\xa5', byte_order=byte_order)
            parser.parse_numeric_array('x', len(values), size)
            if list(parser['x']) != list(values) or parser.parsed_length != size * len(values):
                findings.append(Finding('intarr-parse:%d:%s' % (size, order), {
                    'values': values, 'parsed': list(parser['x'])}))
        except Exception as e:  # pylint: disable=broad-except
            findings.append(Finding('intarr-parse:%d:%s' % (size, order), {'values': values, 'error': repr(e)}))
    else:
        if error is None:
            findings.append(Finding('truncation:%d' % size, {'values': values, 'order': order, 'composed': composed.hex()}))
        elif error != 'InvalidValue':
            findings.append(Finding('int-error:%d:%s' % (size, error), {'values': values, 'order': order}))
        if error is not None and composed != b'\x5a':
            findings.append(Finding('partial-output:%d' % size, {'values': values, 'order': order, 'left': composed.hex()}))
    return findings


def _check_flags(case):
    P, InvalidValue = _lib()
    flags_class = _resolve(case['enum'])
    size, shift, order = case['size'], case['shift'], case['order']
    byte_order = P.ByteOrder[order]
    findings = []
    locus = '%s:%d:%d' % (case['enum'].split(':')[1], size, shift)
    if case['kind'] == 'flags-parse':
        word = case['word']
        raw = word.to_bytes(size, _endian(order))
        expected = {m for m in flags_class if int(m) & (word << shift)}
        try:
            parser = P.ParserBinary(raw, byte_order=byte_order)
            parser.parse_numeric_flags('f', size, flags_class, shift_left=shift)
            got = parser['f']
            if got != expected or parser.parsed_length != size or not all(isinstance(m, flags_class) for m in got):
                findings.append(Finding('flags-parse/' + locus, {
                    'word': word, 'got': sorted(int(m) for m in got), 'expected': sorted(int(m) for m in expected)}))
        except Exception as e:  # pylint: disable=broad-except
            findings.append(Finding('flags-parse/' + locus, {'word': word, 'error': repr(e)}))
        # history: the same word read at another position of the same flag space (MySQL splits its capabilities over
        # two fields) right after this one - what a word means depends on where it sits, not on what was read before
        for other_size, other_shift in case.get('then', ()):
            other_word = word & ((1 << (8 * other_size)) - 1)
            other_expected = {m for m in flags_class if int(m) & (other_word << other_shift)}
            try:
                parser = P.ParserBinary(other_word.to_bytes(other_size, _endian(order)), byte_order=byte_order)
                parser.parse_numeric_flags('f', other_size, flags_class, shift_left=other_shift)
                if parser['f'] != other_expected:
                    findings.append(Finding('flags-parse-history/' + locus, {
                        'word': word, 'then_size': other_size, 'then_shift': other_shift,
                        'got': sorted(int(m) for m in parser['f']), 'expected': sorted(int(m) for m in other_expected)}))
            except Exception as e:  # pylint: disable=broad-except
                findings.append(Finding('flags-parse-history/' + locus, {'word': word, 'error': repr(e)}))
    else:
        members = [flags_class[n] for n in case['members']]
        word = 0
        for member in members:
            word |= int(member)
        expected_word = word >> shift
        # callers only hand over members that live in the shifted window
        expected = expected_word.to_bytes(size, _endian(order))
        # a member named twice ORs to the same word (the callers hand over lists as well as sets)
        for arrangement in (members, list(reversed(members)), set(members), members + list(reversed(members))):
            composer = P.ComposerBinary(byte_order=byte_order)
            try:
                composer.compose_numeric_flags(arrangement, size, shift_right=shift)
                composed = bytes(composer.composed_bytes)
                if composed != expected:
                    findings.append(Finding('flags-compose/' + locus, {
                        'members': case['members'], 'composed': composed.hex(), 'expected': expected.hex()}))
                    break
            except Exception as e:  # pylint: disable=broad-except
                findings.append(Finding('flags-compose/' + locus, {'members': case['members'], 'error': repr(e)}))
                break
        if any(bin(int(m)).count('1') > 1 for m in flags_class):
            return findings     # a class with composite members has no unique set for a word: compose direction only
        try:
            parser = P.ParserBinary(expected, byte_order=byte_order)
            parser.parse_numeric_flags('f', size, flags_class, shift_left=shift)
            if parser['f'] != {m for m in members if int(m)}:
                findings.append(Finding('flags-roundtrip/' + locus, {
                    'members': case['members'], 'got': sorted(m.name for m in parser['f'])}))
        except Exception as e:  # pylint: disable=broad-except
            findings.append(Finding('flags-roundtrip/' + locus, {'members': case['members'], 'error': repr(e)}))
    return findings


def _check_mpint(case):
    P, InvalidValue = _lib()
    length, value = case['length'], int(case['value'])
    findings = []
    fits = 0 <= value < (1 << (8 * length))
    composer = P.ComposerBinary()
    composer.compose_raw(b'\x5a')
    try:
        composer.compose_mpint(value, length)
        error = None
    except InvalidValue:
        error = 'InvalidValue'
    except Exception as e:  # pylint: disable=broad-except
        error = type(e).__name__
    composed = bytes(composer.composed_bytes)
    if fits:
        expected = b'\x5a' + value.to_bytes(length, 'big')
        if error is not None or composed != expected:
            findings.append(Finding('mpint/compose', {
                'length': length, 'value': str(value), 'composed': composed.hex()[:200], 'error': error}))
        try:
            parser = P.ParserBinary(expected[1:] + b'\xa5\xa5\xa5')
            parser.parse_mpint('x', length)
            if parser['x'] != value or parser.parsed_length != length:
                findings.append(Finding('mpint/parse', {
                    'length': length, 'value': str(value), 'parsed': str(parser['x']), 'n': parser.parsed_length}))
        except Exception as e:  # pylint: disable=broad-except
            findings.append(Finding('mpint/parse', {'length': length, 'value': str(value), 'error': repr(e)}))
    elif value >= 0:
        if error is None:
            findings.append(Finding('mpint/truncation', {
                'length': length, 'value': str(value), 'composed': composed.hex()[:200]}))
        elif error != 'InvalidValue':
            findings.append(Finding('mpint/error:' + error, {'length': length, 'value': str(value)}))
        if error is not None and composed != b'\x5a':
            findings.append(Finding('mpint/partial-output', {'length': length, 'value': str(value)}))
    return findings


def _check_sshmpint(case):
    P, InvalidValue = _lib()
    value = int(case['value'])
    findings = []
    sign = 'neg' if value < 0 else 'nonneg'
    reference = ref_ssh_mpint(value)
    composed = None
    try:
        composer = P.ComposerBinary()
        composer.compose_ssh_mpint(value)
        composed = bytes(composer.composed_bytes)
    except Exception as e:  # pylint: disable=broad-except
        findings.append(Finding('ssh-mpint/compose-raises:' + sign, {'value': str(value), 'error': repr(e)}))
    if composed is not None:
        if len(composed) < 4 or int.from_bytes(composed[:4], 'big') != len(composed) - 4:
            findings.append(Finding('ssh-mpint/length-prefix:' + sign, {'value': str(value), 'composed': composed.hex()[:200]}))
        elif value >= 0 and composed != reference:
            findings.append(Finding('ssh-mpint/not-canonical:nonneg', {
                'value': str(value), 'composed': composed.hex()[:200], 'expected': reference.hex()[:200]}))
        elif value < 0 and int.from_bytes(composed[4:], 'big', signed=True) != value:
            # any two's-complement encoding of the value is acceptable for negatives (round trip clause)
            findings.append(Finding('ssh-mpint/wrong-value:neg', {
                'value': str(value), 'composed': composed.hex()[:200], 'expected': reference.hex()[:200]}))
        try:
            parser = P.ParserBinary(composed + b'\x00\x80')
            parser.parse_ssh_mpint('x')
            if parser['x'] != value or parser.parsed_length != len(composed):
                findings.append(Finding('ssh-mpint/roundtrip:' + sign, {
                    'value': str(value), 'parsed': str(parser['x']), 'composed': composed.hex()[:200]}))
        except Exception as e:  # pylint: disable=broad-except
            findings.append(Finding('ssh-mpint/roundtrip:' + sign, {'value': str(value), 'error': repr(e)}))
    try:
        parser = P.ParserBinary(reference + b'\xff')
        parser.parse_ssh_mpint('x')
        if parser['x'] != value or parser.parsed_length != len(reference):
            findings.append(Finding('ssh-mpint/parse-canonical:' + sign, {
                'value': str(value), 'parsed': str(parser['x']), 'wire': reference.hex()[:200]}))
    except Exception as e:  # pylint: disable=broad-except
        findings.append(Finding('ssh-mpint/parse-canonical:' + sign, {'value': str(value), 'error': repr(e)}))
    return findings


def _make_datetime(flavour, epoch_ms):
    instant = EPOCH + datetime.timedelta(milliseconds=epoch_ms)
    if flavour == 'utc':
        return instant
    if flavour == 'naive':
        return instant.replace(tzinfo=None)
    if flavour.startswith('offset:'):
        return instant.astimezone(datetime.timezone(datetime.timedelta(minutes=int(flavour[7:]))))
    if flavour.startswith('zone:'):
        return instant.astimezone(zoneinfo.ZoneInfo(flavour[5:]))
    if flavour == 'dateutil-utc':
        import dateutil.tz  # pylint: disable=import-outside-toplevel
        return instant.astimezone(dateutil.tz.UTC)
    raise ValueError(flavour)


def _zone_class(tz):
    if tz in (None, 'UTC', 'Etc/UTC', 'UTC0'):
        return 'utc'
    return 'non-utc'


def _check_ts(case):
    P, InvalidValue = _lib()
    findings = []
    size, millis, flavour, epoch_ms = case['size'], case['ms'], case['dt'], case['epoch_ms']
    saved = os.environ.get('TZ')
    set_tz(case['tz'])
    try:
        value = _make_datetime(flavour, epoch_ms)
        expected = epoch_ms if millis else epoch_ms // 1000
        sentinel = (1 << (8 * size)) - 1
        fits = 0 <= expected < sentinel
        locus = '%s:%s' % ('naive' if flavour == 'naive' else ('aware-utc' if flavour in ('utc', 'dateutil-utc') else 'aware-other'),
                           _zone_class(case['tz']))
        composer = P.ComposerBinary()
        try:
            composer.compose_timestamp(value, milliseconds=millis, item_size=size)
            composed = bytes(composer.composed_bytes)
            error = None
        except InvalidValue:
            composed, error = None, 'InvalidValue'
        except Exception as e:  # pylint: disable=broad-except
            composed, error = None, repr(e)
        if fits:
            wire = expected.to_bytes(size, 'big')
            if composed != wire:
                got = int.from_bytes(composed, 'big') if composed is not None else None
                findings.append(Finding('timestamp/' + locus, {
                    'tz': case['tz'], 'dt': flavour, 'epoch_ms': epoch_ms, 'ms': millis, 'size': size,
                    'error': error, 'composed_minus_expected': None if got is None else got - expected}))
            try:
                parser = P.ParserBinary(wire + b'\x00')
                parser.parse_timestamp('t', milliseconds=millis, item_size=size)
                parsed = parser['t']
                want = EPOCH + (datetime.timedelta(milliseconds=epoch_ms) if millis
                                else datetime.timedelta(seconds=expected))
                if parsed is None or parsed.tzinfo is None or parsed != want or parser.parsed_length != size \
                        or parsed.utcoffset() != datetime.timedelta(0):
                    findings.append(Finding('timestamp-parse/' + _zone_class(case['tz']), {
                        'tz': case['tz'], 'wire': wire.hex(), 'ms': millis, 'parsed': repr(parsed), 'want': repr(want)}))
            except Exception as e:  # pylint: disable=broad-except
                findings.append(Finding('timestamp-parse/' + _zone_class(case['tz']), {
                    'tz': case['tz'], 'wire': wire.hex(), 'ms': millis, 'error': repr(e)}))
        elif expected > sentinel or expected < 0:
            if error is None:
                findings.append(Finding('timestamp-truncation:%d' % size, {
                    'tz': case['tz'], 'dt': flavour, 'epoch_ms': epoch_ms, 'ms': millis, 'composed': composed.hex()}))
            elif error != 'InvalidValue':
                findings.append(Finding('timestamp-error:%d' % size, {'epoch_ms': epoch_ms, 'ms': millis, 'error': error}))
    finally:
        set_tz(saved)
    return findings


def _check_sentinel(case):
    P, InvalidValue = _lib()
    findings = []
    size, millis = case['size'], case['ms']
    saved = os.environ.get('TZ')
    set_tz(case.get('tz'))
    try:
        wire = b'\xff' * size
        try:
            composer = P.ComposerBinary()
            composer.compose_timestamp(None, milliseconds=millis, item_size=size)
            if bytes(composer.composed_bytes) != wire:
                findings.append(Finding('sentinel:%d' % size, {'composed': bytes(composer.composed_bytes).hex()}))
        except Exception as e:  # pylint: disable=broad-except
            findings.append(Finding('sentinel:%d' % size, {'compose_error': repr(e), 'ms': millis}))
        try:
            parser = P.ParserBinary(wire)
            parser.parse_timestamp('t', milliseconds=millis, item_size=size)
            if parser['t'] is not None or parser.parsed_length != size:
                findings.append(Finding('sentinel-parse:%d' % size, {'parsed': repr(parser['t'])}))
        except Exception as e:  # pylint: disable=broad-except
            findings.append(Finding('sentinel-parse:%d' % size, {'error': repr(e)}))
    finally:
        set_tz(saved)
    return findings


def _check_rrsig_time(case):
    """The one message of the library that carries 4-byte second timestamps: an RRSIG record.  Every value of the field
    is an instant (RFC 4034 3.1.5 knows no "forever"); it is parsed to exactly that instant and composed back."""
    import datetime  # pylint: disable=import-outside-toplevel
    from cryptoparser.dnsrec.record import DnsRecordRrsig  # pylint: disable=import-outside-toplevel
    expiration, inception = case['expiration'], case['inception']
    rdata = (b'\x00\x01\x08\x00' + (3600).to_bytes(4, 'big') + expiration.to_bytes(4, 'big') + inception.to_bytes(4, 'big')
             + b'\x12\x34' + b'\x00' + b'sig')
    epoch = datetime.datetime(1970, 1, 1, tzinfo=datetime.timezone.utc)
    try:
        record = DnsRecordRrsig.parse_exact_size(rdata)
        got = [record.signature_expiration, record.signature_inception]
        want = [epoch + datetime.timedelta(seconds=expiration), epoch + datetime.timedelta(seconds=inception)]
        if [value.utcoffset() is None for value in got] != [False, False] or got != want:
            return [Finding('timestamp/rrsig:4-byte', {'expiration': expiration, 'inception': inception, 'parsed': [str(v) for v in got]})]
        if bytes(record.compose()) != rdata:
            return [Finding('timestamp/rrsig:4-byte', {'expiration': expiration, 'inception': inception, 'what': 'compose differs'})]
    except Exception as e:  # pylint: disable=broad-except
        return [Finding('timestamp/rrsig:4-byte', {'expiration': expiration, 'inception': inception, 'error': repr(e)[:200]})]
    return []


_CHECKERS = {
    'int': _check_int, 'intarr': _check_intarr, 'flags-parse': _check_flags, 'flags-compose': _check_flags,
    'mpint': _check_mpint, 'sshmpint': _check_sshmpint, 'ts': _check_ts, 'sentinel': _check_sentinel,
    'rrsig-time': _check_rrsig_time,
}


def check_case(case):
    return _CHECKERS[case['kind']](case)


# ---------------------------------------------------------------------------------------------------
# generation
# ---------------------------------------------------------------------------------------------------

def _shard_int_exhaustive(arg):
    """All values lo..hi-1 of one (size, order) — fast path without per-case dicts."""
    P, InvalidValue = _lib()
    size, order, lo, hi = arg
    stats = Stats()
    byte_order = P.ByteOrder[order]
    endian = _endian(order)
    limit = 1 << (8 * size)
    pad = b'\xa5'
    for value in range(lo, hi):
        ok = True
        try:
            composer = P.ComposerBinary(byte_order=byte_order)
            composer.compose_numeric(value, size)
            composed = bytes(composer.composed_bytes)
            if value < limit:
                expected = value.to_bytes(size, endian)
                if composed != expected:
                    ok = False
                else:
                    parser = P.ParserBinary(expected + pad, byte_order=byte_order)
                    parser.parse_numeric('x', size)
                    ok = parser['x'] == value and parser.parsed_length == size
            else:
                ok = False
        except InvalidValue:
            ok = value >= limit
        except Exception:  # pylint: disable=broad-except
            ok = False
        if not ok:
            case = {'kind': 'int', 'size': size, 'order': order, 'value': value}
            for finding in check_case(case):
                stats.finding(finding, case)
    count = hi - lo
    stats.evaluations += count
    stats.nontrivial_enumerated += count
    stats.labels['int-exhaustive:%d' % size] += count
    stats.sample('int-exhaustive', {'kind': 'int', 'size': size, 'order': order, 'value': hi - 1})
    return stats


def _boundary_ints(size):
    limit = 1 << (8 * size)
    values = set()
    for k in range(0, 8 * size + 1):
        for delta in (-1, 0, 1):
            values.add((1 << k) + delta)
    values |= {limit - 2, limit - 1, limit, limit + 1, limit * 2, limit * 256, (1 << 64) - 1, 1 << 64, (1 << 64) + 1,
               1 << 72, -1, -2, -limit, -(1 << 63), 1 << 24, (1 << 24) + 1, (1 << 32) - 1, 1 << 32, (1 << 32) + 5}
    return sorted(values)


def _shard_int_boundary(arg):
    size, order, seed_value, n_random = arg
    stats = Stats()
    rng = random.Random(seed_value)
    limit = 1 << (8 * size)
    values = list(_boundary_ints(size))
    values += [rng.randrange(0, limit) for _ in range(n_random)]
    values += [rng.randrange(limit, limit << 16) for _ in range(n_random // 4)]
    values += [rng.randrange(limit, 1 << 80) for _ in range(n_random // 8)]
    values += [-rng.randrange(1, limit << 8) for _ in range(n_random // 16)]
    for value in values:
        case = {'kind': 'int', 'size': size, 'order': order, 'value': value}
        stats.evaluated()
        in_range = 0 <= value < limit
        stats.label('int-in-range' if in_range else 'int-out-of-range')
        if not in_range or value.bit_length() > 8 * (size - 1):
            stats.nontriv(('int', size, order, value))
        for finding in check_case(case):
            stats.finding(finding, case)
    stats.sample('int-out-of-range', {'kind': 'int', 'size': size, 'order': order, 'value': limit})
    # arrays
    for _ in range(max(20, n_random // 20)):
        length = rng.choice((0, 1, 2, 3, 7, 16))
        vals = [rng.choice((0, 1, limit - 1, rng.randrange(limit))) for _ in range(length)]
        case = {'kind': 'intarr', 'size': size, 'order': order, 'values': vals}
        stats.evaluated()
        stats.label('intarr')
        if length >= 2:
            stats.nontriv(('intarr', size, order, vals))
        for finding in check_case(case):
            stats.finding(finding, case)
        if length:
            bad = list(vals)
            bad[rng.randrange(length)] = rng.choice((limit, limit + 1, limit * 3, -1, 1 << 70))
            case = {'kind': 'intarr', 'size': size, 'order': order, 'values': bad}
            stats.evaluated()
            stats.label('intarr-out-of-range')
            stats.nontriv(('intarr', size, order, bad))
            stats.sample('intarr-out-of-range', case)
            for finding in check_case(case):
                stats.finding(finding, case)
    return stats


def _shard_flags(arg):
    index, seed_value, n_random = arg
    ref, size, shift, order = FLAG_ENUMS[index]
    flags_class = _resolve(ref)
    stats = Stats()
    rng = random.Random(seed_value)
    members = list(flags_class)
    window = [m for m in members if int(m) >> shift and (int(m) >> shift) < (1 << (8 * size))]
    if shift == 0:
        window = [m for m in members if int(m) < (1 << (8 * size))]
    # compose: subsets of the window
    if len(window) <= 10:
        subsets = [[m for i, m in enumerate(window) if mask >> i & 1] for mask in range(1 << len(window))]
    else:
        subsets = [[], list(window)] + [[m] for m in window]
        subsets += [[m for m in window if rng.random() < rng.choice((0.2, 0.5, 0.8))] for _ in range(n_random)]
    for subset in subsets:
        case = {'kind': 'flags-compose', 'enum': ref, 'size': size, 'shift': shift, 'order': order,
                'members': [m.name for m in subset]}
        stats.evaluated()
        stats.label('flags-compose')
        if subset:
            stats.nontriv(('fc', ref, size, shift, sorted(case['members'])))
        for finding in check_case(case):
            stats.finding(finding, case)
    stats.sample('flags-compose', case)
    # parse: raw words (all for 1-byte and 2-byte fields, random for 4); a class with composite members (no enum of
    # the library has one) is used in the compose direction only: the parser maps a word to members one bit pattern
    # at a time and is not claimed to handle overlapping members
    if any(bin(int(m)).count('1') > 1 for m in flags_class):
        return stats
    others = [[other_size, other_shift] for other_ref, other_size, other_shift, _ in FLAG_ENUMS
              if other_ref == ref and (other_size, other_shift) != (size, shift)]
    if size <= 2:
        words = range(1 << (8 * size))
    else:
        words = [0, 1, 0xffffffff, 0x80000000, 0x7fffffff] + [rng.getrandbits(32) for _ in range(n_random * 4)] + \
                [1 << k for k in range(32)]
    for word in words:
        case = {'kind': 'flags-parse', 'enum': ref, 'size': size, 'shift': shift, 'order': order, 'word': word}
        if others:
            case['then'] = others
        stats.evaluated()
        stats.label('flags-parse')
        if word:
            stats.nontriv(('fp', ref, size, shift, word))
        for finding in check_case(case):
            stats.finding(finding, case)
    stats.sample('flags-parse', case)
    return stats


def _interesting_bigints(rng, max_bits, count, negative):
    values = []
    for _ in range(count):
        mode = rng.randrange(6)
        if mode == 0:
            bits = rng.choice((0, 1, 7, 8, 9, 15, 16, 17, 31, 32, 33, 63, 64, 65, 255, 256, 257, 2047, 2048, 2049, max_bits))
        else:
            k = rng.randrange(1, max_bits // 8 + 1)
            bits = 8 * k + rng.choice((-1, 0, 1))
        bits = max(0, min(bits, max_bits))
        if bits == 0:
            value = 0
        else:
            kind = rng.randrange(5)
            if kind == 0:
                value = 1 << (bits - 1)                       # exactly the top bit
            elif kind == 1:
                value = (1 << bits) - 1                       # all ones
            elif kind == 2:
                value = (1 << (bits - 1)) + 1
            elif kind == 3:
                value = (1 << (bits - 1)) | rng.getrandbits(bits)
            else:
                value = ((1 << bits) - 1) ^ ((1 << rng.randrange(bits)) - 1)   # 1..10..0
        if negative and rng.random() < 0.5:
            value = -value
        values.append(value)
    return values


def _shard_mpint(arg):
    seed_value, count = arg
    stats = Stats()
    rng = random.Random(seed_value)
    # fixed-length mpints
    for value in _interesting_bigints(rng, 4096, count, False):
        need = max(1, (value.bit_length() + 7) // 8)
        for length in {need, need + 1, need + rng.randrange(2, 9), max(1, need - 1), max(1, need - rng.randrange(1, 6)),
                       max(1, need // 4), max(1, need // 5)}:
            case = {'kind': 'mpint', 'length': length, 'value': str(value)}
            stats.evaluated()
            stats.label('mpint-fits' if length >= need else 'mpint-too-long')
            stats.nontriv(('mpint', length, case['value']))
            for finding in check_case(case):
                stats.finding(finding, case)
    stats.sample('mpint', case)
    # exhaustive small: all values 0..65535 at lengths 1..3
    for length in (1, 2, 3):
        for value in range(0, 1 << 16, 1 if length < 3 else 7):
            case = {'kind': 'mpint', 'length': length, 'value': str(value)}
            stats.evaluations += 1
            for finding in check_case(case):
                stats.finding(finding, case)
    stats.labels['mpint-small'] += 2 * 65536 + len(range(0, 1 << 16, 7))
    # SSH mpints, both signs
    values = _interesting_bigints(rng, 4096, count, True) + list(range(-70000, 70000, 1 if count >= 3000 else 13))
    values += [sign * ((1 << (8 * k)) + d) for sign in (1, -1) for k in range(1, 70) for d in (-1, 0, 1)]
    values += [-((1 << (32 * k)) - 1) for k in range(1, 40)] + [-(1 << (32 * k)) for k in range(1, 40)]
    for value in values:
        case = {'kind': 'sshmpint', 'value': str(value)}
        stats.evaluated()
        stats.label('ssh-mpint-neg' if value < 0 else 'ssh-mpint-nonneg')
        bits = value.bit_length()
        if bits % 8 in (0, 1, 7):
            stats.nontriv(('ssh', case['value']))
        for finding in check_case(case):
            stats.finding(finding, case)
    stats.sample('ssh-mpint', {'kind': 'sshmpint', 'value': str(-(1 << 64) + 1)})
    stats.sample('ssh-mpint', {'kind': 'sshmpint', 'value': str((1 << 2047) | 1)})
    return stats


QUICK_ZONES = [
    'UTC', 'Europe/Budapest', 'America/New_York', 'Australia/Lord_Howe', 'Pacific/Chatham', 'Europe/Moscow',
    'America/Caracas', 'Asia/Kathmandu', 'Asia/Pyongyang', 'Pacific/Apia', 'Asia/Kolkata', 'Pacific/Kiritimati',
    'Etc/GMT+12', 'Africa/Casablanca', 'America/St_Johns', 'Europe/Dublin', 'Antarctica/Troll', 'Asia/Tehran',
    'EST5EDT,M3.2.0,M11.1.0', 'XXX-5:45', '<+1245>-12:45<+1345>,M9.5.0/2:45,M4.1.0/3:45', 'CET-1CEST,M3.5.0,M10.5.0/3',
    'America/Sao_Paulo', 'Europe/London',
]

MAX_EPOCH_S = (1 << 32) - 1


def _offset_transitions(zone_name, cache={}):  # pylint: disable=dangerous-default-value
    """UTC instants (seconds) in 1970..2037 where the zone's UTC offset changes (day scan + bisection)."""
    if zone_name in cache:
        return cache[zone_name]
    try:
        zone = zoneinfo.ZoneInfo(zone_name)
    except Exception:  # pylint: disable=broad-except
        cache[zone_name] = []
        return []
    day = 86400

    def offset(sec):
        return (EPOCH + datetime.timedelta(seconds=sec)).astimezone(zone).utcoffset()

    transitions = []
    previous = offset(0)
    for start in range(0, 68 * 366 * day, day):
        current = offset(start + day)
        if current != previous:
            lo, hi = start, start + day
            while hi - lo > 1:
                mid = (lo + hi) // 2
                if offset(mid) == previous:
                    lo = mid
                else:
                    hi = mid
            transitions.append(hi)
            previous = current
    cache[zone_name] = transitions
    return transitions


def _instants(rng, zone_name, count):
    out = [0, 1, 999, 1000, MAX_EPOCH_S * 1000 - 1000, (MAX_EPOCH_S - 1) * 1000 + 999, 0x7fffffff * 1000, 0x80000000 * 1000]
    transitions = _offset_transitions(zone_name) if '/' in zone_name else []
    for _ in range(count):
        mode = rng.randrange(4)
        if mode == 0 and transitions:
            base = rng.choice(transitions)
            sec = base + rng.choice((-7200, -3601, -3600, -1800, -1, 0, 1, 1799, 1800, 3599, 3600, 7200, rng.randrange(-90000, 90000)))
        elif mode == 1:
            year = rng.randrange(1970, 2106)
            sec = int((datetime.datetime(year, rng.randrange(1, 13), rng.randrange(1, 29), rng.randrange(24),
                                         rng.randrange(60), rng.randrange(60), tzinfo=datetime.timezone.utc) - EPOCH).total_seconds())
        else:
            sec = rng.randrange(0, MAX_EPOCH_S)
        sec = max(0, min(sec, MAX_EPOCH_S - 1))
        out.append(sec * 1000 + rng.choice((0, 0, 1, 255, 500, 999, rng.randrange(1000))))
    return out


def _shard_ts(arg):
    zones, seed_value, per_zone = arg
    stats = Stats()
    rng = random.Random(seed_value)
    flavours_all = ['utc', 'dateutil-utc', 'naive', 'offset:345', 'offset:-720', 'offset:840', 'offset:60',
                    'zone:Asia/Kathmandu', 'zone:Europe/Budapest', 'zone:America/Caracas', 'zone:Australia/Lord_Howe']
    saved = os.environ.get('TZ')
    for zone_name in zones:
        for millis in (False, True):
            for size in (4, 8):
                case = {'kind': 'sentinel', 'size': size, 'ms': millis, 'tz': zone_name}
                stats.evaluated()
                stats.label('sentinel')
                stats.nontriv(('sentinel', size, millis, zone_name))
                for finding in check_case(case):
                    stats.finding(finding, case)
        for epoch_ms in _instants(rng, zone_name, per_zone):
            flavour = rng.choice(flavours_all) if rng.random() < 0.6 else rng.choice(('utc', 'naive'))
            millis = rng.random() < 0.5
            size = 4 if rng.random() < 0.3 else 8
            if millis and size == 4 and rng.random() < 0.8:
                epoch_ms = epoch_ms % ((1 << 32) - 1)          # keep most 4-byte millisecond cases in range
            case = {'kind': 'ts', 'tz': zone_name, 'epoch_ms': epoch_ms, 'ms': millis, 'size': size, 'dt': flavour}
            stats.evaluated()
            stats.label('ts:' + ('naive' if flavour == 'naive' else 'aware'))
            stats.cls(zone_name)
            if _zone_class(zone_name) != 'utc':
                stats.nontriv(('ts', zone_name, epoch_ms, millis, size, flavour))
                stats.sample('ts', case)
            for finding in check_case(case):
                stats.finding(finding, case)
    set_tz(saved)
    return stats


def run(ctx):
    quick = ctx.quick
    stats = Stats()
    # 1. ints, exhaustive part
    jobs = []
    for size in SIZES:
        for order in ORDERS:
            top = min(1 << (8 * size), 1 << 16) + (512 if size <= 2 else 0)
            if not quick and size == 3:
                top = (1 << 24) + 512
            step = 1 << 20 if top > (1 << 20) else top
            for lo in range(0, top, step):
                jobs.append((size, order, lo, min(top, lo + step)))
    stats.merge(pool.run_shards(_shard_int_exhaustive, jobs))
    stats.extra['exhaustive'] = True
    stats.extra['exhaustive_scope'] = ('values 0..65535 (+512 beyond the width for sizes 1,2) for every size x byte order'
                                       + ('' if quick else '; all 2^24 values (+512) for size 3 x every byte order'))
    # 2. ints boundary/random + arrays
    n_random = 400 if quick else 20000
    jobs = [(size, order, ctx.derive_seed('intb', size, order), n_random) for size in SIZES for order in ORDERS]
    stats.merge(pool.run_shards(_shard_int_boundary, jobs))
    # 3. flags
    jobs = [(index, ctx.derive_seed('flags', index), 300 if quick else 20000) for index in range(len(FLAG_ENUMS))]
    stats.merge(pool.run_shards(_shard_flags, jobs))
    # 4. mpints
    shards = 16
    jobs = [(ctx.derive_seed('mpint', shard), 150 if quick else 6000) for shard in range(shards)]
    stats.merge(pool.run_shards(_shard_mpint, jobs))
    # 4b. the 4-byte timestamps of an RRSIG record (no sentinel there): boundary instants
    edges = [0, 1, 2 ** 31 - 1, 2 ** 31, 2 ** 32 - 2, 2 ** 32 - 1, 1340000000]
    for expiration in edges:
        for inception in (0, 2 ** 32 - 1, expiration):
            case = {'kind': 'rrsig-time', 'expiration': expiration, 'inception': inception}
            stats.evaluated()
            stats.label('rrsig-time')
            stats.nontriv(('rrsig-time', expiration, inception))
            for finding in check_case(case):
                stats.finding(finding, case)
    stats.sample('rrsig-time', {'kind': 'rrsig-time', 'expiration': 2 ** 32 - 1, 'inception': 0})
    # 5. timestamps under TZ configurations
    zones = list(QUICK_ZONES)
    if not quick:
        zones += sorted(z for z in zoneinfo.available_timezones() if z not in QUICK_ZONES)
    per_zone = 300 if quick else 1500
    chunks = [zones[i::16] for i in range(16)]
    jobs = [(chunk, ctx.derive_seed('ts', i), per_zone) for i, chunk in enumerate(chunks) if chunk]
    stats.merge(pool.run_shards(_shard_ts, jobs))
    stats.extra['tz_configurations'] = len(zones)
    return stats
